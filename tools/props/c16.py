"""C16 — in-memory collections behave as their sequential reference models.

One Property; every case carries a "kind" selecting the structure:
  window | safemap | queue | ring | set | cache | cache_rt (thorough tier only)
"""
import os
import re

import vlib
from runner import Property, ExecError
from vlib import cz, clist, cbool
from c16sim import QueueSim, SafeMapSim, LruSim
import c16hash

T0_BASE = 10 ** 15          # virtual clock base (0 means "unset" elsewhere in go-zero)
TAG = 1 << 32               # Set keys: tag * 2^32 + value
TICK_MS = 1000              # the cache's timing wheel interval (cache.go: time.Second)
SLACK_MS = 400              # scheduling slack allowed around the expiry window

# The shared evaluator cuts the list of cases into equal consecutive shards; C16 has a few heavy
# cases (SafeMap histories with tens of thousands of primitive operations: 5..25 s each) among
# hundreds of light ones, so the cases are spread over the cores by estimated weight (longest
# first into the lightest bin), each bin one coqc process.  Only this process is affected.
_coq_eval_cases = vlib.coq_eval_cases


_BULK = re.compile(r"MChurn \S+ \S+ (\d+)|MSetSeq \S+ (\d+) \S+|MDelSeq \S+ (\d+)")
_CBULK = re.compile(r"\b[cx](?:del|set)seq \(?-?\d+\)? (\d+)")


def _term_weight(t):
    """Estimated cost in list-element visits (about 2e6 per second): a light case is ~45 ms; a
    SafeMap bulk operation costs (number of primitive operations) x (keys alive)."""
    w = 60000 + 30 * len(t)
    if "seq " in t:
        w += sum(1500 * int(n) for n in _CBULK.findall(t))
    if "repn " in t:
        w += sum(1500 * int(n) for n in re.findall(r"repn (\d+) ", t))
    if "MChurn" in t or "MSetSeq" in t or "MDelSeq" in t:
        live = 3
        for m in _BULK.finditer(t):
            if m.group(1):
                w += 2 * int(m.group(1)) * live
            elif m.group(2):
                n = int(m.group(2))
                w += n * (live + n // 2)
                live += n
            else:
                w += int(m.group(3)) * live
    return w


HEAVY = 4 * 10 ** 6      # above this, agrees and prop_ok of one case are evaluated by two processes


def _eval_balanced(prop, check_module, terms, preamble="", shard=400, timeout=900):
    if prop != "C16" or len(terms) < 2:
        return _coq_eval_cases(prop, check_module, terms, preamble=preamble, shard=shard, timeout=timeout)
    import concurrent.futures
    import time as _t
    jobs = []                       # (weight, term index, what)
    for i, t in enumerate(terms):
        w = _term_weight(t)
        if w > HEAVY:
            jobs += [(w // 2, i, "a"), (w // 2, i, "p")]
        else:
            jobs.append((w, i, "ap"))
    nb = min(vlib.NCPU, len(jobs))
    bins = [[0, []] for _ in range(nb)]
    for j in sorted(jobs, key=lambda j: -j[0]):
        b = min(bins, key=lambda b: b[0])
        b[0] += j[0]
        b[1].append(j)
    expr = {"ap": "(agrees c%d, prop_ok c%d)", "a": "(agrees c%d, true)", "p": "(true, prop_ok c%d)"}

    def work(ix):
        js = bins[ix][1]
        body = ["From Coq Require Import List ZArith String.", "From GZ Require Import %s." % check_module,
                "Import ListNotations.", "Open Scope Z_scope.", preamble]
        for n, (_, i, what) in enumerate(js):
            body.append("Definition c%d : case := %s." % (n, terms[i]))
            body.append("Eval vm_compute in %s." % (expr[what] % ((n, n) if what == "ap" else (n,))))
        t0 = _t.time()
        rc, out = vlib._coqc_tmp("%s_cases_%d_%d" % (prop, os.getpid(), ix), "\n".join(body) + "\n", timeout)
        if os.environ.get("C16_DEBUG"):
            print("bin %d: %d jobs, weight %d, %.1fs" % (ix, len(js), bins[ix][0], _t.time() - t0), flush=True)
        if rc != 0:
            at = out.find("Error")
            raise RuntimeError("coqc failed on case shard %d (rc %s):\n%s"
                               % (ix, rc, out[max(0, at - 1500):at + 2500] if at >= 0 else out[-4000:]))
        rs = [(x == "true", y == "true") for x, y in vlib.PAIR_RE.findall(out)]
        if len(rs) != len(js):
            raise RuntimeError("case shard %d: expected %d results, got %d\n%s" % (ix, len(js), len(rs), out[-2000:]))
        return rs

    res = [(True, True)] * len(terms)
    with concurrent.futures.ThreadPoolExecutor(max_workers=nb) as ex:
        for ix, rs in enumerate(ex.map(work, range(nb))):
            for (_, i, _what), (a, p) in zip(bins[ix][1], rs):
                res[i] = (res[i][0] and a, res[i][1] and p)
    return res


vlib.coq_eval_cases = _eval_balanced


DUR = {"time.Nanosecond": 1, "time.Microsecond": 10 ** 3, "time.Millisecond": 10 ** 6, "time.Second": 10 ** 9,
       "time.Minute": 60 * 10 ** 9, "time.Hour": 3600 * 10 ** 9}


def _go_sources(repo):
    """All non-test Go files of core/collection, comments removed (constants may live in any of them)."""
    d = os.path.join(repo, "core/collection")
    txt = {}
    for f in sorted(os.listdir(d)):
        if f.endswith(".go") and not f.endswith("_test.go") and not f.startswith("zz_verif"):
            t = open(os.path.join(d, f)).read()
            t = re.sub(r"/\*.*?\*/", " ", t, flags=re.S)
            t = re.sub(r"//[^\n]*", "", t)
            txt[f] = t
    return txt


_DUR_RE = re.compile(r"time\.(Nanosecond|Microsecond|Millisecond|Second|Minute|Hour)\b")


def _const_expr(name, src, what, depth=0):
    """Integer value (durations in ns) of the package-level constant `name`: its defining expression
    may be a literal, another constant of the package, a time.* unit, or +,-,*,<<,() of those, with
    or without a type (`x = 300`, `x int = 3 * 100`, `x = time.Second`).  ValueError otherwise."""
    m = re.search(r"(?m)^\s*(?:const\s+)?%s\b(?:\s+[\w.]+)?\s*=\s*([^\n;]+)" % re.escape(name), src)
    if not m or depth > 6:
        raise ValueError("C16 constants: cannot find %s" % what)
    return _eval_expr(m.group(1).strip(), src, what, depth)


def _go_int_expr(e):
    """Go integer constant expression with Go's precedences (* / % << >> & bind tighter than + - | ^)."""
    toks = re.findall(r"0[xX][0-9a-fA-F]+|\d+|<<|>>|[-+*/%()&|^]", e)
    if "".join(toks) != re.sub(r"\s+", "", e):
        raise ValueError(e)
    pos = [0]

    def peek():
        return toks[pos[0]] if pos[0] < len(toks) else None

    def nxt():
        pos[0] += 1
        return toks[pos[0] - 1]

    def atom():
        t = nxt()
        if t == "(":
            v = add()
            if nxt() != ")":
                raise ValueError(e)
            return v
        if t == "-":
            return -atom()
        if t == "+":
            return atom()
        return int(t, 0)

    def mul():
        v = atom()
        while peek() in ("*", "/", "%", "<<", ">>", "&"):
            o = nxt()
            w = atom()
            v = {"*": v * w, "/": int(v / w) if w else 0, "%": v % w if w else 0, "<<": v << w, ">>": v >> w, "&": v & w}[o]
        return v

    def add():
        v = mul()
        while peek() in ("+", "-", "|", "^"):
            o = nxt()
            w = mul()
            v = {"+": v + w, "-": v - w, "|": v | w, "^": v ^ w}[o]
        return v
    v = add()
    if pos[0] != len(toks):
        raise ValueError(e)
    return v


def _eval_expr(e, src, what, depth=0):
    e = _DUR_RE.sub(lambda m: str(DUR["time." + m.group(1)]), e)
    e = re.sub(r"\b(?:time\.Duration|int64|int|uint|uint64|uint32|int32)\s*\(", "(", e)
    e = re.sub(r"\b([A-Za-z_]\w*)\b", lambda m: str(_const_expr(m.group(1), src, what, depth + 1)), e)
    e = e.replace("_", "")
    try:
        v = _go_int_expr(e)
    except Exception:
        raise ValueError("C16 constants: cannot evaluate %s (%s)" % (what, e))
    if not isinstance(v, int):
        raise ValueError("C16 constants: %s is not an integer" % what)
    return v


def extract_constants(repo):
    """Constants of core/collection the models and generators depend on (SafeMap thresholds, the cache's
    wheel parameters, its expiry deviation, whether a rewrite refreshes its timer with MoveTimer).
    Follows harmless rewrites: the constants may sit in any file of the package, be typed, be
    arithmetic expressions or named after one another; NewCache's NewTimingWheel call may name its
    interval.  Fails loudly (ValueError) when the source no longer has a shape it understands -
    the runner then searches for a failing input instead of trusting stale constants."""
    files = _go_sources(repo)
    src = "\n".join(files.values())
    ca = files.get("cache.go", src)

    def need(pat, text, what, flags=0):
        m = re.search(pat, text, flags)
        if not m:
            raise ValueError("C16 constants: cannot find %s" % what)
        return m

    vals = {}
    vals["copyThreshold"] = _const_expr("copyThreshold", src, "copyThreshold")
    vals["maxDeletion"] = _const_expr("maxDeletion", src, "maxDeletion")
    dev = need(r"(?m)^\s*(?:const\s+)?expiryDeviation\b(?:\s+[\w.]+)?\s*=\s*(\d*)\.(\d+)\s*$", src, "expiryDeviation")
    vals["dev_num"] = int((dev.group(1) or "0") + dev.group(2))
    vals["dev_den"] = 10 ** len(dev.group(2))
    # the wheel NewCache builds: NewTimingWheel(<interval>, <slots>, <callback>)
    nc = need(r"func NewCache\(.*?\n}\n", src, "NewCache", re.S).group(0)
    tw = need(r"NewTimingWheel\(\s*([^,]+?)\s*,\s*([^,]+?)\s*,", nc, "NewTimingWheel(interval, slots, ...) in NewCache")
    vals["interval_ns"] = _eval_expr(tw.group(1), src, "the cache wheel's interval")
    vals["slots"] = _eval_expr(tw.group(2), src, "the cache wheel's slots")
    # SetWithExpire and the Cache methods it calls (a helper may have been split off)
    text = need(r"func \(\w+ \*Cache\) SetWithExpire\(.*?\n}\n", src, "SetWithExpire", re.S).group(0)
    followed = {"SetWithExpire"}
    for _ in range(3):
        for name in sorted(set(re.findall(r"\b\w+\.(\w+)\(", text)) - followed):
            followed.add(name)
            h = re.search(r"func \(\w+ \*Cache\) %s\(.*?\n}\n" % re.escape(name), src, re.S)
            if h:
                text += h.group(0)
    vals["rewrite_moves"] = ".MoveTimer(" in text
    return vals


def render_constants(v):
    return ("(* GENERATED by tools/props/c16.py from core/collection/{safemap,cache}.go - do not edit *)\n"
            "From Coq Require Import ZArith Bool.\nOpen Scope Z_scope.\n\n"
            "Definition safemap_copyThreshold : Z := %d.\n"
            "Definition safemap_maxDeletion : Z := %d.\n"
            "Definition cache_slots : Z := %d.\n"
            "Definition cache_wheel_interval_ns : Z := %d.\n"
            "Definition cache_expiry_deviation_num : Z := %d.\n"
            "Definition cache_expiry_deviation_den : Z := %d.\n"
            "(* SetWithExpire refreshes the timer of a key already present with MoveTimer *)\n"
            "Definition cache_rewrite_uses_move_timer : bool := %s.\n"
            % (v["copyThreshold"], v["maxDeletion"], v["slots"], v["interval_ns"], v["dev_num"], v["dev_den"],
               "true" if v["rewrite_moves"] else "false"))


def regen_constants():
    vals = extract_constants(vlib.REPO)
    text = render_constants(vals)
    path = os.path.join(vlib.COQ, "gen", "C16Consts.v")
    os.makedirs(os.path.dirname(path), exist_ok=True)
    old = open(path).read() if os.path.exists(path) else None
    if old != text:
        tmp = path + ".tmp%d" % os.getpid()
        with open(tmp, "w") as f:
            f.write(text)
        os.replace(tmp, path)
    return vals, old != text


def _obs(o):
    t = o[0]
    if t == "opt":
        return "OOpt None" if o[1] is None else "OOpt (Some %s)" % cz(o[1])
    if t == "num":
        return "ONum %s" % cz(o[1])
    if t == "bool":
        return "OBool %s" % cbool(o[1])
    if t == "list":
        return "OList %s" % clist([cz(x) for x in o[1]])
    if t == "pairs":
        return "OPairs %s" % clist(["(%s, %s)" % (cz(k), cz(v)) for k, v in o[1]])
    if t == "take":
        return "OTake %s %s" % ("None" if o[1] is None else "(Some %s)" % cz(o[1]), cbool(o[2]))
    raise ValueError("unknown observation %r" % (o,))


OBSERVING = ("get", "take", "take_race", "take_nested", "held", "size")


def flatten_cache(ops, seen, expand=True, take_first=()):
    """Cache histories as the models read them: bulk operations expanded, and every gated Take
    (`take_gate k v inner`: the loader is held while `inner` runs on another goroutine) put at its
    linearisation point - where its loader returned and the loaded value was stored: after the
    inner operations the executor saw completed while the loader was parked (all of them unless
    the cache made them wait), before the others; a gated Take that hit never ran its loader and
    comes first.  The observations are reordered the same way (the executor reports a gated Take's
    result in front of the inner ones).  Returns (flat ops, flat observations)."""
    it = iter(seen)
    fops, fseen = [], []
    gi = 0

    def emit(o):
        if o[0] == "delseq" and expand:
            fops.extend(["del", o[1] + i] for i in range(o[2]))
        elif o[0] == "setseq" and expand:
            fops.extend(["set", o[1] + i] + list(o[3:5]) for i in range(o[2]))
        else:
            fops.append(o)
            if o[0] in OBSERVING:
                r = next(it, None)
                if r is not None:
                    fseen.append(r)
    for o in ops:
        if o[0] != "take_gate":
            emit(o)
            continue
        r = next(it, None)
        n = 0
        if r is not None and r[0] == "take" and len(r) >= 5 and r[3]:
            n = max(0, min(len(o[3]), int(r[4])))
        if gi in take_first:
            n = 0          # the alternative linearisation: the whole Take precedes the inner operations
        gi += 1
        for x in o[3][:n]:
            emit(x)
        fops.append(["take", o[1], o[2]])
        if r is not None:
            fseen.append(r[:3] if r[0] == "take" else r)
        for x in o[3][n:]:
            emit(x)
    fseen += [r for r in it if r is not None]
    return fops, fseen


class C16(Property):
    id = "C16"
    title = "In-memory collections behave as their sequential reference models"
    quick_cases = 660
    thorough_cases = 12000
    design_ref = "DESIGN.md §6/C16"
    level_text = ("Unbounded Rocq theorems over executable models transcribing rollingwindow.go, safemap.go, fifo.go, "
                  "ring.go, set.go and cache.go (keyLru), the cache also composed with C12's timing-wheel model: for every "
                  "size/limit/threshold and every operation sequence, Reduce returns bucket-wise exactly the values added in "
                  "the last `size` interval indices (minus the current one when ignored); SafeMap refines an association map "
                  "through every generation switch (and the branch of Set that no history reaches is proved dead); Queue is a "
                  "FIFO through growth and wrap; Ring shows the last n adds in order; Set is decided by the last Add/Remove "
                  "per key; the Cache returns the latest value unless deleted/expired/evicted, never exceeds its limit, "
                  "evicts the entry with the oldest last use, Take loads only on a miss and a failed load stores nothing; "
                  "with the wheel, an entry lives floor(max(d,interval)/interval) ticks from its latest write. The "
                  "references used by the decidable check are proved equal to the models (cache+wheel: "
                  "cachew_refines_stamp_reference), and the linearisation search used for concurrent histories is proved "
                  "exact. Each model is tied to the Go code by step-by-step differential execution of generated multi-phase "
                  "histories (virtual clock, tick-by-tick wheel), plus free-running goroutines checked for linearisability.")
    level_note = ("Trusted: Coq kernel + vm_compute; hand-written models; correspondence on generated histories only; "
                  "core/timex/{relativetime,ticker}.go are replaced by overlays at build time and "
                  "core/collection/zz_verif_c16.go is added (read-only accessors + one hook in front of the cache's single "
                  "flight); real-time expiry is sampled in the thorough tier (+-5% / one tick treated as 'either'); "
                  "singleflight itself is C07, the wheel C12. Concurrency: each method is one critical section except "
                  "Cache.Take (miss -> load -> store) and the hand-over of a single-flight result; see notes/C16.md.")
    rule = ("cases by kind: window (random + phased: bursts inside one interval, idle gaps of size-1/size/size+1/2size/10size/"
            "10^17ns, landings one before/on/after a boundary; recording bucket or the package's Bucket[T]), safemap (random "
            "with stopped Ranges; phased through both migrations with >= copyThreshold live keys, every threshold crossed one "
            "operation at a time), queue (random + phased fill/drain partially/refill past capacity: >= 2 growths while "
            "wrapped), ring (random + phased runs of n-1..3n adds, index folded back several times; returned slices checked "
            "for aliasing), set (typed keys incl. uint64 and the empty string, managed and unmanaged), cache (limit -1..5, "
            "random + phased fill/touch/evict/re-add/Del-Set/failed loads/a Set racing a Take's miss/a loader using the cache; "
            "key sets and sizes read without touching the recency order), cachew (wheel driven tick by tick, limit 0..3, "
            "expiries -0.5..4.5 intervals), cache_take2 (two concurrent Takes, first loader gated), take_gate inside cache / cachew "
            "(a Take parked in its loader while other keys - hash-stripe mates of the loaded key, bulk runs of 600..1200 keys - are "
            "deleted / written / evicted / expire on ticks; judged as the sequential history 'those operations, then the Take'), lin "
            "(2..4 free-running goroutines on one queue/ring/cache/safemap/window after a sequential prefix) and stress (3..4 "
            "goroutines repeating scripts on disjoint keys / commutative adds / equal values: every answer determined), both run "
            "by the executor built with -race, each case judged; 15% of the sequential cases drive a second instance alongside; "
            "25% of the cache cases store values that cannot be compared (slices, maps, NaN structs). Values 0 stand for nil, key 0 for the empty string / nil key. non-trivial = window: a "
            "boundary was crossed and a Reduce returned a non-empty bucket; safemap: a Get hit after a Del or >= maxDeletion "
            "deletions; queue: a Put into a full buffer (growth) with items in flight; ring: a Take after more than n adds; "
            "set: both a positive and a negative Contains; cache: more distinct keys written than the limit, or a Take miss; "
            "cachew: an entry seen present and later, after ticks, absent; lin: two calls of different goroutines overlapped; take_gate: the loader was parked while at least one other "
            "operation completed; stress: >= 2 goroutines x >= 50 rounds ran to the end. "
            "distinct = canonical JSON hash of the case")
    trusted_base = [
        "models theories/C16/Model.v, ModelW.v and theories/Lib/RollingWindow.v are hand-written; tie = correspondence run (harness/cmd/c16) on generated histories",
        "core/timex/relativetime.go and core/timex/ticker.go are replaced by overlays (virtual clock, hookable ticker); harness/overlay/collection/zz_verif_c16.go is added to package collection (Cache.size / key snapshot, one scripted action before the cache's single flight)",
        "Go maps, container/list, sync, singleflight (C07) are not modelled here; the timing wheel is C12's model",
        "tools/c16sim.py steers the generators (where the structure stands) and tools/c16hash.py picks keys that collide under murmur3 / FNV / CRC modulo small numbers; they judge nothing",
        "take_gate / stress histories are put into their sequential order by tools/props/c16.py (flatten_cache, _stress_term); that this order is what the code's three-step Take does is Props.cache_take_held_is_take_after / cachew_take_held_is_take_after; that any interleaving of a stress history gives every goroutine the answers of the chosen sequential order is Props.cache_disjoint_ops_commute / map_disjoint_ops_commute / window_instant_adds_commute / queue_equal_puts_commute / ring_equal_adds_commute (given that each call is one critical section, which the race detector and the forced schedules check)",
    ]
    assumptions = ["keys and values are compared with Go == on int64/int/uint/uint64/string/nil (model: Z)",
                   "sequential theorems: operations on one object are sequential; concurrent use is covered by the linearisability "
                   "monitor, which assumes what the code provides: every method is one critical section under the object's lock, "
                   "except Cache.Take (miss, load, store are separate steps: a Set of the same key in between is overwritten) and "
                   "a Take that is handed the result of an overlapping Take's single flight (modelled as CJoin)",
                   "RollingWindow: timex.Now() is non-decreasing and never before the window's creation time",
                   "Cache expiries are positive (TimingWheel.SetTimer refuses d <= 0 and SetWithExpire ignores the error; modelled, not judged)",
                   "Set is documented as not thread-safe and is not part of the concurrent monitor"]

    # ------------------------------------------------------------------ translators / build
    consts = None

    def regen(self, ctx):
        vals, changed = regen_constants()
        self.consts = vals
        return ["C16Consts.v %s: copyThreshold=%d maxDeletion=%d slots=%d interval=%dns deviation=%d/%d rewrite_moves=%s"
                % ("rewritten" if changed else "unchanged", vals["copyThreshold"], vals["maxDeletion"], vals["slots"],
                   vals["interval_ns"], vals["dev_num"], vals["dev_den"], vals["rewrite_moves"])]

    def prepare(self, ctx):
        # the same executor built with the race detector, for the kinds with several goroutines
        # (lin, stress): built in the background while the plain one is built and run
        import threading
        self.racebin = None
        self._race_log = ""

        def build_race():
            if vlib.COVER:
                return      # coverage runs: one counter mode only (go tool covdata cannot merge -race's atomic counters with the others)
            ok, res = vlib.go_build("c16race", overlay=self._overlay(), race=True)
            if ok:
                self.racebin = res
            else:
                self._race_log = res[-1500:]
        self._race_thread = threading.Thread(target=build_race, daemon=True)
        self._race_thread.start()
        ok, res = vlib.go_build("c16", overlay=self._overlay())
        self.bin = res if ok else None
        self._consts()
        return ok, ("" if ok else res)

    @staticmethod
    def _overlay():
        ov = os.path.join(vlib.HARNESS, "overlay")
        return {"core/timex/relativetime.go": os.path.join(ov, "timex", "relativetime.go"),
                "core/timex/ticker.go": os.path.join(ov, "timex", "ticker.go"),
                "core/collection/zz_verif_c16.go": os.path.join(ov, "collection", "zz_verif_c16.go")}

    def _consts(self):
        """Constants as written in the current source (the theorems hold for all values)."""
        if self.consts is None:
            self.consts = extract_constants(vlib.REPO)
        self.copy_thr, self.max_del = self.consts["copyThreshold"], self.consts["maxDeletion"]
        return self.copy_thr, self.max_del

    def _expiries_ms(self):
        """Expiries (ms) whose +-deviation window never straddles a tick boundary of the cache's
        wheel, so that floor(jittered expiry / interval) is determined: (m + 1/2) intervals."""
        c = self.consts
        iv_ms = c["interval_ns"] // 10 ** 6
        res = []
        for m in range(0, 10):
            e = m * iv_ms + iv_ms // 2
            lo = e * (c["dev_den"] - c["dev_num"]) // c["dev_den"]
            hi = -(-e * (c["dev_den"] + c["dev_num"]) // c["dev_den"])
            if lo // iv_ms == m and hi // iv_ms == m and hi % iv_ms != 0:
                res.append(e)
        return iv_ms, res

    # ------------------------------------------------------------------ corpus
    def corpus(self):
        t0 = T0_BASE
        iv = 1000
        cs = []
        # window: spans of exactly size-1 / size / size+1 buckets, boundary +-1
        for size in (1, 3):
            for ig in (False, True):
                for gap in (size - 1, size, size + 1):
                    ops = [["add", t0 + 5, 1], ["add", t0 + iv - 1, 2], ["add", t0 + iv, 3], ["reduce", t0 + iv],
                           ["add", t0 + 2 * iv + 1, 4], ["reduce", t0 + 2 * iv + 1],
                           ["reduce", t0 + 2 * iv + gap * iv - 1], ["reduce", t0 + 2 * iv + gap * iv],
                           ["add", t0 + 2 * iv + gap * iv, 5], ["reduce", t0 + 2 * iv + gap * iv + 1],
                           ["add", t0 + 3 * iv + 2 * gap * iv + iv - 1, 6],
                           ["reduce", t0 + 3 * iv + 2 * gap * iv + iv - 1],
                           ["reduce", t0 + 3 * iv + 2 * gap * iv + iv]]
                    cs.append({"kind": "window", "size": size, "interval": iv, "t0": t0, "ignore": ig, "ops": ops})
        # the package's own Bucket[T] (Sum, Count): buckets reused after a roll must have been Reset
        for size in (1, 2):
            for ig in (False, True):
                cs.append({"kind": "window", "size": size, "interval": iv, "t0": t0, "ignore": ig, "bucket": "sum", "ops":
                           [["add", t0 + 5, 3], ["add", t0 + 6, 4], ["reduce", t0 + 6], ["add", t0 + iv, 5], ["reduce", t0 + iv],
                            ["add", t0 + 2 * iv + 1, 7], ["reduce", t0 + 2 * iv + 1], ["reduce", t0 + 3 * iv],
                            ["add", t0 + 3 * iv + 2, 11], ["add", t0 + 3 * iv + 2, 13], ["reduce", t0 + 4 * iv - 1],
                            ["add", t0 + 9 * iv, 9], ["reduce", t0 + 9 * iv], ["reduce", t0 + 10 * iv]]})
        # safemap: past maxDeletion with few live keys (both generations migrate), then with
        # more than copyThreshold live keys (writes switch to dirtyNew, later migration)
        ct, md = self._consts()
        probe = [["size"], ["get", 1], ["get", 5], ["get", 777], ["get", 100000], ["range"]]
        cs.append({"kind": "safemap", "ops":
                   [["setseq", 0, 10, 1], ["churn", 777, 3, md - 1]] + probe + [["churn", 777, 3, 1], ["set", 5, 50]] + probe +
                   [["churn", 778, 4, 2], ["set", 778, 8], ["del", 3]] + probe +
                   [["churn", 779, 4, md + 1], ["set", 6, 60], ["del", 2]] + probe})
        # ... with >= copyThreshold live keys: writes switch to dirtyNew, dirtyNew is copied back after
        # maxDeletion deletions of its own, then dirtyOld shrinks below copyThreshold and the generations
        # are merged and swapped (every threshold crossed one operation at a time, probes around it)
        import random
        cs.append(self._gen_safemap_phased(random.Random(16), ["write", "mig2", "mig1", "refill"]))
        # queue: growth while wrapped
        cs.append({"kind": "queue", "size": 2, "ops":
                   [["put", 1], ["put", 2], ["take"], ["put", 3], ["put", 4], ["put", 5], ["take"], ["take"], ["put", 6],
                    ["put", 7], ["put", 8], ["empty"]] + [["take"]] * 6 + [["empty"]]})
        cs.append({"kind": "ring", "size": 3, "ops": [["take"]] + sum([[["add", i], ["take"]] for i in range(1, 11)], [])})
        cs.append({"kind": "cache", "limit": 2, "ops":
                   [["set", 1, 10], ["set", 2, 20], ["get", 1], ["set", 3, 30], ["get", 2], ["get", 1], ["take", 2, 21],
                    ["take", 1, 99], ["take", 4, None], ["del", 1], ["set", 5, 50], ["get", 1], ["get", 2], ["get", 3],
                    ["get", 4], ["get", 5]]})
        # cache + its timing wheel, tick by tick: expiry at the due tick, rewrite resets it, Del
        # removes the timer, sub-interval expiry (clamped for a new key; for a key already
        # present MoveTimer runs the callback at once - outside the property's quantifier)
        iv, es = self._expiries_ms()
        e1, e2, e3 = es[1], es[2], es[3]
        T = [["tick"]]
        G = lambda *ks: [["get", k] for k in ks]
        cs.append({"kind": "cachew", "limit": 0, "expire_ms": e2, "ops":
                   [["set", 1, 10, e2], ["set", 2, 20, e1]] + G(1, 2) + T + G(1, 2) + T + G(1, 2) + [["set", 3, 30, e1], ["set", 3, 31, e3]] +
                   T + G(3) + T + G(3) + T + G(3) + [["set", 4, 40, e1], ["del", 4], ["set", 4, 41, e2]] + T + G(4) + T + G(4) +
                   [["take", 5, 50]] + T + [["take", 5, 51]] + T + [["take", 5, 52]] + G(5)})
        cs.append({"kind": "cachew", "limit": 2, "expire_ms": e2, "ops":
                   [["set", 1, 10, e3], ["set", 2, 20, e1], ["get", 1], ["set", 3, 30, e2]] + G(2) + T + G(1, 3) + [["set", 4, 40, e1]] +
                   T + G(1, 3, 4) + T + T + G(1, 3, 4)})
        cs.append({"kind": "cachew", "limit": 0, "expire_ms": e2, "ops":
                   [["set", 1, 10, es[0]]] + G(1) + T + G(1) + [["set", 2, 20, e1], ["set", 2, 21, es[0]]] + G(2) + T + G(2)})
        # values of uncomparable dynamic type (slices) / not equal to themselves (NaN) live and expire like any other
        for w in (1, 3):
            cs.append({"kind": "cachew", "limit": 0, "expire_ms": e2, "wrap": w, "ops":
                       [["set", 1, 10, e2], ["set", 2, 20, e1], ["take", 3, 30]] + G(1, 2, 3) + T + G(1, 2, 3) + [["set", 2, 21, e1]] + T +
                       G(1, 2, 3) + [["held"]] + T + G(1, 2, 3) + [["held"], ["size"]]})
        # limit set; Del k (explicit / by expiry) immediately followed by Set k; ticks past the due tick
        for lim in (1, 2):
            cs.append({"kind": "cachew", "limit": lim, "expire_ms": e2, "ops":
                       [["set", 1, 10, e1], ["del", 1], ["set", 1, 11, e2]] + T + G(1) + T + G(1) + T + G(1) +
                       [["set", 1, 12, e1]] + T + G(1) + [["set", 1, 12, e1]] + T + G(1) + T + G(1) +
                       [["set", 2, 20, e1], ["del", 2], ["set", 2, 20, e1]] + T + G(2) + T + G(2)})
        # an expiry callback held back after its tick: released at once; other keys used meanwhile
        cs.append({"kind": "cachew", "limit": 0, "expire_ms": e2, "ops":
                   [["set", 1, 10, e1], ["set", 2, 20, e3], ["tick_hold"], ["release"]] + G(1, 2) +
                   [["set", 1, 11, e1], ["tick_hold"], ["get", 2], ["set", 3, 30, e1], ["release"], ["held"]] + G(1, 2, 3) +
                   T + [["held"]]})
        if self.STALE_ID in vlib.known_ids(self.id):
            cs.append({"kind": "cachew", "limit": 0, "expire_ms": e2, "ops":
                       [["set", 1, 10, e1], ["tick_hold"], ["set", 1, 11, e3], ["release"], ["get", 1], ["held"]]})
        # a Take held inside its loader while OTHER keys are deleted / expire / are evicted: keys that
        # share hash(key) % {256, 1024, 4096} with the loaded key (core/hash's murmur3, FNV, CRC), and
        # bulk runs of 1200 consecutive keys; the loaded value must be held afterwards and not reloaded
        # (seed C16-9: striped deletion counters)
        cols = c16hash.colliders(1, mods=self.COLLIDE_MODS)
        c0 = cols[0]
        cs.append({"kind": "cache", "limit": 0, "ops":
                   [["set", 2, 20], ["take_gate", 1, 10, [["del", c] for c in cols]], ["get", 1], ["held"], ["take", 1, 99],
                    ["get", 2]]})
        cs.append({"kind": "cache", "limit": 0, "ops":
                   [["set", 2, 20], ["take_gate", 1, 10, [["delseq", 1000, 1200]]], ["get", 1], ["held"], ["take", 1, 99],
                    ["del", 1], ["take_gate", 1, None, [["del", c0], ["get", 1]]], ["held"], ["take", 1, 11], ["held"]]})
        cs.append({"kind": "cache", "limit": 2, "ops":
                   [["set", 2, 20], ["set", 3, 30], ["take_gate", 1, 10, [["set", c0, 5], ["del", c0], ["get", 3], ["held"]]],
                    ["held"], ["get", 1], ["take", 1, 9], ["set", 4, 40], ["held"],
                    ["take_gate", 5, 50, [["set", c0, 6], ["set", 901, 7], ["held"]]], ["held"], ["get", 5], ["take", 5, 51]]})
        # ... and the SAME key deleted while its loader is held: stored after the Del, or Take-then-Del; nothing else
        for lim in (0, 2):
            cs.append({"kind": "cache", "limit": lim, "ops":
                       [["set", 2, 20], ["take_gate", 1, 10, [["del", 1], ["get", 2]]], ["held"], ["get", 1], ["take", 1, 99], ["held"]]})
        cs.append({"kind": "cachew", "limit": 0, "expire_ms": e2, "ops":
                   [["set", c0, 7, e1], ["set", 2, 20, e3], ["take_gate", 1, 10, [["tick"], ["get", c0], ["held"]]],
                    ["get", 1], ["held"]] + T + [["get", 1], ["take", 1, 99]] + T + G(1, 2) + [["held"]]})
        cs.append({"kind": "cachew", "limit": 0, "expire_ms": e2, "ops":
                   [["setseq", max(1000, c0 - 300), 620, 5, e1], ["size"], ["take_gate", 1, 10, [["tick"], ["size"]]],
                    ["get", 1], ["held"]] + T + [["take", 1, 99]] + T + G(1) + [["held"]]})
        # several goroutines on one object, every answer determined (disjoint keys / commutative adds / equal
        # values); run by the executor built with -race: missing mutual exclusion is a data race or lost updates
        srng = random.Random(1616)
        for obj in ("safemap", "cache", "window", "queue", "ring"):
            cs.append(self._stress_case(srng, obj, 4, 200))
        # managed sets: the first element fixes the type (every type once), elements of every other type are
        # complained about in the log and added all the same; membership is that of the mathematical set
        for first in (0, 1, 2, 4, 3):
            tags = [first] + [t for t in (0, 1, 2, 3, 4) if t != first]
            ks = [t * TAG + v for t in tags for v in (0, 7)]
            cs.append({"kind": "set", "ignore": True, "ops":
                       [["add", ks[0]], ["count"]] + [["add", k] for k in ks[1:]] + [["count"], ["keys"]] +
                       [["contains", k] for k in ks] + [["remove", ks[0]], ["remove", ks[3]], ["addany", ks[5]], ["count"], ["keys"]] +
                       [["keysof", t] for t in tags] + [["contains", ks[0]], ["contains", ks[5]]]})
        # a hit on k, then k removed - by Del and by its expiry - then Sets up to the limit: no live key may be
        # evicted while the cache holds no more than `limit` entries (seed C16-10: a recorded read replayed as an
        # insertion of the dead key)
        for lim in (1, 2, 3):
            for hit in ("get", "take"):
                H = (lambda k: ["get", k]) if hit == "get" else (lambda k: ["take", k, 999])
                fill = [["set", 10 + j, 100 + j] for j in range(lim)]                 # keys 10.. fill the cache, 10 is read then removed
                later = [["set", 20 + j, 200 + j] for j in range(lim)]
                cs.append({"kind": "cache", "limit": lim, "ops":
                           fill + [H(10), ["del", 10], ["held"], ["set", 20, 200], ["held"], ["size"]] +
                           [["get", 10 + j] for j in range(1, lim)] + [["get", 20]] + later[1:] + [["held"]] +
                           [H(20), H(20), ["del", 20], ["del", 20], ["set", 30, 300], ["held"], ["set", 31, 301], ["held"]]})
                cs.append({"kind": "cachew", "limit": lim, "expire_ms": e2, "ops":
                           [["set", 10, 100, e1]] + [["set", 10 + j, 100 + j, es[4]] for j in range(1, lim)] +
                           [H(10)] + T + [["held"], ["set", 20, 200, es[4]], ["held"], ["size"]] +
                           [["get", 10 + j] for j in range(1, lim)] + [["get", 20], ["set", 21, 201, es[4]], ["held"]]})
        # two concurrent Takes of one key (loader gated), limit 1: one load, one entry, one eviction
        cs.append({"kind": "cache_take2", "limit": 1, "ops": [["set", 1, 10], ["take2", 9, 90, 91], ["get", 9], ["get", 1]]})
        cs.append({"kind": "cache_take2", "limit": 2, "ops":
                   [["set", 1, 10], ["set", 2, 20], ["get", 1], ["take2", 9, 90, 91], ["get", 2], ["get", 1], ["get", 9]]})
        # the constructors refuse a size below 1 (panic at construction, not at first use)
        for sz in (0, -1):
            cs.append({"kind": "ring", "size": sz, "ops": []})
            cs.append({"kind": "window", "size": sz, "interval": 1000, "t0": t0, "ignore": False, "ops": []})
        # minimised past failures (from the mutation self-test)
        d = os.path.join(vlib.ROOT, "corpus", "C16")
        if os.path.isdir(d):
            import json
            for f in sorted(os.listdir(d)):
                if f.endswith(".json"):
                    c = json.load(open(os.path.join(d, f)))
                    c = c.get("case", c)
                    c.pop("id", None)
                    cs.append(c)
        return cs

    # ------------------------------------------------------------------ generators
    def gen(self, rng, n, tier):
        kinds = (["window"] * 5 + ["window_phased"] * 4 + ["safemap"] * 3 + ["queue"] + ["queue_phased"] * 3 +
                 ["ring"] + ["ring_phased"] * 2 + ["set"] * 2 + ["cache"] * 2 + ["cache_phased"] * 3 +
                 ["cachew"] * 3 + ["cache_take2"] + ["lin"] * 2 + ["window_gate"] * 2 + ["cache_gate"] * 2 + ["cachew_gate"] + ["stress"])
        cases = []
        for _ in range(n):
            k = rng.choice(kinds)
            c = getattr(self, "_gen_" + k)(rng, tier)
            # a second instance of the same kind driven alongside (state shared between instances)
            if c["kind"] in ("window", "safemap", "queue", "ring", "set", "cache", "cachew") and rng.random() < 0.15:
                c["twin"] = True
            # cache values that cannot be compared with == (slices, maps) or differ from themselves (NaN)
            if c["kind"] in ("cache", "cachew", "cache_take2") and rng.random() < 0.25:
                c["wrap"] = rng.choice([1, 1, 2, 3])
            cases.append(c)
        # SafeMap histories through several generation switches (tens of thousands of primitive
        # operations each; they are evaluated on cores of their own)
        light = [["write", "mig2", "mig1"], ["write", "mig1", "refill"], ["mig2", "write", "mig1", "refill"]]
        for _ in range(1 if tier in ("quick", "search") else 12):
            cases.append(self._gen_safemap_phased(rng, None if tier == "thorough" else rng.choice(light)))
        if tier == "thorough":
            for _ in range(24):
                cases.append(self._gen_cache_rt(rng))
        return cases

    def _gen_window(self, rng, tier):
        size = rng.choice([1, 1, 2, 3, 3, 4, 5, 8, 10, 40])
        iv = rng.choice([1, 7, 1000, 1000, 250000000])
        t0 = T0_BASE + rng.randrange(10 ** 9)
        ig = rng.random() < 0.5
        t = t0
        ops = []
        for _ in range(rng.randint(10, 70)):
            nb = t0 + ((t - t0) // iv + 1) * iv        # next bucket boundary
            r = rng.random()
            if r < 0.25:
                t2 = t
            elif r < 0.40:
                t2 = t + rng.randrange(iv)
            elif r < 0.60:
                t2 = nb + rng.choice([-1, 0, 1]) if iv > 1 else nb
            elif r < 0.85:
                gap = rng.choice([size - 2, size - 1, size - 1, size, size, size + 1, 2 * size, rng.randint(0, size + 2)])
                t2 = nb + max(0, gap) * iv + rng.choice([-1, 0, 0, 1, rng.randrange(iv)])
            else:
                t2 = t + rng.randrange(3 * iv + 1)
            t = max(t, t2)
            if rng.random() < 0.6:
                ops.append(["add", t, rng.randrange(1000)])
            else:
                ops.append(["reduce", t])
        return {"kind": "window", "size": size, "interval": iv, "t0": t0, "ignore": ig, "ops": ops}

    def _gen_safemap(self, rng, tier):
        nkeys = rng.randint(2, 12)
        ops = []
        if rng.random() < 0.25:
            # cross the deletion threshold early, with a few keys alive
            ops.append(["setseq", 0, rng.randint(0, nkeys), rng.randrange(100)])
            ops.append(["churn", rng.randrange(nkeys), rng.randrange(100),
                        self.max_del + rng.choice([-2, -1, 0, 1, 2])])
        for _ in range(rng.randint(15, 80)):
            r = rng.random()
            k = rng.randrange(nkeys)
            if r < 0.30:
                ops.append(["set", k, rng.randrange(1000)])
            elif r < 0.55:
                ops.append(["get", k])
            elif r < 0.78:
                ops.append(["del", k])
            elif r < 0.88:
                ops.append(["size"])
            elif r < 0.96:
                ops.append(["range"])
            else:
                ops.append(["churn", k, rng.randrange(100), rng.choice([1, 2, 3, 5])])
        ops += [["size"], ["range"]]
        return {"kind": "safemap", "ops": ops}

    def _gen_queue(self, rng, tier):
        size = rng.choice([1, 1, 2, 3, 4])
        ops = []
        v = 0
        p = rng.choice([0.5, 0.6, 0.7])
        for _ in range(rng.randint(10, 80)):
            if rng.random() < 0.05:
                p = rng.choice([0.2, 0.5, 0.6, 0.8])
            r = rng.random()
            if r < p:
                v += 1
                ops.append(["put", v if rng.random() < 0.9 else rng.randrange(3)])
            elif r < 0.95:
                ops.append(["take"])
            else:
                ops.append(["empty"])
        return {"kind": "queue", "size": size, "ops": ops}

    def _gen_ring(self, rng, tier):
        n = rng.choice([1, 2, 3, 3, 4, 5, 6])
        ops = []
        v = 0
        for _ in range(rng.randint(5, 6 * n + 10)):
            if rng.random() < 0.7:
                v += 1
                ops.append(["add", v if rng.random() < 0.9 else rng.randrange(3)])
            else:
                ops.append(["take"])
        ops.append(["take"])
        return {"kind": "ring", "size": n, "ops": ops}

    def _gen_set(self, rng, tier):
        vals = [rng.randrange(5) for _ in range(rng.randint(1, 4))]
        tags = rng.choice([[0], [1], [3], [4], [0, 1], [2, 4], [0, 1, 2, 3, 4]])
        keys = [t * TAG + v for t in tags for v in vals]
        ops = []
        # phases: grow, shrink (remove everything, also absent keys), grow again
        bias = rng.choice([0.35, 0.5])
        for i in range(rng.randint(8, 50)):
            if i % 12 == 11:
                bias = rng.choice([0.1, 0.35, 0.6])
            r = rng.random()
            k = rng.choice(keys)
            if r < bias:
                if rng.random() < 0.15:
                    ops.append(["addmany"] + [rng.choice(keys) for _ in range(rng.randint(0, 3))])
                else:
                    ops.append([rng.choice(["add", "addany"]), k])
            elif r < bias + 0.2:
                ops.append(["remove", k])
            elif r < 0.80:
                ops.append(["contains", k])
            elif r < 0.88:
                ops.append(["count"])
            elif r < 0.95:
                ops.append(["keys"])
            else:
                ops.append(["keysof", rng.choice(tags)])
        ops += [["count"], ["keys"]] + [["keysof", t] for t in tags]
        # a managed set (NewSet) fixes its type at the first Add and only LOGS mismatches
        return {"kind": "set", "ignore": rng.random() < 0.4, "ops": ops}

    def _gen_cache(self, rng, tier):
        limit = rng.choice([0, 0, -1, 1, 2, 2, 3, 3, 5])
        nkeys = max(2, limit + rng.randint(1, 3))
        ops = []
        for _ in range(rng.randint(10, 70)):
            r = rng.random()
            k = rng.randrange(nkeys)
            if r < 0.33:
                ops.append(["set", k, rng.randrange(1000)])
            elif r < 0.63:
                ops.append(["get", k])
            elif r < 0.73:
                ops.append(["del", k])
            elif r < 0.80:
                ops.append(rng.choice([["held"], ["held"], ["size"]]))
            else:
                ops.append(["take", k, None if rng.random() < 0.2 else rng.randrange(1000)])
        ks = list(range(nkeys))
        rng.shuffle(ks)
        ops += [["held"]] + [["get", k] for k in ks]          # probe: how many entries are held
        return {"kind": "cache", "limit": limit, "name": rng.random() < 0.2, "force_limit": rng.random() < 0.5, "ops": ops}

    def _gen_cachew(self, rng, tier):
        iv, es = self._expiries_ms()
        limit = rng.choice([0, 0, 1, 2, 3])
        nkeys = max(2, limit + rng.randint(0, 2)) if limit else rng.randint(2, 4)
        # expiries below one wheel interval, zero and negative: the wheel clamps them to one interval
        sub = rng.random() < 0.3
        pick = lambda: rng.choice(es[1:5] + ([es[0], 0, 1, -500] if sub else []))
        ops = []
        for _ in range(rng.randint(12, 60)):
            r = rng.random()
            k = rng.randrange(nkeys)
            if r < 0.25:
                ops.append(["set", k, rng.randrange(1000), pick()])
            elif r < 0.50:
                ops.append(["get", k])
            elif r < 0.57:
                ops.append(["del", k])
            elif r < 0.67:
                ops.append(["take", k, None if rng.random() < 0.15 else rng.randrange(1000)])
            else:
                ops.append(["tick"])
                r2 = rng.random()
                if r2 < 0.4:
                    ops += [["get", x] for x in rng.sample(range(nkeys), rng.randint(1, nkeys))]
                elif r2 < 0.7:
                    ops.append(rng.choice([["held"], ["held"], ["size"]]))
        if rng.random() < 0.45:
            ops += self._reset_scenario(rng, iv, es, rng.randrange(nkeys))
        if rng.random() < 0.5:
            ops += self._hold_scenario(rng, iv, es, nkeys, limit)
        ops += [["tick"]] * rng.randint(0, 3) + [["held"]] + [["get", x] for x in range(nkeys)]
        return {"kind": "cachew", "limit": limit, "expire_ms": rng.choice(es[1:4] + ([0] if sub else [])), "ops": ops}

    def _reset_scenario(self, rng, iv, es, k):
        """Set k; remove it (explicit Del, or let its timer fire); Set k again at once (same or
        different value / expiry); then tick up to and past the new due tick, probing before and
        after.  Nothing touches another key in between."""
        e1, e2 = rng.choice(es[1:4]), rng.choice(es[1:5])
        v1 = rng.randrange(1000)
        v2 = v1 if rng.random() < 0.3 else rng.randrange(1000)
        ops = [["set", k, v1, e1]]
        if rng.random() < 0.5:
            ops.append(["del", k])
        else:
            ops += [["tick"]] * (e1 // iv)
        if rng.random() < 0.25:
            ops.append(["get", k])
        ops.append(["set", k, v2, e2 if rng.random() < 0.7 else e1])
        due = ops[-1][3] // iv
        ops += [["tick"]] * (due - 1) + [["held"], ["get", k], ["tick"], ["held"], ["get", k], ["tick"], ["get", k]]
        return ops

    STALE_ID = "C16-stale-expiry-callback-deletes-rewritten-entry"

    def _hold_scenario(self, rng, iv, es, nkeys, limit):
        """Generation of an entry: key k is set, its last tick comes but the expiry callback the
        wheel has started is held back; meanwhile other keys are used and - only when the known
        finding is registered, the unchanged tree loses the new value - k is written again; then
        the callback runs.  The new entry must live its own life.  While a callback is held its
        entry is expired but not yet deleted: reading it may give either answer and it still
        occupies a place in the recency list, so nothing in the window reads a fired key, and
        with a limit nothing is inserted (all other keys are deleted first: none of them fires)."""
        k = rng.randrange(nkeys)
        e1 = rng.choice(es[1:3])
        others = [x for x in range(nkeys) if x != k]
        ops = [["del", o] for o in others]
        ops += [["set", k, rng.randrange(1, 1000), e1]] + [["tick"]] * (e1 // iv - 1) + [["held"], ["tick_hold"]]
        for _ in range(rng.randint(0, 2)):
            if others and limit == 0:
                o = rng.choice(others)
                ops.append(rng.choice([["get", o], ["set", o, rng.randrange(1000), rng.choice(es[2:4])], ["del", o]]))
        rewrite = self.STALE_ID in vlib.known_ids(self.id) and rng.random() < 0.6
        if rewrite:
            e2 = rng.choice(es[1:4])
            ops.append(["set", k, rng.randrange(1, 1000), e2])
        ops += [["release"], ["held"], ["get", k]]
        if not rewrite and rng.random() < 0.5:
            ops += [["set", k, rng.randrange(1, 1000), rng.choice(es[1:3])], ["get", k]]
        ops += [["tick"], ["held"], ["tick"], ["get", k]]
        return ops

    def known(self, case, obs):
        """The one registered shape: a wheel-driven history in which a key fired by a HELD tick is
        written again before the release - and the implementation did exactly what the committed
        model of the unchanged tree does (Check.agrees), i.e. lost the rewritten entry."""
        if case.get("kind") != "cachew":
            return None
        fired_window = False
        rewritten = False
        written = set()
        for o in case["ops"]:
            if o[0] == "tick_hold":
                fired_window = True
            elif o[0] == "release":
                fired_window = False
            elif o[0] in ("set", "take"):
                if fired_window and o[0] == "set" and o[1] in written:
                    rewritten = True      # a key written before the held tick is Set again before the release
                written.add(o[1])
        if not rewritten:
            return None
        try:
            out = vlib.coq_eval_term(self.id, self.check_module, "agrees (%s)" % self.coq_case(case, obs))
        except Exception:
            return None
        return self.STALE_ID if "= true" in out else None

    def _gen_cache_take2(self, rng, tier):
        limit = rng.choice([0, 1, 2, 3])
        nkeys = max(2, limit + 1)
        def some(n):
            res = []
            for _ in range(n):
                r = rng.random()
                k = rng.randrange(nkeys)
                res.append(["set", k, rng.randrange(1000)] if r < 0.45 else ["get", k] if r < 0.8
                           else ["take", k, rng.randrange(1000)] if r < 0.9 else ["del", k])
            return res
        ops = some(rng.randint(0, 8)) + [["take2", 99, rng.randrange(1000), 1000 + rng.randrange(1000)]] + some(rng.randint(0, 6))
        ks = list(range(nkeys)) + [99]
        rng.shuffle(ks)
        ops += [["get", k] for k in ks]
        return {"kind": "cache_take2", "limit": limit, "ops": ops}

    # ---- multi-phase histories (fill / drain partially / refill past the old capacity, ...) ----
    def _gen_window_phased(self, rng, tier):
        """bursts of adds inside one interval, idle gaps around and far beyond the window length,
        landings one before / on / one after a boundary, Reduce right after a burst"""
        size = rng.choice([1, 2, 3, 3, 4, 5, 8])
        iv = rng.choice([7, 1000, 1000, 250000000])
        t0 = T0_BASE + rng.randrange(10 ** 9)
        ig = rng.random() < 0.5
        t = t0 + rng.choice([0, 0, 1, iv - 1, rng.randrange(iv)])
        ops = []
        v = 0

        def burst(n):
            nonlocal t, v
            for _ in range(n):
                v += 1
                ops.append(["add", t, v])
                if rng.random() < 0.5:       # stay inside the interval
                    room = iv - 1 - (t - t0) % iv
                    t += rng.randint(0, min(room, 3))
        for _ in range(rng.randint(3, 7)):
            burst(rng.randint(1, 4))
            if rng.random() < 0.6:
                ops.append(["reduce", t])
            nb = t0 + ((t - t0) // iv + 1) * iv
            gap = rng.choice([0, 1, size - 1, size, size + 1, size + 2, 2 * size, 2 * size + 1, 10 * size, 10 * size + 3,
                              10 ** 17 // iv if rng.random() < 0.2 else size])
            t = nb + max(0, gap - 1) * iv + rng.choice([-1, 0, 0, 1, rng.randrange(iv)])
            t = max(t, ops[-1][1])
            if rng.random() < 0.4:
                ops.append(["reduce", t])
        burst(rng.randint(2, 4))
        ops.append(["reduce", t])
        for t2 in (t0 + ((t - t0) // iv + 1) * iv, t0 + ((t - t0) // iv + size) * iv - 1, t0 + ((t - t0) // iv + size) * iv):
            ops.append(["reduce", max(t2, ops[-1][1])])
        c = {"kind": "window", "size": size, "interval": iv, "t0": t0, "ignore": ig, "ops": ops}
        if rng.random() < 0.3:
            c["bucket"] = "sum"
        return c

    def _gen_queue_phased(self, rng, tier):
        """fill to capacity, drain partially (head leaves slot 0, sometimes by more than the growth
        step), refill past the old capacity (growth while wrapped) - several times over"""
        size = rng.choice([1, 2, 2, 3, 4, 5])
        q = QueueSim(size)
        ops = []
        v = 0

        def put(n=1):
            nonlocal v
            for _ in range(n):
                v += 1
                ops.append(["put", v])
                q.put()

        def take(n=1):
            for _ in range(n):
                ops.append(["take"])
                q.take()
        for _ in range(rng.randint(2, 5)):
            put(q.cap - q.count)                                   # full
            if rng.random() < 0.3:
                put(rng.randint(1, size))                          # growth with head where it is
            if q.count > 1:
                take(rng.randint(1, q.count - 1))                  # head != 0, items stay in flight
            while not q.will_grow():                               # full again, wrapped
                put()
            put(rng.randint(1, size + 1))                          # grows (maybe twice)
            if rng.random() < 0.3:
                ops.append(["empty"])
            if rng.random() < 0.25:
                take(q.count + rng.randint(0, 1))                  # drain completely, start over
                ops.append(["empty"])
        take(q.count + 1)
        ops.append(["empty"])
        return {"kind": "queue", "size": size, "ops": ops}

    def _gen_ring_phased(self, rng, tier):
        """runs of n-1 / n / n+1 / 2n-1 / 2n / 2n+1 ... adds, a Take after each; the index folds
        back several times"""
        n = rng.choice([1, 2, 3, 3, 4, 5, 6])
        ops = [["take"]] if rng.random() < 0.3 else []
        v = 0
        total = 0
        rounds = rng.randint(3, 6)
        for r in range(rounds):
            a = rng.choice([1, n - 1, n, n + 1, 2 * n - 1, 2 * n, 2 * n + 1, 3 * n])
            if r == rounds - 1 and total + a <= 4 * n:
                a = 4 * n + 1 - total
            for _ in range(max(a, 1)):
                v += 1
                total += 1
                ops.append(["add", v])
            ops.append(["take"])
        return {"kind": "ring", "size": n, "ignore": rng.random() < 0.5, "ops": ops}

    def _gen_cache_phased(self, rng, tier):
        """limit 1..3: fill; touch in a chosen order (Get / Take hit / overwrite); insert new keys
        (evictions, observed with `held`, which does not touch the recency order); write the evicted
        key again; Del then Set of one key; loader failures; a Set racing a Take's miss"""
        limit = rng.choice([1, 1, 2, 2, 3])
        nkeys = limit + rng.randint(2, 3)
        lru = LruSim(limit)
        ops = []

        def do(o):
            ops.append(o)
            lru.apply(o)
        val = lambda: 0 if rng.random() < 0.1 else rng.randrange(1000)
        fresh = lambda: [k for k in range(nkeys) if not lru.has(k)]
        ks = list(range(limit))
        rng.shuffle(ks)
        for k in ks:
            do(["set", k, val()])
        ops.append(["held"])
        for _ in range(rng.randint(3, 7)):
            ph = rng.choice(["touch", "evict", "readd", "delset", "fail", "race", "delevict", "nested"])
            if ph == "touch":
                for k in rng.sample(lru.order, rng.randint(1, len(lru.order))) if lru.order else []:
                    do(rng.choice([["get", k], ["take", k, val()], ["set", k, val()], ["take", k, None]]))
            elif ph == "evict" and fresh():
                k = rng.choice(fresh())
                do(rng.choice([["set", k, val()], ["take", k, val()]]))
                ops.append(["held"])
            elif ph == "readd" and lru.last_evicted is not None and not lru.has(lru.last_evicted):
                do(["set", lru.last_evicted, val()])
                ops.append(["held"])
            elif ph == "delset" and lru.order:
                k = rng.choice(lru.order)
                do(["del", k])
                if rng.random() < 0.3:
                    ops.append(["get", k])
                do(["set", k, val()])
                ops.append(["held"])
            elif ph == "fail" and fresh():
                k = rng.choice(fresh())
                do(["take", k, None])
                ops += [["held"], ["size"]]
                if rng.random() < 0.5:
                    do(["take", k, val()])
            elif ph == "race" and fresh():
                k = rng.choice(fresh())
                do(["take_race", k, rng.choice([None, val()]), val()])
                ops.append(["held"])
            elif ph == "nested" and len(fresh()) >= 2:
                k, k2 = rng.sample(fresh(), 2)
                do(["take_nested", k, rng.choice([None, val(), val()]), k2, val()])
                ops.append(["held"])
            elif ph == "delevict" and lru.order:
                do(["del", rng.choice(lru.order + [nkeys + 5])])
                for k in fresh()[:2]:
                    do(["set", k, val()])
                ops.append(["held"])
            if rng.random() < 0.3:
                ops.append(["size"])
        ks = list(range(nkeys))
        rng.shuffle(ks)
        ops += [["held"], ["size"]] + [["get", k] for k in ks]
        return {"kind": "cache", "limit": limit, "name": rng.random() < 0.3, "ops": ops}

    def _gen_safemap_phased(self, rng, phases=None):
        """SafeMap through its generations, steered by a simulator of the two maps and counters:
        fill with >= copyThreshold keys; delete past maxDeletion (writes switch to dirtyNew);
        overwrite / delete keys of both generations; delete maxDeletion times from dirtyNew (second
        migration, possibly twice); shrink dirtyOld below copyThreshold (first migration); every
        threshold is approached in bulk and crossed one operation at a time with probes around it."""
        ct, md = self._consts()
        sim = SafeMapSim(ct, md)
        ops = []

        def do(o):
            ops.append(o)
            sim.apply(o)
        live = ct + rng.randint(0, 25)
        K = 10 ** 6                      # churn keys, outside the range of the live keys
        probes = lambda: [["size"], ["get", rng.randrange(live)], ["get", K], ["get", K + 1]]
        do(["setseq", 0, live, rng.randrange(100)])
        # phase 1: deletionOld climbs to maxDeletion with >= copyThreshold live keys
        do(["churn", K, 1, max(0, md - 2)])
        for _ in range(4):
            do(["set", K, 2])
            do(["del", K])
            ops += [["size"], ["get", K]]
        plan = phases or rng.choice([["write", "mig2", "mig1"], ["write", "mig2", "write", "mig2", "mig1"],
                                     ["write", "mig1"], ["mig2", "write", "mig1", "refill"]])
        for ph in plan:
            if ph == "write":
                # draining: overwrites move keys from dirtyOld to dirtyNew, new keys go to dirtyNew
                for _ in range(rng.randint(4, 10)):
                    r = rng.random()
                    k = rng.choice([rng.randrange(live), live + rng.randrange(20), K + 1])
                    if r < 0.45:
                        do(["set", k, rng.randrange(1000)])
                    elif r < 0.7:
                        do(["del", k])
                    else:
                        ops.append(["get", k])
                ops += probes()
                # both generations are populated: stop Range inside dirtyOld, at its last pair, inside dirtyNew
                if sim.draining() and not sim.new:
                    do(["set", K + 1, 3])
                for n in [1, rng.choice([2, 5, len(sim.old) - 1]), len(sim.old), len(sim.old) + 1, 10 ** 6]:
                    ops.append(["rangestop", n])
                ops.append(["range"])
            elif ph == "mig2" and sim.draining():
                # deletionNew climbs to maxDeletion: dirtyNew is copied back into dirtyOld
                need = md - sim.dn
                if need > 3:
                    do(["churn", K + 2, 7, need - 2])
                for _ in range(4):
                    do(["set", K + 2, 8])
                    ops.append(["get", K + 2])
                    do(["del", K + 2])
                    ops += [["size"], ["get", K + 2]]
                    # the generation switch happens inside one of these Dels: use a key of each
                    # generation right around it
                    ko = min(sim.old) if sim.old else 0
                    do(["set", K + 1, 9])
                    ops += [["get", ko], ["get", K + 1]]
                    do(["set", ko, 77])
                    ops.append(["get", ko])
                    do(["del", K + 1])
                    ops += [["get", K + 1], ["size"]]
                ops += probes()
            elif ph == "mig1" and sim.draining():
                # dirtyOld shrinks below copyThreshold: the generations are merged and swapped
                oldkeys = sorted(k for k in sim.old if k < live)
                # delete runs of consecutive keys; stop two short of the threshold
                excess = len(sim.old) - ct
                run_start = None
                deleted = 0
                i = 0
                while deleted < excess - 1 and i < len(oldkeys):
                    j = i
                    while j + 1 < len(oldkeys) and oldkeys[j + 1] == oldkeys[j] + 1 and (j + 1 - i) < excess - 1 - deleted:
                        j += 1
                    do(["delseq", oldkeys[i], j - i + 1])
                    deleted += j - i + 1
                    i = j + 1
                rest = sorted(k for k in sim.old if k < live)
                for k in rest[:4]:
                    do(["del", k])
                    ops += [["size"], ["get", k], ["get", rest[-1]], ["get", K + 1]]
                    # a key of the old generation and one of the new, written / deleted right around the swap
                    do(["set", rest[-1], 66])
                    do(["set", K + 1, 67])
                    ops += [["get", rest[-1]], ["get", K + 1]]
                    do(["del", K + 1])
                    ops += [["get", K + 1], ["size"]]
                ops += probes()
                ops += [["rangestop", 3], ["range"]]
            elif ph == "refill":
                do(["setseq", 2 * 10 ** 6, rng.randint(3, 30), 5])
                do(["delseq", 2 * 10 ** 6, 2])
                ops += probes()
        for _ in range(rng.randint(3, 8)):
            k = rng.choice([rng.randrange(live), K, K + 1, K + 2])
            do(rng.choice([["set", k, rng.randrange(1000)], ["del", k]]))
            ops.append(["get", k])
        ops += [["size"], ["rangestop", 2], ["range"]]
        return {"kind": "safemap", "ops": ops}

    def _gen_window_gate(self, rng, tier):
        """forced schedule: every bucket filled, then a Reduce held inside its callback after its
        k-th bucket while another goroutine Adds at later times that roll the window by 0..size+1
        buckets (the buckets Reduce has not been shown yet are the ones a roll resets and reuses)"""
        size = rng.choice([1, 2, 3, 3, 3, 4, 4, 5, 8])
        iv = rng.choice([7, 1000, 1000, 250000000])
        t0 = T0_BASE + rng.randrange(10 ** 9)
        ig = rng.random() < 0.4
        t = t0 + rng.randrange(iv)
        v = 0
        pre = []
        for i in range(rng.randint(size, size + 3)):        # one or two values per interval: no empty bucket
            for _ in range(rng.randint(1, 2)):
                v += 1
                pre.append(["add", t, v])
            if rng.random() < 0.2:
                pre.append(["reduce", t])
            t += iv if rng.random() < 0.8 else 2 * iv
        t -= iv if pre and rng.random() < 0.7 else 0       # Reduce in the interval of the last add, or one later
        t = max(t, max(o[1] for o in pre))
        tr = t + (rng.randrange(iv - (t - t0) % iv) if rng.random() < 0.5 else 0)
        shown = size - (1 if ig else 0)
        hold = rng.randint(1, max(1, shown - 1)) if rng.random() < 0.9 else shown + 1
        adds = []
        ta = tr
        for _ in range(rng.randint(1, 3)):
            roll = rng.choice([0, 1, 1, 2, size - 1, size, size + 1])
            nb = t0 + ((ta - t0) // iv) * iv                 # start of the current interval
            ta = max(ta, nb + max(0, roll) * iv + rng.choice([0, 0, 1, iv - 1, rng.randrange(iv)]))
            v += 1
            adds.append([ta, 100 + v])
        post = [["reduce", ta], ["add", ta, 999], ["reduce", ta], ["reduce", t0 + ((ta - t0) // iv + 1) * iv]]
        return {"kind": "window_gate", "size": size, "interval": iv, "t0": t0, "ignore": ig, "ops": pre,
                "gate_at": tr, "hold": hold, "adds": adds, "post": post}


    # ---- a Take held inside its loader while OTHER keys are used (forced schedule) ----------
    COLLIDE_MODS = (256, 1024, 4096)

    def _gate_inner(self, rng, k, others, limit, val, expiry=None):
        """Operations on keys other than k to run while Take(k)'s loader is parked: Dels of keys that
        share hash(key) % n with k (core/hash's murmur3, FNV, CRC; n = 256, 1024, 4096), bulk Dels of
        600..1500 consecutive absent keys (any per-stripe / per-shard / per-hash state shared between
        distinct keys is hit), a same-stripe key written then deleted, Set / Get / Del / Take of the
        keys in use, with a limit: inserts that evict, a read of k itself (a miss: nothing is stored
        yet), key sets and sizes."""
        cols = c16hash.colliders(k, mods=self.COLLIDE_MODS)
        ex = (lambda: [expiry()]) if expiry else (lambda: [])
        parts = rng.sample(["collide", "bulk", "present", "setdel", "evict", "self", "probe", "setbulk"],
                           rng.randint(1, 4))
        if rng.random() < 0.7 and "collide" not in parts and "bulk" not in parts:
            parts.append(rng.choice(["collide", "bulk"]))
        rng.shuffle(parts)
        inner = []
        for ph in parts:
            if ph == "collide":
                inner += [["del", c] for c in cols]
            elif ph == "bulk":
                n = rng.randint(600, 1000)
                base = max(1000, (cols[0] if cols else 1000) - rng.randrange(n))
                inner.append(["delseq", base, n])
            elif ph == "present" and others:
                for _ in range(rng.randint(1, 4)):
                    o = rng.choice(others)
                    inner.append(rng.choice([["set", o, val()] + ex(), ["get", o], ["del", o], ["take", o, val()],
                                             ["del", o]]))
            elif ph == "setdel" and cols:
                c = rng.choice(cols)
                inner += [["set", c, val()] + ex(), ["get", c], ["del", c]]
            elif ph == "evict" and limit > 0:
                for c in (cols + [900, 901, 902, 903, 904, 905])[:limit + rng.randint(0, 1)]:
                    inner.append(["set", c, val()] + ex())
            elif ph == "self":
                inner.append(["get", k])
            elif ph == "probe":
                inner.append(rng.choice([["held"], ["size"]]))
            elif ph == "setbulk":
                n = rng.randint(60, 200)
                inner += [["setseq", 5000, n, val()] + ex(), ["delseq", 5000 + rng.randint(0, 3), n]]
        return inner or [["del", (cols or [1000])[0]]]

    def _gen_cache_gate(self, rng, tier):
        limit = rng.choice([0, 0, 0, -1, 1, 2, 3, 5])
        small = list(range(0, 7))            # key 0 is the empty string
        val = lambda: 0 if rng.random() < 0.08 else rng.randrange(1, 1000)
        ops = []
        for _ in range(rng.randint(0, 6)):
            o = rng.choice(small)
            ops.append(rng.choice([["set", o, val()], ["take", o, val()], ["get", o], ["del", o]]))
        selfdel = False
        for _ in range(rng.randint(1, 2)):
            k = rng.choice(small)
            others = [x for x in small if x != k]
            if rng.random() < 0.8:
                ops.append(["del", k])      # absent: the Take will load (otherwise it may hit: also legal)
            inner = self._gate_inner(rng, k, others, limit, val)
            if not selfdel and rng.random() < 0.2:
                # another goroutine Dels the key being loaded: the value is stored after the Del, or the
                # Take is taken to precede it - either, nothing else
                selfdel = True
                inner.insert(rng.randint(0, len(inner)), ["del", k])
            ops.append(["take_gate", k, None if rng.random() < 0.12 else val(), inner])
            ops += [["held"], ["get", k], ["take", k, val()]]
            for _ in range(rng.randint(0, 4)):
                o = rng.choice(small)
                ops.append(rng.choice([["set", o, val()], ["take", o, val()], ["get", o], ["del", o], ["size"]]))
        rng.shuffle(small)
        ops += [["held"], ["size"]] + [["get", x] for x in small]
        return {"kind": "cache", "limit": limit, "name": rng.random() < 0.2, "ops": ops}

    def _gen_cachew_gate(self, rng, tier):
        """the same with the cache's wheel driven tick by tick: other entries (a key of k's stripe, up
        to hundreds of keys at once) EXPIRE while the loader of k is parked - the wheel's callback is
        cache.Del(other key) - and k's own life starts when its loader returns"""
        iv, es = self._expiries_ms()
        limit = rng.choice([0, 0, 0, 1, 2, 3])
        small = list(range(1, 5))
        k = rng.choice(small)
        others = [x for x in small if x != k]
        cols = c16hash.colliders(k, mods=self.COLLIDE_MODS)
        val = lambda: rng.randrange(1, 1000)
        e1 = es[1]                            # one tick
        expiry = lambda: rng.choice(es[1:4])
        dflt = rng.choice(es[1:4])
        ops = []
        for o in rng.sample(others, rng.randint(0, len(others))):
            ops.append(["set", o, val(), expiry()])
        nb = 0
        if limit == 0 and rng.random() < 0.5:
            nb = rng.randint(300, 620)
            base = max(1000, (cols[0] if cols else 1000) - rng.randrange(nb))
            ops.append(["setseq", base, nb, val(), e1])
        for c in cols[:rng.randint(1, 3)]:
            ops.append(["set", c, val(), rng.choice([e1, e1, es[2]])])
        inner = [["tick"]]
        if rng.random() < 0.6:
            inner += [["get", cols[0]]] if cols else []
            inner += rng.choice([[], [["tick"]], [["held"]], [["size"], ["tick"]]])
        if rng.random() < 0.5:
            inner += self._gate_inner(rng, k, others, limit, val, expiry=expiry)
        if rng.random() < 0.3:
            inner.append(["tick"])
        ops.append(["take_gate", k, None if rng.random() < 0.1 else val(), inner])
        due = dflt // iv
        ops += [["held"], ["get", k]] + [["tick"]] * (due - 1) + [["get", k], ["take", k, val()], ["tick"], ["get", k], ["held"]]
        ops += [["tick"]] * rng.randint(0, 2) + [["held"]] + [["get", x] for x in small]
        return {"kind": "cachew", "limit": limit, "expire_ms": dflt, "ops": ops}


    # ---- many goroutines on one object, disjoint keys: every answer is determined ------------
    def _stress_case(self, rng, obj, T, rounds, cross=True):
        """T goroutines run their scripts `rounds` times over on ONE object, each on keys of its own;
        a script ends by deleting its keys, so every round starts from the same state and - whatever
        the interleaving - every goroutine sees what it would see alone.  Window: only Adds at one
        instant into Sum/Count buckets (commutative), one Reduce afterwards.  What breaks this is
        missing mutual exclusion inside the object (lost updates, a corrupted map / list)."""
        c = {"kind": "stress", "obj": obj, "rounds": rounds, "pre": [], "threads": [], "post": []}
        val = lambda: rng.randrange(1, 1000)
        if obj == "window":
            c.update({"size": rng.choice([1, 3]), "interval": 1000, "t0": T0_BASE + rng.randrange(10 ** 6),
                      "ignore": False, "bucket": "sum"})
            c["threads"] = [[["cadd", val()] for _ in range(rng.randint(4, 8))] for _ in range(T)]
            c["post"] = [["creduce"]]
            return c
        if obj in ("queue", "ring"):
            # every goroutine adds the SAME value: what is held afterwards does not depend on the order
            c["size"] = rng.choice([1, 2, 3, 5])
            v = val()
            c["rounds"] = rounds = min(rounds, 120)
            word = "put" if obj == "queue" else "add"
            c["threads"] = [[[word, v] for _ in range(rng.randint(2, 4))] for _ in range(T)]
            total = rounds * sum(len(t) for t in c["threads"])
            c["post"] = ([["take"]] * (total + 1) + [["empty"]]) if obj == "queue" else [["take"]]
            return c
        for i in range(T):
            keys = [100 * (i + 1) + j for j in range(rng.randint(2, 3))]
            blk = []
            for _ in range(rng.randint(6, 12)):
                k = rng.choice(keys)
                if obj == "safemap":
                    blk.append(rng.choice([["set", k, val()], ["set", k, val()], ["get", k], ["del", k]]))
                else:
                    blk.append(rng.choice([["set", k, val()], ["take", k, val()], ["take", k, None], ["get", k], ["del", k]]))
            blk += [["get", keys[0]]] + [["set", k, val()] for k in keys] + [["del", k] for k in keys]
            c["threads"].append(blk)
        if obj == "safemap":
            ct, md = self._consts()
            # the goroutines' own deletions carry deletionOld across maxDeletion (migration under way)
            dels = sum(rounds * sum(1 for o in t if o[0] == "del") for t in c["threads"])
            c["pre"] = [["setseq", 1000, 3, 1]]
            if cross:
                c["pre"].append(["churn", 9, 1, max(0, md - rng.randint(1, max(2, dels // 2)))])
            c["post"] = [["size"], ["range"], ["get", 1000], ["get", 101]]
        else:
            c["limit"] = rng.choice([0, 0, -1])
            c["pre"] = [["set", 1, 10], ["set", 2, 20]]
            c["post"] = [["held"], ["size"], ["get", 1], ["get", 101]]
        return c

    def _gen_stress(self, rng, tier):
        return self._stress_case(rng, rng.choice(["safemap", "safemap", "cache", "cache", "window", "window", "queue", "ring"]),
                                 rng.choice([3, 4, 4]), rng.randint(60, 160))

    def _stress_term(self, case, obs):
        """one sequential history: prefix, script 1 x rounds, script 2 x rounds, ..., post"""
        obj, R = case["obj"], case["rounds"]
        seen = list(obs["obs"])
        if obs.get("err"):
            seen = None
        is_obs = (lambda o: o[0] in ("get", "size", "range")) if obj == "safemap" else (lambda o: o[0] in OBSERVING)
        if obj == "window":
            ops = " ++ ".join("repn %d %s" % (R, clist(["WAdd %s %s" % (cz(case["t0"]), cz(o[1])) for o in t]))
                              for t in case["threads"])
            red = seen if seen is not None and len(seen) == 1 else [[[-424242, 0]]]
            ob = clist([clist(["(%s, %s)" % (cz(b[0]), cz(b[1] if len(b) > 1 else 0)) for b in r]) for r in red])
            return "KWindowSum %s %s %s %s (%s ++ [WReduce %s]) %s" % (
                cz(case["size"]), cz(case["interval"]), cz(case["t0"]), cbool(case.get("ignore", False)), ops,
                cz(case["t0"]), ob)
        if obj in ("queue", "ring"):
            ren = self._qop if obj == "queue" else self._rop
            ops = " ++ ".join("repn %d %s" % (R, clist([ren(o) for o in t])) for t in case["threads"])
            post = case["post"]
            if seen is None or len(seen) != len(post):
                obt = "[ONum (-424242)]"
            elif obj == "queue" and len(seen) > 3 and all(x == seen[0] for x in seen[:-2]):
                obt = "(repn %d [%s] ++ %s)" % (len(seen) - 2, _obs(seen[0]), clist([_obs(o) for o in seen[-2:]]))
            else:
                obt = clist([_obs(o) for o in seen])
            if obj == "queue":
                return "KQueue %s (%s ++ repn %d [QTake] ++ [QEmpty]) %s" % (cz(case["size"]), ops, len(post) - 1, obt)
            return "KRing %s (%s ++ [RTake]) %s" % (cz(case["size"]), ops, obt)
        ren = self._mop if obj == "safemap" else (lambda o: self._ccops(o)[0])
        op_parts = [clist([ren(o) for o in case["pre"]])]
        ob_parts = []
        pos = 0
        bad = seen is None
        for t in case["threads"]:
            g = sum(1 for o in t if is_obs(o))
            op_parts.append("repn %d %s" % (R, clist([ren(o) for o in t])))
            if not bad:
                sl = seen[pos:pos + g * R]
                pos += g * R
                if len(sl) != g * R:
                    bad = True
                elif sl == sl[:g] * R:
                    ob_parts.append("repn %d %s" % (R, clist([_obs(o) for o in sl[:g]])))
                else:
                    ob_parts.append(clist([_obs(o) for o in sl]))
        op_parts.append(clist([ren(o) for o in case["post"]]))
        if not bad:
            ob_parts.append(clist([_obs(o) for o in seen[pos:]]))
        obt = "(%s)" % " ++ ".join(ob_parts) if not bad else "[ONum (-424242)]"
        opt = "(%s)" % " ++ ".join(op_parts)
        if obj == "safemap":
            return "KSafeMap %s %s %s %s" % (cz(self.copy_thr), cz(self.max_del), opt, obt)
        return "KCache %s %s %s" % (cz(case["limit"]), opt, obt)

    # ---- free-running goroutines (linearisability) -----------------------------------------
    def _gen_lin(self, rng, tier):
        obj = rng.choice(["queue", "queue", "ring", "cache", "cache", "safemap", "window"])
        nthreads = rng.choice([2, 3, 3])
        per = rng.randint(2, 4) if nthreads == 3 else rng.randint(3, 5)
        c = {"kind": "lin", "obj": obj, "pre": [], "threads": []}
        v = [0]

        def val():
            v[0] += 1
            return v[0]
        if obj == "queue":
            c["size"] = rng.choice([1, 2, 3])
            q = QueueSim(c["size"])
            # sequential prefix: grown once and wrapped, full or nearly full
            for _ in range(rng.randint(0, 2)):
                n = q.cap - q.count + rng.randint(0, 1)
                c["pre"] += [["put", val()] for _ in range(n)]
                for _ in range(n):
                    q.put()
                t = rng.randint(0, max(0, q.count - 1))
                c["pre"] += [["take"]] * t
                for _ in range(t):
                    q.take()
            mk = lambda: rng.choice([["put", val()], ["put", val()], ["take"], ["take"], ["empty"]])
        elif obj == "ring":
            c["size"] = rng.choice([1, 2, 3])
            c["pre"] = [["add", val()] for _ in range(rng.choice([0, c["size"] - 1, c["size"], 2 * c["size"] - 1]))]
            mk = lambda: rng.choice([["add", val()], ["add", val()], ["take"]])
        elif obj == "cache":
            # Take's miss -> load -> store is not one atomic step (a Set of the same key in between
            # is overwritten by the loaded value): keys that are Set are never Taken here, see notes
            c["limit"] = rng.choice([0, 1, 2])
            nk = max(2, c["limit"] + 1)
            sk = lambda: rng.randrange(nk)            # keys written with Set
            tk = lambda: 10 + rng.randrange(2)        # keys written by Take only
            c["pre"] = [["set", k, val()] for k in range(rng.randint(0, nk))]
            mk = lambda: rng.choice([["set", sk(), val()], ["get", rng.choice([sk(), tk()])], ["take", tk(), val()],
                                     ["del", rng.choice([sk(), tk()])], ["held"], ["size"]])
        elif obj == "safemap":
            ct, md = self._consts()
            if rng.random() < 0.5:
                # start a few deletions before a threshold so that the concurrent part crosses it
                if tier != "thorough" or rng.random() < 0.7:
                    c["pre"] = [["setseq", 0, 3, 1], ["churn", 9, 1, md - rng.randint(1, 3)]]
                else:
                    c["pre"] = [["setseq", 0, ct + 2, 1], ["churn", 9, 1, md - rng.randint(0, 2)]]
            mk = lambda: rng.choice([["set", rng.randrange(4), val()], ["get", rng.randrange(4)], ["del", rng.randrange(4)],
                                     ["del", rng.randrange(4)], ["size"]] + ([["range"]] if not c["pre"] or c["pre"][0][2] < 10 else []))
        else:
            c.update({"size": rng.choice([1, 3]), "interval": 1000, "t0": T0_BASE + rng.randrange(10 ** 6),
                      "ignore": rng.random() < 0.3})
            mk = lambda: rng.choice([["cadd", val()], ["cadd", val()], ["creduce"]])
        c["threads"] = [[mk() for _ in range(per)] for _ in range(nthreads)]
        return c

    def _gen_cache_rt(self, rng):
        expire = rng.choice([2000, 3000])
        ops = []
        for _ in range(rng.randint(6, 14)):
            r = rng.random()
            k = rng.randrange(3)
            if r < 0.3:
                ops.append(["set", k, rng.randrange(1000)])
            elif r < 0.6:
                ops.append(["get", k])
            elif r < 0.7:
                ops.append(["take", k, rng.randrange(1000)])
            elif r < 0.75:
                ops.append(["del", k])
            else:
                ops.append(["sleep", rng.choice([300, 700, expire // 2, expire - 1500, expire + 1700, expire + 2500])])
        ops += [["sleep", expire + 2600]] + [["get", k] for k in range(3)]
        ops = [o for o in ops if not (o[0] == "sleep" and o[1] <= 0)]
        return {"kind": "cache_rt", "limit": 0, "expire_ms": expire, "ops": ops}

    # ------------------------------------------------------------------ run
    RACE_KINDS = ("lin", "stress")

    def execute(self, cases, ctx):
        # several goroutines on one object: run by the executor built with -race (every case in a
        # process of its own: a detected data race, like a detected concurrent map access, is that
        # case's failure); everything else by the plain executor
        plain = [c for c in cases if c["kind"] not in self.RACE_KINDS]
        conc = [c for c in cases if c["kind"] in self.RACE_KINDS]
        by_id = {}
        # every Cache leaves two goroutines behind (wheel loop, stat loop; there is no Close) and the
        # wheel-driven kinds poll all goroutine stacks after each operation: bound the population of
        # one executor process
        chunks = [plain[i:i + 800] for i in range(0, len(plain), 800)]
        if len(chunks) <= 1:
            outs = [vlib.go_run(self.bin, ch, tag="c16", timeout=1500) for ch in chunks]
        else:
            import concurrent.futures
            with concurrent.futures.ThreadPoolExecutor(max_workers=4) as ex:
                outs = list(ex.map(lambda ic: vlib.go_run(self.bin, ic[1], tag="c16_%d" % ic[0], timeout=1500),
                                   enumerate(chunks)))
        if conc:
            t = getattr(self, "_race_thread", None)
            if t is not None:
                t.join()
            rb = getattr(self, "racebin", None)
            if rb is None and getattr(self, "_race_log", ""):
                ctx_notes = getattr(ctx, "notes", None)
                if ctx_notes is not None and not getattr(self, "_race_noted", False):
                    ctx_notes.append("the -race executor does not build (%s): lin/stress cases run without the race detector"
                                     % self._race_log[-200:])
                    self._race_noted = True
            chunks.append(conc)
            outs.append(vlib.go_run(rb or self.bin, conc, tag="c16conc", timeout=1500,
                                    env={"GORACE": "halt_on_error=1 exitcode=66"}))
        for (rc, out, r), ch in zip(outs, chunks):
            if rc != 0 or len(r) != len(ch):
                raise ExecError("c16 executor rc=%s: %s" % (rc, out[-2000:]))
            for c, x in zip(ch, r):
                by_id[id(c)] = x
        return [self._to_obs(by_id[id(c)]) for c in cases]

    @staticmethod
    def _to_obs(r):
        if r.get("err"):
            # a panic or an unexpected error of the implementation on an in-scope history is an
            # observable in itself: it never matches the model
            return {"obs": r.get("obs") or [], "err": r["err"], "at": r.get("at")}
        o = {"obs": r["obs"], "at": r.get("at")}
        for f in ("pair", "free", "gate"):
            if r.get(f) is not None:
                o[f] = r[f]
        return o

    # ------------------------------------------------------------------ direct monitor
    def extra(self, ctx):
        """Thorough tier: the executor built with -race; free-running goroutines on one Cache /
        SafeMap / Queue / Ring / RollingWindow (3..4 goroutines, up to 14 calls, after sequential
        prefixes that put the object next to a growth / migration / eviction).  A data race is a
        failure; so is a history with no linearisation (judged by Check.prop_ok against the
        sequential reference models; the search is exact: Props.linearisation_search_is_exact)."""
        if ctx.tier != "thorough":
            return []
        import random
        ok, res = vlib.go_build("c16race", overlay=self._overlay(), race=True)
        if not ok:
            raise ExecError("c16race does not build: %s" % res[-2000:])
        rng = random.Random(ctx.seed * 31 + 16)
        cases = []
        for i in range(900):
            c = self._gen_lin(rng, "thorough")
            if i % 3 == 0 and len(c["threads"]) == 3 and sum(len(t) for t in c["threads"]) <= 10:
                c["threads"].append(list(c["threads"][0]))     # a fourth goroutine repeating the first script
            c["id"] = i
            cases.append(c)
        ctx.checker_cmds.append("harness/bin/c16race (go build -race): %d free-running histories on Cache/SafeMap/Queue/Ring/RollingWindow"
                                % len(cases))
        rc, out, rs = vlib.go_run(res, cases, tag="c16race", timeout=1500,
                                  env={"GORACE": "halt_on_error=1 exitcode=66", "C16_NOISOLATE": "1"})
        if "DATA RACE" in out or rc == 66:
            return [{"what": "data race in core/collection under concurrent use of one object", "replay": out[-4000:]}]
        if rc != 0 or len(rs) != len(cases):
            raise ExecError("c16race rc=%s: %s" % (rc, out[-2000:]))
        obs = [{"obs": r.get("obs") or [], "free": r.get("free"), **({"err": r["err"]} if r.get("err") else {})} for r in rs]
        terms = [self.coq_case(c, o) for c, o in zip(cases, obs)]
        ev = vlib.coq_eval_cases(self.id, self.check_module, terms)
        bad = [(c, o) for c, o, (a, p) in zip(cases, obs, ev) if not p]
        only_model = sum(1 for (a, p) in ev if p and not a)
        overl = sum(1 for c, o in zip(cases, obs) if self.nontrivial(c, o))
        ctx.notes.append("race monitor: %d free-running histories (%d with overlapping calls), %d not linearisable, "
                         "%d linearisable against the reference but not against the transcribed model"
                         % (len(cases), overl, len(bad), only_model))
        racebin = res
        res = [{"what": self.describe_failure(c, o), "replay": {"case": c, "observed": o}} for c, o in bad[:3]]
        if only_model and not res:
            c, o = next((c, o) for c, o, (a, p) in zip(cases, obs, ev) if p and not a)
            res.append({"what": "free-running history explained by the reference model but not by the transcribed model "
                                "(model and implementation disagree)", "replay": {"case": c, "observed": o}})
        # the forced schedule take_gate (a loader parked while other keys are used, ticks included) under
        # the race detector: the window between Take's look-up and its store is wide open here
        gcases = []
        for i in range(240):
            c = self._gen_cache_gate(rng, "thorough") if i % 3 else self._gen_cachew_gate(rng, "thorough")
            c["id"] = i
            gcases.append(c)
        rc, out, rs = vlib.go_run(racebin, gcases, tag="c16racegate", timeout=1500, env={"GORACE": "halt_on_error=1 exitcode=66"})
        if "DATA RACE" in out or rc == 66:
            return res + [{"what": "data race in core/collection while a Take's loader is in flight and other keys are used",
                           "replay": out[-4000:]}]
        if rc != 0 or len(rs) != len(gcases):
            raise ExecError("c16race (take_gate) rc=%s: %s" % (rc, out[-2000:]))
        gobs = [self._to_obs(r) for r in rs]
        gev = vlib.coq_eval_cases(self.id, self.check_module, [self.coq_case(c, o) for c, o in zip(gcases, gobs)])
        gbad = [(c, o) for c, o, (a, p) in zip(gcases, gobs, gev) if not p]
        ctx.notes.append("race monitor: %d histories with a Take held in its loader (-race), %d property failures"
                         % (len(gcases), len(gbad)))
        res += [{"what": self.describe_failure(c, o), "replay": {"case": c, "observed": o}} for c, o in gbad[:2]]
        return res

    # ------------------------------------------------------------------ rendering
    def coq_case(self, case, obs):
        k = case["kind"]
        seen = obs["obs"]
        if k == "lin":
            return self._lin_case(case, obs)
        if k == "stress":
            return self._stress_term(case, obs)
        if k == "window_gate":
            wops = lambda ops: clist(["WAdd %s %s" % (cz(o[1]), cz(o[2])) if o[0] == "add" else "WReduce %s" % cz(o[1])
                                      for o in ops])
            red = lambda l: clist([clist([clist([cz(x) for x in b]) for b in r]) for r in l])
            npre = sum(1 for o in case["ops"] if o[0] == "reduce")
            g = obs.get("gate") or {}
            view = g.get("view") if g.get("view") is not None else [[-424242]]
            if obs.get("err"):
                view = [[-424242]]
            return "KWindowGate %s %s %s %s %s %s %s %s %s %s %s" % (
                cz(case["size"]), cz(case["interval"]), cz(case["t0"]), cbool(case.get("ignore", False)),
                wops(case["ops"]), red(seen[:npre]), cz(case["gate_at"]),
                clist(["(%s, %s)" % (cz(a[0]), cz(a[1])) for a in case["adds"]]),
                clist([clist([cz(x) for x in b]) for b in view]), wops(case["post"]), red(seen[npre:]))
        if k in ("ring", "window") and case["size"] < 1:
            # the only acceptable outcome is the constructor's panic
            refused = (obs.get("err") or "").startswith("panic: ") and "greater than 0" in obs["err"]
            if k == "ring":
                return "KRing 1 [] %s" % ("[]" if refused else "[ONum (-424242)]")
            return "KWindow 1 1 0 false [] %s" % ("[]" if refused else "[[[-424242]]]")
        if obs.get("err"):
            # make the mismatch visible: one extra observation that no model produces
            seen = list(seen) + [["num", -424242]] if k != "window" else list(seen) + [[[-424242]]]
        if k == "window":
            ops = clist(["WAdd %s %s" % (cz(o[1]), cz(o[2])) if o[0] == "add" else "WReduce %s" % cz(o[1])
                         for o in case["ops"]])
            hd = "%s %s %s %s %s" % (cz(case["size"]), cz(case["interval"]), cz(case["t0"]),
                                      cbool(case.get("ignore", False)), ops)
            if case.get("bucket") == "sum":
                ob = clist([clist(["(%s, %s)" % (cz(b[0]), cz(b[1] if len(b) > 1 else 0)) for b in red]) for red in seen])
                return "KWindowSum %s %s" % (hd, ob)
            ob = clist([clist([clist([cz(v) for v in b]) for b in red]) for red in seen])
            return "KWindow %s %s" % (hd, ob)
        if k == "safemap":
            # what a stopped Range was shown is an oracle argument of the operation
            mops, rest = [], []
            it = iter(seen)
            for o in case["ops"]:
                if o[0] == "rangestop":
                    r = next(it, None)
                    vis = r[1] if (r and r[0] == "pairs") else [[-424242, 0]]
                    mops.append("MRangeStop %s %s" % (cz(o[1]), clist(["(%s, %s)" % (cz(a), cz(b)) for a, b in vis])))
                else:
                    if o[0] in ("get", "size", "range"):
                        r = next(it, None)
                        if r is not None:
                            rest.append(r)
                    mops.append(self._mop(o))
            rest += list(it)
            return "KSafeMap %s %s %s %s" % (cz(self.copy_thr), cz(self.max_del), clist(mops), clist([_obs(o) for o in rest]))
        so = clist([_obs(o) for o in seen])
        if k == "queue":
            return "KQueue %s %s %s" % (cz(case["size"]), clist([self._qop(o) for o in case["ops"]]), so)
        if k == "ring":
            return "KRing %s %s %s" % (cz(case["size"]), clist([self._rop(o) for o in case["ops"]]), so)
        if k == "set":
            return "KSet %s %s" % (clist(sum([self._sops(o) for o in case["ops"]], [])), so)
        if k == "cache":
            fops, fseen = flatten_cache(case["ops"], seen, expand=False)
            ta = (self._segments(self._cache_ops(fops, fseen)), clist([_obs(o) for o in fseen]))
            # a gated Take whose inner operations Del the SAME key: two legal outcomes (see Check.KCacheEither)
            gates = [o for o in case["ops"] if o[0] == "take_gate"]
            same = [i for i, g in enumerate(gates) if any(x[0] == "del" and x[1] == g[1] for x in g[3])]
            if len(same) == 1 and not obs.get("err"):
                fb, sb = flatten_cache(case["ops"], seen, expand=False, take_first=(same[0],))
                return "KCacheEither %s %s %s %s %s" % (cz(case["limit"]), ta[0], ta[1],
                                                        self._segments(self._cache_ops(fb, sb)), clist([_obs(o) for o in sb]))
            return "KCache %s %s %s" % (cz(case["limit"]), ta[0], ta[1])
        if k == "cache_rt":
            return "KCache %s %s %s" % (cz(case["limit"]), clist(sum([self._ccops(o) for o in self._rt_ops(case, obs)], [])), so)
        if k == "cachew":
            c = self.consts
            iv_ms = c["interval_ns"] // 10 ** 6
            fops, fseen = flatten_cache(case["ops"], seen, expand=False)
            return "KCacheW %s %s %s %s %s %s" % (cz(case["limit"]), cz(c["slots"]), cz(iv_ms), cbool(c["rewrite_moves"]),
                                                  self._segments([self._xop(o, case["expire_ms"]) for o in fops]),
                                                  clist([_obs(o) for o in fseen]))
        if k == "cache_take2":
            # the pair of concurrent Takes must be indistinguishable from ONE loading Take (by A):
            # B blocked behind A's flight, B's loader not called, B got A's value
            ops = []
            bad = False
            for o in case["ops"]:
                if o[0] == "take2":
                    ops.append(["take", o[1], o[2]])
                    pr = obs.get("pair") or {}
                    bad = not (pr.get("b_blocked") is True and pr.get("b_called") is False and pr.get("b_val") == o[2])
                else:
                    ops.append(o)
            if bad:
                so = clist([_obs(o) for o in seen] + ["ONum (-424243)"])
            return "KCache %s %s %s" % (cz(case["limit"]), clist(sum([self._ccops(o) for o in ops], [])), so)
        raise ValueError(k)

    def _lin_case(self, case, obs):
        obj = case["obj"]
        ren = {"queue": self._qop, "ring": self._rop, "safemap": self._smop, "window": self._wlop,
               "cache": lambda o: self._ccops(o)[0]}[obj]
        evs = []
        free = obs.get("free") or []
        if obs.get("err") or len(free) != len(case["threads"]) or any(len(f) != len(t) for f, t in zip(free, case["threads"])):
            # a panic / deadlock / missing call: an event no sequential run explains
            evs.append("mkLev 0 0 %s (ONum (-424242))" % self._paren(ren(case["threads"][0][0])))
        else:
            allev = [(o, e) for script, f in zip(case["threads"], free) for o, e in zip(script, f)]
            for o, e in allev:
                term = ren(o)
                r = e.get("obs")
                if obj == "cache" and o[0] == "take" and r and r[0] == "take" and r[2] is False and r[1] is not None:
                    # not loaded: a hit, or the result of an overlapping Take's single flight
                    def same(o2, e2, loaded):
                        r2 = e2.get("obs")
                        return (o2[0] == "take" and o2[1] == o[1] and r2 and r2[0] == "take" and r2[1] == r[1]
                                and r2[2] is loaded)
                    over = lambda x, y: x["s"] < y["e"] and y["s"] < x["e"]
                    loaders = [e2 for o2, e2 in allev if same(o2, e2, True)]
                    if any(over(e2, e) for e2 in loaders) or any(
                            e2 is not e and same(o2, e2, False) and over(e2, e) and any(over(c, e2) for c in loaders)
                            for o2, e2 in allev):
                        term = "CJoin %s %s" % (cz(o[1]), cz(r[1]))
                evs.append("mkLev %s %s %s (%s)" % (cz(e["s"]), cz(e["e"]), self._paren(term),
                                                    _obs(r) if r is not None else "OUnit"))
        ev = clist(evs)
        if obj == "queue":
            return "KLinQueue %s %s %s" % (cz(case["size"]), clist([self._qop(o) for o in case["pre"]]), ev)
        if obj == "ring":
            return "KLinRing %s %s %s" % (cz(case["size"]), clist([self._rop(o) for o in case["pre"]]), ev)
        if obj == "safemap":
            return "KLinMap %s %s %s %s" % (cz(self.copy_thr), cz(self.max_del), clist([self._mop(o) for o in case["pre"]]), ev)
        if obj == "cache":
            return "KLinCache %s %s %s" % (cz(case["limit"]), clist(sum([self._ccops(o) for o in case["pre"]], [])), ev)
        if obj == "window":
            return "KLinWindow %s %s %s %s %s" % (cz(case["size"]), cz(case["interval"]), cz(case["t0"]),
                                                   cbool(case.get("ignore", False)), ev)
        raise ValueError(obj)

    @staticmethod
    def _paren(t):
        return "(%s)" % t if " " in t else t

    def _qop(self, o):
        return "QPut %s" % cz(o[1]) if o[0] == "put" else ("QTake" if o[0] == "take" else "QEmpty")

    def _rop(self, o):
        return "RAdd %s" % cz(o[1]) if o[0] == "add" else "RTake"

    def _wlop(self, o):
        return "WLAdd %s" % cz(o[1]) if o[0] == "cadd" else "WLReduce"

    def _smop(self, o):
        t = o[0]
        if t == "set":
            return "MSet %s %s" % (cz(o[1]), cz(o[2]))
        if t == "get":
            return "MGet %s" % cz(o[1])
        if t == "del":
            return "MDel %s" % cz(o[1])
        if t == "size":
            return "MSize"
        if t == "range":
            return "MRange"
        raise ValueError(o)

    def _mop(self, o):
        t = o[0]
        if t == "set":
            return "MP (MSet %s %s)" % (cz(o[1]), cz(o[2]))
        if t == "get":
            return "MP (MGet %s)" % cz(o[1])
        if t == "del":
            return "MP (MDel %s)" % cz(o[1])
        if t == "size":
            return "MP MSize"
        if t == "range":
            return "MP MRange"
        if t == "setseq":
            return "MSetSeq %s %s %s" % (cz(o[1]), cz(o[2]), cz(o[3]))
        if t == "delseq":
            return "MDelSeq %s %s" % (cz(o[1]), cz(o[2]))
        if t == "churn":
            return "MChurn %s %s %s" % (cz(o[1]), cz(o[2]), cz(o[3]))
        raise ValueError(o)

    def _sops(self, o):
        t = o[0]
        if t in ("add", "addany"):
            return ["SAdd %s" % cz(o[1])]
        if t == "addmany":
            return ["SAdd %s" % cz(k) for k in o[1:]]
        if t == "remove":
            return ["SRemove %s" % cz(o[1])]
        if t == "contains":
            return ["SContains %s" % cz(o[1])]
        if t == "count":
            return ["SCount"]
        if t == "keys":
            return ["SKeys"]
        if t == "keysof":
            return ["SKeysOf %s" % cz(o[1])]
        raise ValueError(o)

    def _cache_ops(self, ops, seen):
        """take_race / take_nested: whether the scripted inner Set happened (it does not when the
        Take hits) is reported by the executor as a 4th field of the observation"""
        it = iter(seen)
        res = []
        for o in ops:
            r = next(it, None) if o[0] in ("get", "take", "take_race", "take_nested", "held", "size") else None
            ran = bool(r and len(r) > 3 and r[3])
            if o[0] == "take_race":
                res += (["CC (CSet %s %s)" % (cz(o[1]), cz(o[3]))] if ran else []) + self._ccops(["take", o[1], o[2]])
            elif o[0] == "take_nested":
                res += (["CC (CSet %s %s)" % (cz(o[3]), cz(o[4]))] if ran else []) + self._ccops(["take", o[1], o[2]])
            else:
                res += self._ccops(o)
        return res

    @staticmethod
    def _segments(terms):
        """a list of operation terms in which a term starting with '@' is itself a list (a bulk run:
        Check.cdelseq / csetseq / xdelseq / xsetseq): [a; b] ++ bulk ++ [c]"""
        if not any(t.startswith("@") for t in terms):
            return clist(terms)
        segs, cur = [], []
        for t in terms:
            if t.startswith("@"):
                if cur:
                    segs.append(clist(cur))
                    cur = []
                segs.append(t[1:])
            else:
                cur.append(t)
        if cur:
            segs.append(clist(cur))
        return "(%s)" % " ++ ".join(segs)

    def _ccops(self, o):
        t = o[0]
        fetch = lambda f: "None" if f is None else "(Some %s)" % cz(f)
        if t == "delseq":
            return ["@cdelseq %s %s" % (cz(o[1]), cz(o[2]))]
        if t == "setseq":
            return ["@csetseq %s %s %s" % (cz(o[1]), cz(o[2]), cz(o[3]))]
        if t == "set":
            return ["CC (CSet %s %s)" % (cz(o[1]), cz(o[2]))]
        if t == "get":
            return ["CC (CGet %s)" % cz(o[1])]
        if t == "del":
            return ["CC (CDel %s)" % cz(o[1])]
        if t == "take":
            return ["CC (CTake %s %s)" % (cz(o[1]), fetch(o[2]))]
        if t == "expire":
            return ["CC (CExpire %s)" % cz(o[1])]
        if t == "held":
            return ["CHeld"]
        if t == "size":
            return ["CSize"]
        raise ValueError(o)

    def _xop(self, o, default_ms):
        t = o[0]
        if t == "delseq":
            return "@xdelseq %s %s" % (cz(o[1]), cz(o[2]))
        if t == "setseq":
            return "@xsetseq %s %s %s %s" % (cz(o[1]), cz(o[2]), cz(o[3]), cz(o[4]))
        if t == "set":
            return "XX (XSet %s %s %s)" % (cz(o[1]), cz(o[2]), cz(o[3]))
        if t == "get":
            return "XX (XGet %s)" % cz(o[1])
        if t == "del":
            return "XX (XDel %s)" % cz(o[1])
        if t == "take":
            return "XX (XTake %s %s %s)" % (cz(o[1]), "None" if o[2] is None else "(Some %s)" % cz(o[2]), cz(default_ms))
        if t == "tick":
            return "XX XTick"
        if t == "tick_hold":
            return "XTickHold"
        if t == "release":
            return "XRelease"
        if t == "held":
            return "XHeld"
        if t == "size":
            return "XSize"
        raise ValueError(o)

    def _rt_ops(self, case, obs):
        """Real-time cache case -> history with explicit Expire events.  A key written at time s
        with nominal expiry e is removed by the wheel between 0.95e - tick and 1.05e + tick
        (+- scheduling slack).  Before that window it must still be there (no event), after it
        it must be gone (event inserted unconditionally), inside it either is allowed (event
        inserted iff the implementation reported a miss)."""
        at = obs.get("at") or []
        e = case["expire_ms"]
        lo = 0.95 * e - TICK_MS - SLACK_MS
        hi = 1.05 * e + TICK_MS + SLACK_MS
        written = {}
        res = []
        oi = 0
        seen = obs["obs"]
        for i, o in enumerate(case["ops"]):
            now = at[i] if i < len(at) else 0
            if o[0] == "sleep":
                continue
            if o[0] in ("get", "take"):
                ob = seen[oi] if oi < len(seen) else None
                oi += 1
                k = o[1]
                if k in written:
                    age = now - written[k]
                    miss = ob is not None and ((ob[0] == "opt" and ob[1] is None) or (ob[0] == "take" and ob[2]))
                    if age > hi or (age >= lo and miss):
                        res.append(["expire", k])
                        del written[k]
                if o[0] == "take" and ob is not None and ob[0] == "take" and ob[2] and o[2] is not None:
                    written[k] = now
            elif o[0] == "set":
                written[o[1]] = now
            elif o[0] == "del":
                written.pop(o[1], None)
            res.append(o)
        return res

    # ------------------------------------------------------------------ evidence
    def nontrivial(self, case, obs):
        k = case["kind"]
        if k == "lin":
            # two calls of different goroutines overlapped in time
            free = obs.get("free") or []
            for i, a in enumerate(free):
                for b in free[i + 1:]:
                    if any(x["s"] < y["e"] and y["s"] < x["e"] for x in a for y in b):
                        return True
            return False
        if k == "stress":
            return not obs.get("err") and len(case["threads"]) >= 2 and case["rounds"] >= 50
        if k == "window_gate":
            # the callback was parked with buckets still to come, and an Add then rolled the window
            g = obs.get("gate") or {}
            iv, t0 = case["interval"], case["t0"]
            rolled = any((a[0] - t0) // iv > (case["gate_at"] - t0) // iv for a in case["adds"])
            return bool(g.get("gated")) and rolled and len(g.get("view") or []) > case["hold"]
        ops = case["ops"]
        seen = obs["obs"]
        if k in ("cache", "cachew"):
            gated = any(o[0] == "take_gate" for o in ops)
            ops, seen = flatten_cache(ops, seen)
            if gated:
                # a loader was parked while other keys were used, and the value it returned was looked for afterwards
                raw = [r for r in obs["obs"] if r and r[0] == "take" and len(r) >= 5]
                return any(r[3] and r[4] > 0 for r in raw)
        if k == "window":
            iv, t0 = case["interval"], case["t0"]
            crossed = len(set((o[1] - t0) // iv for o in ops)) > 1
            return crossed and any(any(b for b in red) for red in seen)
        if k == "safemap":
            dels = sum(o[3] if o[0] == "churn" else (o[2] if o[0] == "delseq" else (1 if o[0] == "del" else 0)) for o in ops)
            hit = any(o[0] == "opt" and o[1] is not None for o in seen)
            return hit and dels >= 1
        if k == "queue":
            cnt, cap, grown = 0, case["size"], False
            for o in ops:
                if o[0] == "put":
                    if cnt == cap and cnt > 0:
                        grown = True
                        cap += case["size"]
                    cnt += 1
                elif o[0] == "take" and cnt > 0:
                    cnt -= 1
            return grown
        if k == "ring":
            adds = 0
            for o in ops:
                if o[0] == "add":
                    adds += 1
                elif adds > case["size"]:
                    return True
            return False
        if k == "set":
            bs = [o[1] for o in seen if o[0] == "bool"]
            return True in bs and False in bs
        if k == "cachew":
            # an entry was seen present and later, after ticks only (no Del of it), absent
            was = set()
            gets = [o for o in ops if o[0] in ("get", "take", "held", "size")]
            ops = [o if o[0] != "tick_hold" else ["tick"] for o in ops]
            for o, r in zip(gets, seen):
                if o[0] in ("held", "size"):
                    continue
                hit = (r[0] == "opt" and r[1] is not None) or (r[0] == "take" and not r[2])
                if hit:
                    was.add(o[1])
                elif o[1] in was and any(x[0] == "tick" for x in ops):
                    return True
            return False
        if k == "cache_take2":
            return bool(obs.get("pair"))
        if k in ("cache", "cache_rt"):
            written = set(o[1] for o in ops if o[0] in ("set", "take", "take_race"))
            miss = any(o[0] == "take" and o[2] for o in seen)
            return miss or (case["limit"] > 0 and len(written) > case["limit"])
        return False

    def features(self, case, obs):
        k = case["kind"]
        if k == "stress":
            return ["kind=stress", "stress:obj=" + case["obj"], "stress:threads=%d" % len(case["threads"])] + (
                ["executor_error"] if obs.get("err") else [])
        if k == "lin":
            fs = ["kind=lin", "lin:obj=" + case["obj"], "lin:threads=%d" % len(case["threads"])]
            if obs.get("err"):
                fs.append("executor_error")
            return fs
        fs = ["kind=" + k, "%s:ops<=%d" % (k, 10 * (1 + len(case["ops"]) // 10))]
        if k == "window_gate":
            g = obs.get("gate") or {}
            fs += ["window_gate:size=%d" % case["size"], "window_gate:parked=%s" % bool(g.get("gated")),
                   "window_gate:add_waited_for_reduce=%s" % bool(g.get("add_waited"))]
        if k == "window":
            fs.append("window:size=%d" % case["size"])
            fs.append("window:ignore=%s" % case.get("ignore", False))
            iv, t0 = case["interval"], case["t0"]
            prev = 0
            for o in case["ops"]:
                i = (o[1] - t0) // iv
                d = i - prev
                if d >= 1:
                    fs.append("window:jump=" + ("size-1" if d == case["size"] - 1 else "size" if d == case["size"]
                                                else "size+1" if d == case["size"] + 1 else "other"))
                if (o[1] - t0) % iv == 0:
                    fs.append("window:on_boundary")
                elif (o[1] - t0) % iv == iv - 1:
                    fs.append("window:before_boundary")
                prev = i
            fs = sorted(set(fs))
        elif k == "safemap":
            dels = sum(o[3] if o[0] == "churn" else (o[2] if o[0] == "delseq" else (1 if o[0] == "del" else 0))
                       for o in case["ops"])
            fs.append("safemap:deletions>=maxDeletion" if dels >= self.max_del else "safemap:deletions<maxDeletion")
            if dels >= self.max_del:
                for h in sorted(SafeMapSim(self.copy_thr, self.max_del).run(case["ops"]).hits):
                    fs.append("safemap:" + h)
            if any(o[0] == "rangestop" for o in case["ops"]):
                fs.append("safemap:range-stopped")
        elif k in ("queue", "ring"):
            fs.append("%s:size=%d" % (k, case["size"]))
            if k == "queue":
                q = QueueSim(case["size"])
                for o in case["ops"]:
                    if o[0] == "put":
                        q.put()
                    elif o[0] == "take":
                        q.take()
                fs.append("queue:growths=%s" % (q.grown if q.grown < 3 else ">=3"))
                fs.append("queue:growths_while_wrapped=%s" % (q.grown_wrapped if q.grown_wrapped < 2 else ">=2"))
        elif k == "set":
            fs.append("set:managed" if case.get("ignore") else "set:unmanaged")
        elif k in ("cache", "cache_rt", "cachew", "cache_take2"):
            fs.append("%s:limit=%d" % (k, case["limit"]))
            if any(o[0] == "take_gate" for o in case["ops"]):
                raw = [r for r in obs["obs"] if r and r[0] == "take" and len(r) >= 5]
                fs.append("%s:take-held-in-loader" % k)
                if any(r[3] and r[4] > 0 for r in raw):
                    fs.append("%s:other-keys-used-while-loader-held" % k)
                if any(r[3] and r[4] < len(o[3]) for r, o in zip(raw, [o for o in case["ops"] if o[0] == "take_gate"])):
                    fs.append("%s:other-keys-waited-for-loader" % k)
                if any(x[0] == "delseq" and x[2] >= 600 for o in case["ops"] if o[0] == "take_gate" for x in o[3]):
                    fs.append("%s:>=600-other-keys-while-loader-held" % k)
            if k == "cachew" and any(o[0] == "tick_hold" for o in case["ops"]):
                fs.append("cachew:expiry-callback-held")
            if k == "cachew":
                iv_ms = self.consts["interval_ns"] // 10 ** 6
                if any(o[0] == "set" and o[3] < iv_ms for o in case["ops"]):
                    fs.append("cachew:sub_interval_expiry(out of scope)")
        if obs.get("err"):
            fs.append("executor_error")
        return fs

    @staticmethod
    def _bulk(o):
        """(index of the count, count) of a bulk SafeMap op, else None."""
        if o[0] == "churn":
            return 3, o[3]
        if o[0] in ("setseq", "delseq"):
            return 2, o[2]
        return None

    def _weight(self, case):
        if case["kind"] in ("lin", "stress"):
            return 0
        return sum((self._bulk(o) or (0, 1))[1] for o in case["ops"])

    def shrink_candidates(self, case):
        if case["kind"] == "stress":
            # fewer goroutines; shorter scripts (a failure here depends on timing: candidates often pass)
            res = []
            for i in range(len(case["threads"])):
                if len(case["threads"]) > 2:
                    c = dict(case)
                    c["threads"] = case["threads"][:i] + case["threads"][i + 1:]
                    res.append(c)
            if case.get("pre"):
                c = dict(case)
                c["pre"] = case["pre"][:-1]
                res.append(c)
            return res
        if case["kind"] == "lin":
            res = []
            for i, th in enumerate(case["threads"]):
                for j in range(len(th)):
                    c = dict(case)
                    c["threads"] = [t if x != i else t[:j] + t[j + 1:] for x, t in enumerate(case["threads"])]
                    c["threads"] = [t for t in c["threads"] if t]
                    if c["threads"]:
                        res.append(c)
            return res
        ops = case["ops"]
        res = []
        # shorten bulk runs first (halve, and to just below / at the threshold)
        for i, o in enumerate(ops):
            b = self._bulk(o)
            if b and b[1] > 1:
                j, n = b
                for n2 in sorted(set([n // 2, n - 1, self.max_del if n > self.max_del else n // 2])):
                    if 0 < n2 < n:
                        o2 = list(o)
                        o2[j] = n2
                        c = dict(case)
                        c["ops"] = ops[:i] + [o2] + ops[i + 1:]
                        res.append(c)
        # a gated Take: drop / halve the operations run while its loader is held
        for i, o in enumerate(ops):
            if o[0] == "take_gate":
                inner = o[3]
                cands = []
                if len(inner) > 1:
                    h = len(inner) // 2
                    cands += [inner[:h], inner[h:]] + [inner[:j] + inner[j + 1:] for j in range(len(inner))]
                for j, x in enumerate(inner):
                    if x[0] in ("delseq", "setseq") and x[2] > 1:
                        for n2 in (x[2] // 2, x[2] - 1):
                            cands.append(inner[:j] + [x[:2] + [n2] + x[3:]] + inner[j + 1:])
                        cands.append(inner[:j] + [[x[0], x[1] + x[2] // 2, x[2] - x[2] // 2] + x[3:]] + inner[j + 1:])
                for inn in cands:
                    c = dict(case)
                    c["ops"] = ops[:i] + [o[:3] + [inn]] + ops[i + 1:]
                    res.append(c)
        res += Property.shrink_candidates(self, case)
        # heavy histories cost seconds each in Coq: try only a few candidates per round
        if self._weight(case) > 4000:
            return res[:vlib.NCPU]
        return res[:200]

    def describe_failure(self, case, obs):
        k = case["kind"]
        what = {
            "window": "RollingWindow.Reduce did not return exactly the values added in the last `size` intervals",
            "safemap": "SafeMap answered differently from a plain map",
            "queue": "Queue did not behave as a FIFO",
            "ring": "Ring.Take did not return the last n elements in order",
            "set": "Set answered differently from the mathematical set decided by the last Add/Remove of each key",
            "cache": "Cache returned a stale/lost value, exceeded its limit, evicted a key other than the least recently used, or called the loader on a hit",
            "cache_rt": "Cache entry outlived its expiry window, expired early, or was lost",
            "cachew": "Cache entry driven by its timing wheel was not present exactly until the floor(expiry/interval)-th tick after its last Set",
            "cache_take2": "two concurrent Takes of one key were not equivalent to one load: loader ran twice, the second caller got another value, or more than one entry / eviction",
            "window_gate": "a Reduce overlapping Adds of another goroutine was shown buckets that are the Reduce of no single "
                           "window state (neither the window before the Adds nor after any of them)",
            "stress": "goroutines using disjoint keys of one %s (each answer is determined whatever the interleaving; window: "
                      "commutative Adds) saw answers that no sequential run gives: updates were lost, the structure was "
                      "corrupted, or the process died" % case.get("obj"),
            "lin": "free-running goroutines on one %s: the observed results have no explanation as a sequential run consistent "
                   "with the real-time order of the calls (or a goroutine panicked / never returned)" % case.get("obj"),
        }.get(k, "property check failed")
        if obs.get("err"):
            what += " (implementation error: %s)" % obs["err"]
        return what


PROPERTY = C16()
