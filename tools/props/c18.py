"""C18 — authentication gates (JWT authorize, content security, cryption)."""
import json
import re

import vlib
from runner import Property, ExecError
from vlib import cz, clist, cbool, copt

import c18consts

# extracted from the Go sources (same extraction as coq/gen/C18Consts.v): the verified methods get
# identifiers 1..n, the registered claims 1..n, in source order (GenProofs.v ties n to the model)
try:
    _C = c18consts.extract()
except Exception:  # reported by regen() as a broken obligation
    _C = {"verified_methods": ["DELETE", "GET", "POST", "PUT"], "maxBytes": 1 << 20,
          "registered_claims": ["aud", "exp", "jti", "iat", "iss", "nbf", "sub"]}
# Identifiers used by the MODEL and by prop_ok are those of the property, committed here, never taken from the tree under
# test: DELETE/GET/POST/PUT = 1..4 (Model.checked; the methods the unchanged tree verifies, = F9_VERIFIED below) and the seven
# registered claim names = 1..7 (Model.is_std, k_exp = 2, k_iat = 4, k_nbf = 6).  The lists extracted from the source go to
# coq/gen/C18Consts.v, where GenProofs.v checks their size and distinctness: a reordered case list is harmless, a dropped
# or added entry breaks the obligation AND shows as a failing request here (an unsigned PUT that runs, an `iss` claim in
# the handler's context).
CHECKED = ["DELETE", "GET", "POST", "PUT"]
OTHER_METHODS = [m for m in ["PATCH", "HEAD", "OPTIONS", "TRACE", "get", "CONNECT", "PURGE", "options", "DELETE", "PUT"]
                 if m not in CHECKED][:8]
STD = {"aud": 1, "exp": 2, "jti": 3, "iat": 4, "iss": 5, "nbf": 6, "sub": 7}
MAXBYTES = _C["maxBytes"]
ALG = {"HS256": "HS256", "HS384": "HS384", "HS512": "HS512", "none": "ANone", "asym": "AAsym", "unknown": "AUnknown"}
ALGID = {"HS256": 1, "HS384": 2, "HS512": 3}
INT_RE = re.compile(r"^-?\d+$")

# ---- the rest of the request: HTTP methods and header fields that SOME layer may special-case ----------------------
# (BUILDING-ROUND3 classes 13 "names as inputs" and 2 "cross product"; seeded/C18-10).  The gates must give the same
# answer for every method and whatever else the request carries.
ROUTER_METHODS = ["GET", "POST", "PUT", "PATCH", "DELETE", "HEAD", "OPTIONS"]     # router.validMethod
ALL_METHODS = ROUTER_METHODS + ["CONNECT", "TRACE", "PURGE", "options"]           # + a custom one and a case variant
# fixed identifiers (Model.v: m_options; the verified methods are 1..n): every other method is >= 100002
METHOD_ID = {"OPTIONS": 100001, "HEAD": 100002, "PATCH": 100003, "CONNECT": 100004, "TRACE": 100005}
HDR_ID = {"Origin": 1, "Access-Control-Request-Method": 2}                        # Model.v: h_origin, h_acrm
_TOK = "eyJhbGciOiJIUzI1NiJ9.e30.AAAA"
XH = {
    "preflight": [["Origin", "https://app.example"], ["Access-Control-Request-Method", "POST"]],
    "preflight_h": [["Origin", "https://app.example"], ["Access-Control-Request-Method", "DELETE"],
                    ["Access-Control-Request-Headers", "authorization, content-type, x-content-security"]],
    "preflight_null": [["Origin", "null"], ["Access-Control-Request-Method", "OPTIONS"]],
    "origin_only": [["Origin", "https://app.example"]],
    "acrm_only": [["Access-Control-Request-Method", "GET"]],
    "cors_empty": [["Origin", ""], ["Access-Control-Request-Method", ""]],
    "cors_raw": [["raw:origin", "https://app.example"], ["raw:access-control-request-method", "POST"]],
    "websocket": [["Upgrade", "websocket"], ["Connection", "Upgrade"], ["Sec-Websocket-Key", "dGhlIHNhbXBsZSBub25jZQ=="],
                  ["Sec-Websocket-Version", "13"]],
    "h2c": [["Upgrade", "h2c"], ["Connection", "Upgrade, HTTP2-Settings"], ["Http2-Settings", "AAMAAABkAAQCAAAAAAIAAAAA"]],
    "sse": [["Accept", "text/event-stream"], ["Content-Type", "text/event-stream"], ["Cache-Control", "no-cache"],
            ["Last-Event-Id", "7"]],
    "ctype_json": [["Content-Type", "application/json; charset=utf-8"], ["Accept", "application/json"]],
    "ctype_form": [["Content-Type", "application/x-www-form-urlencoded"]],
    "ctype_multipart": [["Content-Type", "multipart/form-data; boundary=xyz"]],
    "ctype_plain": [["Content-Type", "text/plain"], ["Content-Encoding", "identity"]],
    "proxy": [["X-Forwarded-For", "127.0.0.1"], ["X-Forwarded-Proto", "https"], ["X-Forwarded-Host", "internal.local"],
              ["X-Forwarded-Port", "443"], ["X-Real-Ip", "127.0.0.1"], ["Forwarded", "for=127.0.0.1;proto=https"],
              ["Via", "1.1 gateway"]],
    "override": [["X-Http-Method-Override", "GET"], ["X-Http-Method", "GET"], ["X-Method-Override", "OPTIONS"],
                 ["X-Original-Method", "GET"], ["X-Original-Url", "/public"], ["X-Rewrite-Url", "/public"]],
    "conditional": [["If-None-Match", "*"], ["If-Match", "\"abc\""], ["If-Modified-Since", "Wed, 21 Oct 2015 07:28:00 GMT"],
                    ["If-Unmodified-Since", "Wed, 21 Oct 2015 07:28:00 GMT"], ["If-Range", "\"abc\""],
                    ["Range", "bytes=0-0"], ["Expect", "100-continue"]],
    "authlike": [["Proxy-Authorization", "Bearer " + _TOK], ["X-Authorization", "Bearer " + _TOK], ["X-Auth-Token", _TOK],
                 ["X-Api-Key", "k"], ["Cookie", "Authorization=Bearer " + _TOK + "; token=" + _TOK],
                 ["raw:authorization", "Bearer " + _TOK], ["raw:AUTHORIZATION", "Bearer " + _TOK],
                 ["Www-Authenticate", "Bearer"], ["Authorization-Info", "x"]],
    "probe": [["User-Agent", "kube-probe/1.29"], ["X-Health-Check", "1"], ["X-Internal", "true"], ["X-Debug", "1"],
              ["Host", "localhost"], ["Sec-Fetch-Mode", "cors"], ["Sec-Fetch-Site", "same-origin"], ["Te", "trailers"]],
    # only where the route has no signature option (there X-Content-Security IS the credential)
    "xcs": [["X-Content-Security", "key=A; secret=AAAA; signature=AAAA; time=1"], ["X-Request-Uri", "/public?x=1"]],
}
XH_ALL = [nv for k in XH if k not in ("xcs", "cors_empty", "cors_raw", "preflight", "preflight_null", "origin_only", "acrm_only")
          for nv in XH[k]]


# request targets that deployments commonly exempt from authentication somewhere (probes, docs, static files, login):
# behind the gate they are paths like any other
PATHS = ["/health", "/healthz", "/ping", "/ready", "/metrics", "/favicon.ico", "/robots.txt", "/.well-known/jwks.json",
         "/login", "/auth/refresh", "/public/x", "/static/app.js", "/swagger/index.html", "/debug/pprof/", "/ws", "/events",
         "/", "/private/../public", "/PRIVATE", "/private/"]
SRV_PATHS = ["/health", "/healthz", "/ping", "/metrics", "/favicon.ico", "/login", "/auth/refresh", "/public/x",
             "/static/app.js", "/swagger/index.html", "/ws", "/events", "/.well-known/jwks.json"]      # literal router paths
QUERIES = ["", "", "?token=" + _TOK, "?access_token=" + _TOK, "?jwt=" + _TOK + "&debug=1", "?Authorization=Bearer%20" + _TOK]


def go_clean(p):
    """Go's path.Clean, written here (the router looks routes up under path.Clean(r.URL.Path))"""
    if p == "":
        return "."
    rooted = p.startswith("/")
    segs = []
    for x in p.split("/"):
        if x in ("", "."):
            continue
        if x == "..":
            if segs and segs[-1] != "..":
                segs.pop()
            elif not rooted:
                segs.append("..")
        else:
            segs.append(x)
    out = ("/" if rooted else "") + "/".join(segs)
    return out or ("/" if rooted else ".")


def path_aliases(p):
    """other spellings of a clean path p: (text sent, does the router still find p's route).  Trailing slash, empty
    segments, "." and ".." segments (plain and percent-encoded), percent-encoded characters (decode to p itself), case."""
    head, _, last = p.rpartition("/")
    out = [(p + "/", True), ("/" + p, True), (p + "//", True), (p + "/.", True), (p + "/x/..", True), ("/." + p, True),
           ("/.." + p, True), ("/x/.." + p, True), (head + "//" + last, True), (head + "/./" + last, True),
           (head + "/zz/../" + last, True), (head + "/%2e/" + last, True), (p + "/%2E%2E/" + last, True),
           (p + "%2F", True), (p.upper(), p.upper() == p), (p[:1] + p[1:].capitalize(), p[1:].capitalize() == p[1:])]
    if last:
        out += [(head + "/%%%02X" % ord(last[0]) + last[1:], True), (head + "%2F" + last, True)]
    return [(a, ok) for a, ok in out if a != p and a.startswith("/")]


def canon_hdr(name):
    """the key net/http stores a header under (textproto.CanonicalMIMEHeaderKey for token names; "raw:x" = exactly x)"""
    if name.startswith("raw:"):
        return name
    return "-".join(w[:1].upper() + w[1:].lower() for w in name.split("-"))


def method_id(ids, m):
    """DELETE/GET/POST/PUT (the verified methods, regenerated) = 1..n, the well-known others fixed, the rest interned"""
    if m in CHECKED:
        return CHECKED.index(m) + 1
    return METHOD_ID.get(m) or 100010 + ids("m:" + m)


F9 = "F9-content-security-skips-other-methods"
# the methods the UNCHANGED tree verifies (committed with the known finding; never taken from the tree under test):
# F9 covers requests whose method is outside this set, and nothing else
F9_VERIFIED = ("DELETE", "GET", "POST", "PUT")
XURI = "content-security-x-request-uri-overrides-path"


def jd(o):
    return json.dumps(o, separators=(",", ":"))


def hexbytes(h):
    return clist([str(b) for b in bytes.fromhex(h)])


def strbytes(s):
    return clist([str(ord(ch) & 255) for ch in s])


class Intern:
    def __init__(self, start=1):
        self.d = {}
        self.n = start

    def __call__(self, s):
        if s not in self.d:
            self.d[s] = self.n
            self.n += 1
        return self.d[s]


def res_term(s):
    if s is None or s == "":
        return None
    if s == "err":
        return "Err"
    if s == "panic":
        return "Panic"
    if s.startswith("ok:"):
        return "(Ok %s)" % hexbytes(s[3:])
    return "(Ok %s)" % hexbytes(s)


class C18(Property):
    id = "C18"
    title = "Authentication gates: protected handlers run only for valid credentials"
    quick_cases = 500
    thorough_cases = 9000
    design_ref = "DESIGN.md §6/C18"
    proof_targets = ["theories/C18/Props.vo", "theories/C18/Pinned.vo", "theories/C18/GenProofs.vo",
                     "theories/C18/ProofsCheck.vo"]
    level_text = ("Unbounded Rocq theorems over decision models with abstract cryptography (mac, RSA decryption per private key, "
                  "block permutation E/D, base64 codec as Section variables with explicit hypotheses): the JWT gate calls the "
                  "handler iff the token's signature is the HMAC under the current or previous secret with an HS method and "
                  "exp/nbf/iat hold now, whatever the hit-counter history and the reset setting, over every request sequence on "
                  "one middleware and every call sequence on one TokenParser with per-call secrets, and independently of the "
                  "request's HTTP method and other header fields (the whole request is the input); the error reported is 'none' "
                  "iff accepted; otherwise 401 and no context; every single-field mutation of a valid token is rejected unless it "
                  "is a mac collision. Strict content security calls the handler for DELETE/GET/POST/PUT only if the signature is "
                  "the MAC, under a key from a secret that decrypts under the private key that THE ROUTE GROUP'S OWN map gives for "
                  "the fingerprint, of exactly (timestamp within tolerance, method, path, query, body digest). Server level: for "
                  "every list of route groups with their own configurations, every request sequence: a handler runs only for "
                  "credentials valid for the configuration of the group that registered the route, with or without the CORS router "
                  "(which answers OPTIONS itself); groups are isolated. PKCS#7 "
                  "pad/unpad and ECB round-trip for every payload, bodies with known or unknown length reach the handler "
                  "decrypted, the response is encrypted. prop_ok's executable specifications are proved sound and complete "
                  "w.r.t. the theorem predicates (ProofsCheck.v). Tied to the Go code by differential execution through "
                  "httptest / real rest.Server instances with Go's own crypto recomputing every credential.")
    level_note = ("Trusted: Coq kernel + vm_compute; hand-written models; golang-jwt/v4 (segment/JSON parsing, alg registry), "
                  "Go crypto and encoding/base64; unforgeability of HMAC/RSA/AES is a computational assumption, the theorems "
                  "carry explicit no-collision hypotheses. Known findings: F9 (methods other than DELETE/GET/POST/PUT are not "
                  "verified), X-Request-Uri overrides the signed path/query. Fixed: F16 unpad, bodies of unknown length (f372be8).")
    rule = ("jwt: 3-11 requests through one Authorize middleware (secret, optional previous secret; no / recording / status-"
            "writing unauthorized callback), each a valid token or one of ~75 mutation classes, plus replays of the same raw "
            "token at other times; tp: 4-12 calls on one token.TokenParser with per-call (secret, prevSecret), with or without "
            "history reset; cs/crypt: one signed (optionally AES-ECB encrypted) request with at most two mutations out of ~70 "
            "classes, through the Limit* handlers or their default-limit wrappers; eng: the same request to one route of a real "
            "rest.Server with 6 route groups sharing one configuration (prefixes, path variables, public siblings, server.Use); "
            "srv: a real rest.Server with 2-5 route groups each with its OWN JWT secrets / signature keys (fingerprint -> key "
            "file, possibly the same fingerprint for different files) / strictness / tolerance, sometimes a configuration that "
            "must not start, and 3-8 requests each aimed at one group with credentials made for any group; big: cryption round "
            "trip for payload sizes 0..1 MiB (seed, length) in both directions, response written in pieces, judged by an "
            "independent stdlib client; enumerated (every run): every encoding-level edit of the signature attribute (each of "
            "its 44 characters x alphabet neighbours in bit 1/2/4, padding, other alphabet, CR/LF/space/tab/NUL/garbage "
            "inserted, case, percent-encoding, deletion), of the secret and fingerprint attributes and of the three JWT "
            "segments; matrix (every run): every HTTP method x a vocabulary of header fields / request targets some layer may "
            "special-case (CORS pre-flight shapes, Upgrade, SSE, X-Forwarded-*, method overrides, conditional headers, "
            "authorization look-alikes, probe paths, token-bearing queries) x token state, through the bare middleware, a "
            "TokenParser, real rest.Server route binding for all 7 router methods with and without rest.WithCors, the bare "
            "content-security and cryption handlers; size limit at its boundary for bodies of known and unknown length; hdr: one header "
            "string through httpx.ParseHeader. non-trivial = jwt/tp case with both an accepted and a rejected token that parses, "
            "cs case whose secret decrypts, crypt case whose body is valid base64, srv case with >= 2 protected groups and both "
            "an accepted and a rejected request; distinct = canonical JSON hash of the case")
    trusted_base = [
        "models theories/C18/{Model,Server,Header}.v are hand-written; tie = correspondence run (harness/cmd/c18) on generated requests",
        "golang-jwt/jwt/v4 v4.5.2: token splitting, base64url/JSON decoding, alg registry, ValidationError bits, "
        "jwt.TimeFunc used as virtual clock; whole-second comparison of numeric time claims (floor, recomputed by the harness)",
        "Go crypto/hmac, crypto/rsa, crypto/aes, crypto/sha256, encoding/base64 (harness recomputes credentials with them)",
        "harness classification of the bytes it sent (harness/cmd/c18/main.go: classify, buildCSReq, codecExtras) and the "
        "interning of strings to identifiers in tools/props/c18.py",
        "content security reads time.Now(): the harness uses the wall clock second (retried / started early in a second, "
        "a request during which the second changes is not compared)",
        "eng/srv cases run a real rest.Server (engine.bindRoutes binds onto our router; Start fails on an invalid port "
        "right after binding, nothing listens); routes of srv cases are literal paths",
        "constants and the unknown-length flag are re-extracted by tools/c18consts.py (regex over the Go declarations) "
        "into coq/gen/C18Consts.v",
        "ParseHeader model covers ASCII white space only",
    ]
    assumptions = [
        "HMAC, RSA-PKCS1v15 and AES are abstract functions; unforgeability is a computational assumption (explicit "
        "no-collision hypotheses in the mutation theorems)",
        "strings.Join(ts, method, path, query, digest) with newline separators is injective (only the path may contain a newline)",
        "numeric time claims are JSON numbers of magnitude < 1e15 (beyond that float64 -> int64 conversion in jwt is not modelled)",
        "the 24 h reset of TokenParser.history is modelled as a flag (period over / not over), not as a clock",
    ]

    # ------------------------------------------------------------------ translators
    def regen(self, ctx):
        return c18consts.regen()

    # ------------------------------------------------------------------ build
    def prepare(self, ctx):
        ok, res = vlib.go_build("c18")
        self.bin = res if ok else None
        return ok, ("" if ok else res)

    # ------------------------------------------------------------------ corpus
    def corpus(self):
        hs = jd({"alg": "HS256", "typ": "JWT"})
        pay = jd({"exp": 2000, "uid": 7, "iss": "me", "name": "bob"})
        k16 = "0123456789abcdef"
        base = {"method": "POST", "path": "/a", "query": "x=1", "body": "hello", "aeskey": k16, "fp": "A", "rsa": "A",
                "hdr": "normal", "resp": "world"}

        def cs(strict=True, tol=100, keys=("A",), wrap=False, limit=None, **kw):
            r = dict(base)
            r.update(kw)
            c = {"kind": "cs", "strict": strict, "tol": tol, "keys": list(keys), "req": r, "wrap": wrap}
            if limit is not None:
                c["limit"] = limit
            return c

        def jr(**kw):
            r = {"now": 1000, "auth": "bearer", "header": hs, "payload": pay, "signkey": "s1", "signalg": "HS256"}
            r.update(kw)
            return r
        # the case terms are evaluated in Coq in contiguous shards: the few heavy srv cases of the matrix are spread
        # among the many light enumerated ones so that no shard gets them all
        mx, en = self._matrix_cases(), self._enum_cases()
        heavy = [c for c in mx if c["kind"] == "srv"]
        head = [c for c in mx if c["kind"] != "srv"]
        step = max(1, len(en) // (len(heavy) + 1))
        for i, c in enumerate(heavy):
            en.insert(min(len(en), (i + 1) * step + i), c)
        return head + en + [
            {"kind": "jwt", "secret": "s1", "prev": "s0", "reqs": [
                jr(), jr(signkey="s0"), jr(now=2000), jr(now=1999),
                jr(mut=[{"op": "hdr", "s": jd({"alg": "none"})}, {"op": "sigempty"}]),
                jr(mut=[{"op": "siglast"}], auth="noprefix"), jr(signkey="")]},
            {"kind": "jwt", "secret": "s1", "prev": "", "reqs": [jr(signkey=""), jr(), jr(auth="missing")]},
            # F9
            cs(method="PATCH", hdr="missing"),
            # X-Request-Uri overrides the signed path
            cs(path="/admin/all", query="y=2", spath="/a", squery="x=1", xuri="/a?x=1"),
            # F16 (fixed): signed, type=1, body "\n"; empty payload; block-aligned payloads
            cs(enc=True, bodyraw="\n"),
            cs(enc=True, body=""),
            cs(enc=True, body="0123456789abcdef", resp="0123456789abcdef0123456789abcdef"),
            {"kind": "crypt", "req": dict(base, enc=True, body="", resp="")},
            {"kind": "crypt", "req": dict(base, enc=True, bodyraw="\r\n")},
            # unknown length
            {"kind": "crypt", "req": dict(base, enc=True, chunked=True)},
            cs(enc=True, chunked=True),
            # the size limit at its boundary for a body of UNKNOWN length (mutation sweep m042: LimitReader(limit - 1)):
            # wire = 24 characters (one AES block); limit = wire: decrypted; wire - 1: 400; wire + 1: decrypted
            {"kind": "crypt", "req": dict(base, enc=True, chunked=True), "limit": 24},
            {"kind": "crypt", "req": dict(base, enc=True, chunked=True), "limit": 23},
            {"kind": "crypt", "req": dict(base, enc=True, chunked=True), "limit": 25},
            {"kind": "crypt", "req": dict(base, enc=True), "limit": 24}, {"kind": "crypt", "req": dict(base, enc=True), "limit": 23},
            cs(enc=True, chunked=True, limit=24), cs(enc=True, chunked=True, limit=23),
            self._big(16, 5, 5, chunked=True, limit=24), self._big(17, 5, 5, chunked=True, limit=23),
            self._big(18, 32768, 5, chunked=True, limit=43712), self._big(19, 32768, 5, chunked=True, limit=43711),
            self._big(20, 32768, 5, limit=43712), self._big(21, 40000, 16, via="cs", chunked=True, limit=53356),
            # seeded/C18-2 by construction: a header correctly signed for an EMPTY body, a chunked body appended to it
            cs(enc=False, chunked=True, sbody="", body="appended by a man in the middle"),
            cs(enc=False, chunked=True, sbody="", body="x", method="PUT"),
            # seeded/C18-8 by construction: a REJECTED token whose payload decodes and has a claim the next, accepted,
            # token has not: nothing of it may be in the handler's context (the executor looks for earlier tokens' names)
            {"kind": "jwt", "secret": "s1", "prev": "", "cb": 0, "reqs": [
                jr(payload=jd({"exp": 2000, "admin": True, "tenant": "evil"}), signkey="wrong-secret"),
                jr(payload=jd({"exp": 2000, "uid": 7})),
                jr(payload=jd({"exp": 10, "role": "root"})), jr(payload=jd({"exp": 2000, "uid": 8})),
                jr(payload=jd({"exp": 2000, "scope": "all"}), mut=[{"op": "hdr", "s": jd({"alg": "none"})}]),
                jr(payload=jd({"exp": 2000}))]},
            # window edges
            cs(tol=5, toff=5), cs(tol=5, toff=-5), cs(tol=5, toff=6), cs(tol=5, toff=-6),
            # payload sizes across the 32 KiB / 64 KiB / base64-group boundaries, both directions, one Write and pieces
            self._big(1, 5, 32768), self._big(2, 5, 40000), self._big(3, 5, 70000), self._big(4, 5, 200000, piece=7777),
            self._big(5, 5, 98304), self._big(6, 5, 32767), self._big(7, 5, 65537, piece=4096, flush=True),
            self._big(8, 32768, 5), self._big(9, 65537, 49, via="cs"), self._big(10, 70000, 70000, via="cs", chunked=True),
            self._big(11, 1 << 20, 16, limit=8 << 20), self._big(12, 16, 1 << 20, piece=32768), self._big(13, 1 << 20, 0, limit=1 << 20),
            self._big(14, 0, 0), self._big(15, 100000, 100000, piece=1, keylen=32),
            # the timestamp over its integer domain, correctly signed: ms instead of s, 2^31, 2^32, 2^40, 2^53, 2^62, the
            # int64 extremes, ~292 years ahead (where a Duration in ns saturates), 0, negative
            cs(tsfmt="ms"), cs(tsraw="20000000000"), cs(tsraw=str(2 ** 31)), cs(tsraw=str(2 ** 32 + 1)), cs(tsraw=str(2 ** 40)),
            cs(tsraw=str(2 ** 53 + 1)), cs(tsraw=str(2 ** 62)), cs(tsraw=str(2 ** 63 - 1)), cs(tsraw=str(-2 ** 63)),
            cs(tsraw="9160000000000000000"), cs(tsraw="0"), cs(tsraw="-1"), cs(toff=292 * 31536000), cs(toff=293 * 31536000),
            cs(toff=-293 * 31536000), cs(tsfmt="plus"), cs(tsfmt="zeros"), cs(tsfmt="space"), cs(tol=5, toff=5, tsfmt="plus"),
            # secret attribute that is not base64 / spans several RSA blocks / made by go-zero's own encrypter
            cs(rsa="notb64"), cs(secpad=200), cs(secpad=150, gzenc=True), cs(gzenc=True, enc=True),
            # lying Content-Length on an encrypted body, response under an unusable key, flush/hijack through the cryption writer
            {"kind": "crypt", "req": dict(base, enc=True, clenadd=4)}, {"kind": "crypt", "req": dict(base, enc=True, clenadd=-4)},
            {"kind": "crypt", "req": dict(base, method="GET", body="", enc=False, aeskey="short")},
            {"kind": "crypt", "req": dict(base, enc=True, flush=True), "wrap": True},
            cs(enc=True, flush=True, wrap=True),
            # the same raw token on one middleware: valid, then after exp; an expired token signed with the previous
            # secret after the current one has more hits (the reported error shows the order of attempts)
            {"kind": "jwt", "secret": "s1", "prev": "s0", "cb": 1, "reqs": [
                jr(), jr(), jr(signkey="s0"), jr(now=2000), jr(now=2000, signkey="s0"), jr(signkey="s0"), jr(signkey="s0"),
                jr(signkey="s0"), jr(now=2000), jr(now=2000, signkey="s0")]},
            {"kind": "jwt", "secret": "s1", "prev": "s0", "cb": 2, "reqs": [jr(now=2000), jr(), jr(auth="missing")]},
            {"kind": "tp", "reset": True, "calls": [
                {"secret": "s1", "prev": "s0", "req": jr()}, {"secret": "s1", "prev": "s0", "req": jr()},
                {"secret": "s1", "prev": "s0", "req": jr(now=2000)}, {"secret": "s0", "prev": "s1", "req": jr(now=2000)},
                {"secret": "s2", "prev": "", "req": jr()}, {"secret": "s2", "prev": "s1", "req": jr()}]},
            {"kind": "tp", "reset": False, "calls": [
                {"secret": "s1", "prev": "s0", "req": jr()}, {"secret": "s1", "prev": "s0", "req": jr()},
                {"secret": "s1", "prev": "s0", "req": jr(now=2000)}, {"secret": "s1", "prev": "s0", "req": jr(signkey="s0", now=2000)}]},
        ]

    # ------------------------------------------------------------------ method x headers x token state, ENUMERATED
    def _matrix_cases(self):
        """The gates judged for EVERY HTTP method x the vocabulary of request headers some layer may special-case x
        token / signature state, by construction in every run (first in the quick tier): through the bare Authorize
        middleware and TokenParser, through real rest.Server route binding with and without rest.WithCors (routes
        registered for every method the router accepts, JWT-only / JWT+signature / signature-only groups), through the
        bare content-security and cryption handlers.  (seeded/C18-10: Authorize lets an OPTIONS request with Origin and
        Access-Control-Request-Method through before the token is parsed.)"""
        import random
        hs = jd({"alg": "HS256", "typ": "JWT"})
        now = 1000

        def jr(state, method="GET", xh=()):
            q = {"now": now, "auth": "bearer", "header": hs, "payload": jd({"exp": 2000, "uid": 7, "iss": "me"}), "signkey": "s1",
                 "signalg": "HS256", "mut": [], "cls": "mx:" + state, "method": method, "xh": [list(x) for x in xh]}
            if state == "absent":
                q["auth"] = "missing"
            elif state == "expired":
                q["payload"] = jd({"exp": 999, "uid": 7})
            elif state == "wrong":
                q["signkey"] = "not-the-secret"
            elif state == "prev":
                q["signkey"] = "s0"
            elif state == "malformed":
                q["mut"] = [{"op": "rawtoken", "s": "abc.def"}]
            elif state == "none":
                q["header"], q["signalg"] = jd({"alg": "none", "typ": "JWT"}), "none"
            elif state == "empty":
                q["auth"] = "empty"
            return q
        states = ["absent", "valid", "expired", "wrong", "prev", "malformed"]
        both = XH["websocket"] + XH["sse"]
        bundles = {"none": [], "preflight": XH["preflight"], "preflight_h": XH["preflight_h"], "preflight_null": XH["preflight_null"],
                   "origin_only": XH["origin_only"], "acrm_only": XH["acrm_only"], "cors_empty": XH["cors_empty"],
                   "cors_raw": XH["cors_raw"], "ws+sse": both, "h2c+ctype": XH["h2c"] + XH["ctype_json"] + XH["ctype_multipart"],
                   "proxy+override": XH["proxy"] + XH["override"], "cond+auth+probe": XH["conditional"] + XH["authlike"] + XH["probe"],
                   "xcs": XH["xcs"], "all": XH_ALL + XH["preflight"]}
        out = []
        # (a) the bare Authorize middleware: OPTIONS with every bundle, every other method with three of them
        reqs = [jr(st, "OPTIONS", xh) for xh in bundles.values() for st in states]
        for m in ALL_METHODS:
            if m != "OPTIONS":
                reqs += [jr(st, m, bundles[b]) for b in ("preflight_h", "all") for st in ("absent", "valid", "expired", "wrong")]
        for i in range(0, len(reqs), 18):
            out.append({"kind": "jwt", "secret": "s1", "prev": "s0", "cb": 1, "reqs": reqs[i:i + 18]})
        treqs = [dict(jr(st, m), target=pth + qs) for pth in PATHS for qs in (QUERIES[0], QUERIES[2])
                 for st, m in (("absent", "GET"), ("expired", "GET"), ("valid", "POST"), ("wrong", "HEAD"))]
        for i in range(0, len(treqs), 20):
            out.append({"kind": "jwt", "secret": "s1", "prev": "s0", "cb": 1, "reqs": treqs[i:i + 20]})
        out.append({"kind": "jwt", "secret": "s1", "prev": "", "cb": 0, "reqs": [
            jr(st, "OPTIONS", bundles[b]) for b in ("preflight", "preflight_h") for st in ("absent", "expired", "wrong", "malformed", "none", "empty", "valid")]})
        # (b) one TokenParser
        out.append({"kind": "tp", "reset": False, "calls": [
            {"secret": "s1", "prev": "s0", "req": jr(st, m, bundles[b])}
            for m in ("OPTIONS", "CONNECT") for b in ("preflight_h", "all") for st in ("absent", "valid", "expired", "wrong")]})
        # (c) a real rest.Server: one route per routable method in a JWT group, a JWT + strict signature group and a
        #     strict signature group; without and with the CORS router in front
        rng = random.Random(1810)
        jnow = 1700000000
        sec, prev = self.SRV_SECRETS[0], self.SRV_SECRETS[1]

        def sj(state):
            q = jr(state)
            q["now"] = jnow
            q["payload"] = jd({"exp": jnow + (-1 if state == "expired" else 1000), "uid": 7})
            q["signkey"] = {"wrong": "not-the-secret", "prev": prev}.get(state, sec)
            return q
        groups = [
            {"jwt": {"secret": sec, "prev": prev}, "sig": None, "routes": [[m, "/m/one"] for m in ROUTER_METHODS], "opts": []},
            {"jwt": {"secret": sec, "prev": ""}, "sig": {"strict": True, "tol": 100, "keys": [{"fp": "fa", "file": "A"}]},
             "routes": [[m, "/ms/one"] for m in ROUTER_METHODS], "opts": []},
            {"jwt": None, "sig": {"strict": True, "tol": 100, "keys": [{"fp": "fb", "file": "B"}]},
             "routes": [[m, "/s/one"] for m in ROUTER_METHODS], "opts": []},
        ]
        for cors, bname in (("", "preflight_h"), ("", "all"), ("all", "preflight_h")):
            if True:
                sreqs = []
                for m in ROUTER_METHODS:
                    def cs(path, fp, rsa, hdr):
                        r = self._cs_req(rng, False)
                        r.update({"method": m, "path": path, "query": "x=1", "toff": 0, "enc": False, "body": "hello", "fp": fp,
                                  "rsa": rsa, "hdr": hdr, "xh": [list(x) for x in bundles[bname]]})
                        return r
                    for st in ("absent", "valid", "expired", "wrong"):
                        sreqs.append({"tgt": 0, "donor": 0, "j": sj(st), "cs": cs("/m/one", "fa", "A", "missing"), "clean": False})
                    sreqs.append({"tgt": 1, "donor": 1, "j": sj("absent"), "cs": cs("/ms/one", "fa", "A", "normal"), "clean": False})
                    sreqs.append({"tgt": 1, "donor": 1, "j": sj("valid"), "cs": cs("/ms/one", "fa", "A", "missing"), "clean": False})
                    sreqs.append({"tgt": 2, "donor": 2, "j": None, "cs": cs("/s/one", "fb", "B", "nosig"), "clean": False})
                    if m in ("POST", "GET"):
                        # seeded/C18-3 by construction: correctly signed with the OTHER signature group's fingerprint
                        # and key; and with this group's own
                        sreqs.append({"tgt": 2, "donor": 1, "j": None, "cs": cs("/s/one", "fa", "A", "normal"), "clean": False})
                        sreqs.append({"tgt": 1, "donor": 2, "j": sj("valid"), "cs": cs("/ms/one", "fb", "B", "normal"), "clean": False})
                        sreqs.append({"tgt": 2, "donor": 2, "j": None, "cs": cs("/s/one", "fb", "B", "normal"), "clean": False})
                gs = json.loads(json.dumps(groups))
                if bname == "preflight_h" and cors == "":
                    # seeded/C18-11 class: EVERY other spelling of the route's path that the router maps onto the same route
                    # (and two it does not), correctly signed for the canonical spelling: 403 (404), handler not called;
                    # signed for the spelling sent: a signed request
                    for m, path, tgt, fp, rsa, tok in (("POST", "/s/one", 2, "fb", "B", None), ("GET", "/ms/one", 1, "fa", "A", "valid")):
                        for alias, _ in path_aliases(path):
                            r = self._cs_req(rng, False)
                            r.update({"method": m, "path": alias, "spath": path, "query": "x=1", "toff": 0, "enc": False, "body": "hello",
                                      "fp": fp, "rsa": rsa, "hdr": "normal", "xh": []})
                            sreqs.append({"tgt": tgt, "donor": tgt, "j": sj(tok) if tok else None, "cs": r, "clean": False})
                        for alias in (path + "/", "/" + path, path.replace("/one", "/./one")):
                            r = self._cs_req(rng, False)
                            r.update({"method": m, "path": alias, "query": "x=1", "toff": 0, "enc": False, "body": "hello",
                                      "fp": fp, "rsa": rsa, "hdr": "normal", "xh": []})
                            sreqs.append({"tgt": tgt, "donor": tgt, "j": sj(tok) if tok else None, "cs": r, "clean": False})
                    # the method in another case is another method (405), the query in another order / encoding another query
                    for m2, q2, sq2 in (("post", "x=1", None), ("POST", "y=2&x=1", "x=1&y=2"), ("POST", "x=%31", "x=1"), ("POST", "x=1&", "x=1")):
                        r = self._cs_req(rng, False)
                        r.update({"method": m2, "path": "/s/one", "query": q2, "toff": 0, "enc": False, "body": "hello",
                                  "fp": "fb", "rsa": "B", "hdr": "normal", "xh": []})
                        if sq2 is not None:
                            r["squery"] = sq2
                        sreqs.append({"tgt": 2, "donor": 2, "j": None, "cs": r, "clean": False})
                if bname == "all":
                    # a JWT group whose routes are the paths deployments like to exempt: no token / expired token -> 401
                    gs.append({"jwt": {"secret": sec, "prev": ""}, "sig": None, "routes": [["GET", pth] for pth in SRV_PATHS], "opts": []})
                    m = "GET"
                    for pth in SRV_PATHS:
                        for st in ("absent", "expired"):
                            r = self._cs_req(rng, False)
                            r.update({"method": "GET", "path": pth, "query": "", "toff": 0, "enc": False, "body": "", "hdr": "missing",
                                      "xh": [list(x) for x in bundles["cond+auth+probe"]]})
                            sreqs.append({"tgt": 3, "donor": 3, "j": sj(st), "cs": r, "clean": False})
                out.append({"kind": "srv", "parallel": False, "outer": bname == "all", "cors": cors,
                            "sgroups": gs, "sreqs": sreqs, "uacb": True, "uscb": False,
                            "usemw": bname != "none", "natives": False})
        # (d) the single-configuration engine cases (prefixes, public siblings of the protected routes)
        k = 0
        for m in ("OPTIONS", "HEAD", "PATCH", "GET"):
            for cors in ("", "all"):
                for tgt in ("jwt", "both"):
                    for st in ("absent", "valid"):
                        k += 1
                        out.append(self._eng_case(random.Random(1810 + k), force={
                            "method": m, "cors": cors, "tgt": tgt, "xh": bundles["preflight_h"], "jstate": st}))
        for st in ("expired", "wrong", "malformed", "none"):
            k += 1
            out.append(self._eng_case(random.Random(1810 + k), force={
                "method": "OPTIONS", "cors": "", "tgt": "jwt", "xh": bundles["preflight"], "jstate": st}))
        for i in range(16):
            k += 1
            out.append(self._eng_case(random.Random(1810 + k), force={
                "method": ("POST", "GET", "PUT", "DELETE")[i % 4], "cors": "", "tgt": "sig" if i % 3 else "both", "xh": [],
                "jstate": "valid", "alias": i, "alias_signed": i in (5, 11)}))
        # (e) the bare content-security handler (verified methods) and (f) the bare cryption handler (every method)
        k16 = "0123456789abcdef"
        base = {"path": "/a", "query": "x=1", "body": "hello", "aeskey": k16, "fp": "A", "rsa": "A", "resp": "world"}
        for m in CHECKED:
            for bname in ("preflight_h", "all"):
                for hdr, sigmut in (("normal", ""), ("missing", ""), ("normal", "flip")):
                    r = dict(base, method=m, hdr=hdr, xh=[list(x) for x in bundles[bname]])
                    if sigmut:
                        r["sigmut"] = sigmut
                    out.append({"kind": "cs", "strict": True, "tol": 100, "keys": ["A"], "req": r, "muts": ["mx"]})
        for m in ALL_METHODS:
            out.append({"kind": "crypt", "req": dict(base, method=m, hdr="normal", enc=True, xh=[list(x) for x in bundles["all"]]),
                        "muts": ["mx"]})
        return out

    # ------------------------------------------------------------------ encoding-level edits, ENUMERATED
    INS = ["\r", "\n", " ", "\t", "\x00", "==", "xyz"]

    def _edits_for(self, n, tail):
        """every encoding-level edit of a base64 text of n characters: for EVERY position the alphabet neighbours that
        differ in bit 1 / 2 / 4 (so the characters carrying unused trailing bits are always included), padding dropped /
        added, the other alphabet, CR / LF / space / tab / NUL / garbage at start / middle / end, case flips,
        percent-encoding, a deleted character"""
        es = [{"op": "lowbits", "pos": i, "k": k} for i in range(n) for k in (1, 2, 4)]
        es += [{"op": "droppad"}, {"op": "addpad"}, {"op": "swapalpha"}]
        for sx in self.INS:
            for pos in (0, n // 2, -1):
                es.append({"op": "ins", "pos": pos, "s": sx})
        for pos in (0, n // 2, tail, -1):
            es += [{"op": "case", "pos": pos}, {"op": "pct", "pos": pos}, {"op": "del", "pos": pos}]
        return es

    def _enum_cases(self):
        hs = jd({"alg": "HS256", "typ": "JWT"})
        k16 = "0123456789abcdef"
        base = {"method": "POST", "path": "/a", "query": "x=1", "body": "hello", "aeskey": k16, "fp": "A", "rsa": "A",
                "hdr": "normal", "resp": "world"}
        out = []

        def cs(**kw):
            r = dict(base)
            r.update(kw)
            return {"kind": "cs", "strict": True, "tol": 100, "keys": ["A"], "req": r, "muts": ["enum"]}
        # the signature attribute: base64 of a 32-byte MAC = 44 characters, character 42 carries 2 unused bits
        for e in self._edits_for(44, 42):
            out.append(cs(edits=[dict(e, field="sig")]))
        # the secret attribute: base64 of a 128-byte RSA block = 172 characters, character 170 carries 4 unused bits
        sec = [e for e in self._edits_for(172, 170) if e["op"] != "lowbits" or e["pos"] in (0, 1, 85, 168, 169, 170, 171)]
        for e in sec:
            out.append(cs(edits=[dict(e, field="secret")]))
        # the fingerprint
        for e in ({"op": "case", "pos": 0}, {"op": "lowbits", "pos": 0, "k": 1}, {"op": "lowbits", "pos": 0, "k": 2},
                  {"op": "pct", "pos": 0}, {"op": "ins", "pos": -1, "s": "\x00"}, {"op": "ins", "pos": -1, "s": "="},
                  {"op": "ins", "pos": 0, "s": " "}, {"op": "ins", "pos": -1, "s": " "}, {"op": "ins", "pos": -1, "s": "A"}):
            out.append(cs(edits=[dict(e, field="fp")]))
        # the timestamp: signed as canonical digits, carried in another spelling of the same number; attribute order
        for f in ("plus", "zeros", "space"):
            out.append(cs(tsfmt=f, signtsplain=True))
        out.append(cs(hdrfmt="reorder"))
        out.append(cs(hdrfmt="dupsig_bad_last"))
        out.append(cs(hdrfmt="dupsig_good_last"))

        # the JWT: every character of the signature segment (43 characters, the last carries 2 unused bits), and the
        # header / payload segments at their ends and middle
        def jr(mut):
            return {"now": 1000, "auth": "bearer", "header": hs, "payload": jd({"exp": 2000, "uid": 7}), "signkey": "s1",
                    "signalg": "HS256", "mut": [mut], "cls": "enum"}
        reqs = [jr({"op": "edit", "i": 2, "e": e}) for e in self._edits_for(43, 42)]
        for seg, n in ((0, 36), (1, 27)):
            es = [e for e in self._edits_for(n, n - 1) if e["op"] != "lowbits" or e["pos"] in (0, n // 2, n - 2, n - 1)]
            reqs += [jr({"op": "edit", "i": seg, "e": e}) for e in es]
        for i in range(0, len(reqs), 16):
            out.append({"kind": "jwt", "secret": "s1", "prev": "s0", "cb": 1, "reqs": reqs[i:i + 16]})
        return out

    # ------------------------------------------------------------------ generators
    def _rand_claims(self, rng, now):
        c = {}
        if rng.random() < 0.8:
            c["exp"] = now + rng.choice([1, 2, 60, 3600, 10 ** 6])
        if rng.random() < 0.4:
            c["nbf"] = now - rng.choice([0, 1, 60])
        if rng.random() < 0.4:
            c["iat"] = now - rng.choice([0, 1, 3600])
        for k, v in (("iss", "issuer"), ("sub", "subj"), ("aud", ["a", "b"]), ("jti", "id-1")):
            if rng.random() < 0.3:
                c[k] = v
        pool = [("uid", rng.randrange(10 ** 6)), ("name", rng.choice(["bob", "alice", ""])), ("admin", rng.choice([True, False])),
                ("roles", ["r", "w"]), ("meta", {"a": 1}), ("nil", None), ("ratio", 1.5), ("neg", -3),
                ("Exp", 1), ("expire", 5), ("", "emptykey")]
        for k, v in rng.sample(pool, rng.randint(0, 4)):
            c[k] = v
        return c

    def _jreq(self, rng, secret, prev, now):
        alg = rng.choice(["HS256", "HS256", "HS384", "HS512"])
        claims = self._rand_claims(rng, now)
        other = rng.choice([secret + "x", secret[:-1], secret.upper(), "other-secret", "", prev + "y"])
        q = {"now": now, "auth": "bearer", "header": jd({"alg": alg, "typ": "JWT"}), "payload": jd(claims),
             "signkey": secret, "signalg": alg, "mut": [], "cls": "valid"}
        raw = {}                       # time claims given as raw JSON number text
        cls = rng.choice([
            "valid", "valid", "valid", "prev", "prev", "wrong_secret", "empty_key", "expired", "exp_now", "exp_next",
            "exp_bad", "exp_zero", "nbf_future", "nbf_now", "iat_future", "iat_now", "iat_bad", "nbf_bad",
            "alg_none", "alg_none_sig", "alg_none_case", "alg_asym", "alg_asym_resigned", "alg_swap_hs", "alg_mismatch",
            "alg_missing", "alg_nonstring", "alg_unknown", "alg_lower", "payload_tamper", "payload_extend_exp",
            "sigflip", "sigtrunc", "sigext", "sigempty", "siglast", "garbage", "seg2", "seg4", "bad_b64_header",
            "bad_json_header", "payload_array", "payload_null", "header_null", "bad_b64_payload", "bad_b64_sig",
            "rawtoken", "missing", "empty", "auth_lower", "auth_upper", "auth_noprefix", "auth_basic", "dup_claim",
            "later", "earlier",
            # round 3: order-revealing rejections, fractional / exponent time claims, odd Authorization headers
            "expired_prev", "nbf_future_prev", "exp_float", "exp_float", "nbf_float", "iat_float", "time_exponent",
            "time_negative", "huge_claim", "dup_auth_after", "dup_auth_before", "auth_twospace", "auth_trailspace",
            "auth_leadspace", "auth_tab", "auth_mixed", "auth_beareronly", "auth_bearerbearer", "exp_numstring",
            "time_huge"])
        q["cls"] = cls
        m = q["mut"]
        if cls == "prev":
            q["signkey"] = prev if prev else "old-secret"
        elif cls == "wrong_secret":
            q["signkey"] = other if other not in (secret, prev) else "zzz"
        elif cls == "empty_key":
            q["signkey"] = ""
        elif cls == "expired":
            claims["exp"] = now - rng.choice([1, 2, 3600])
        elif cls == "exp_now":
            claims["exp"] = now
        elif cls == "exp_next":
            claims["exp"] = now + 1
        elif cls == "exp_bad":
            claims["exp"] = rng.choice([str(now + 1000), None, True, [now + 1000]])
        elif cls == "exp_zero":
            claims["exp"] = 0
        elif cls == "nbf_future":
            claims["nbf"] = now + rng.choice([1, 2, 3600])
        elif cls == "nbf_now":
            claims["nbf"] = now
        elif cls == "nbf_bad":
            claims["nbf"] = rng.choice(["0", None, False])
        elif cls == "iat_future":
            claims["iat"] = now + rng.choice([1, 2, 3600])
        elif cls == "iat_now":
            claims["iat"] = now
        elif cls == "iat_bad":
            claims["iat"] = rng.choice(["0", None, {}])
        elif cls == "alg_none":
            q["header"] = jd({"alg": "none", "typ": "JWT"})
            q["signalg"] = "none"
        elif cls == "alg_none_sig":
            m.append({"op": "hdr", "s": jd({"alg": "none", "typ": "JWT"})})
        elif cls == "alg_none_case":
            q["header"] = jd({"alg": rng.choice(["None", "NONE", "nOnE"]), "typ": "JWT"})
            q["signalg"] = rng.choice(["none", alg])
        elif cls == "alg_asym":
            m.append({"op": "hdr", "s": jd({"alg": rng.choice(["RS256", "ES256", "PS384", "EdDSA", "RS512"]), "typ": "JWT"})})
            if rng.random() < 0.5:
                m.append({"op": "sigempty"})
        elif cls == "alg_asym_resigned":
            # key confusion: header says RS256, signature is an HMAC with the secret
            q["header"] = jd({"alg": rng.choice(["RS256", "ES384", "PS256"]), "typ": "JWT"})
        elif cls == "alg_swap_hs":
            m.append({"op": "hdr", "s": jd({"alg": rng.choice([a for a in ALGID if a != alg]), "typ": "JWT"})})
        elif cls == "alg_mismatch":
            q["signalg"] = rng.choice([a for a in ALGID if a != alg])
        elif cls == "alg_missing":
            q["header"] = jd({"typ": "JWT"})
        elif cls == "alg_nonstring":
            q["header"] = jd({"alg": rng.choice([256, None, ["HS256"], True]), "typ": "JWT"})
        elif cls == "alg_unknown":
            q["header"] = jd({"alg": rng.choice(["HS999", "HS128", "", "HS256 ", "HMAC"]), "typ": "JWT"})
        elif cls == "alg_lower":
            q["header"] = jd({"alg": alg.lower(), "typ": "JWT"})
        elif cls == "payload_tamper":
            c2 = dict(claims)
            c2["uid"] = 1
            c2["admin"] = True
            m.append({"op": "pay", "s": jd(c2)})
        elif cls == "payload_extend_exp":
            claims["exp"] = now - 5
            c2 = dict(claims)
            c2["exp"] = now + 10 ** 6
            m.append({"op": "pay", "s": jd(c2)})
        elif cls == "sigflip":
            m.append({"op": "sigflip", "i": rng.randrange(512)})
        elif cls == "sigtrunc":
            m.append({"op": "sigtrunc", "i": rng.choice([0, 1, 8, 16, 31, 32, 47, 63])})
        elif cls == "sigext":
            m.append({"op": "sigext", "s": rng.choice(["\x00", "A", "ab"])})
        elif cls == "sigempty":
            m.append({"op": "sigempty"})
        elif cls == "siglast":
            m.append({"op": "siglast"})
        elif cls == "garbage":
            q["signalg"] = "garbage"
        elif cls == "seg2":
            m.append({"op": "dropseg"})
        elif cls == "seg4":
            m.append({"op": "addseg", "s": rng.choice(["", "AAAA"])})
        elif cls == "bad_b64_header":
            m.append({"op": "rawseg", "i": 0, "s": rng.choice(["!!!", "e30=", "a"])})
        elif cls == "bad_json_header":
            q["header"] = rng.choice(['{"alg":"HS256"', "[]", '"HS256"', "HS256"])
        elif cls == "payload_array":
            q["payload"] = rng.choice(["[]", "1", '"x"', "true"])
            claims = None
        elif cls == "payload_null":
            q["payload"] = "null"
            claims = None
        elif cls == "header_null":
            q["header"] = "null"
        elif cls == "bad_b64_payload":
            m.append({"op": "rawseg", "i": 1, "s": rng.choice(["***", "e30=", "A"])})
        elif cls == "bad_b64_sig":
            m.append({"op": "rawseg", "i": 2, "s": rng.choice(["***", "A", "AAAA="])})
        elif cls == "rawtoken":
            m.append({"op": "rawtoken", "s": rng.choice(["abc", ".", "..", "a.b.c", "e30.e30.", "Bearer x"])})
        elif cls == "missing":
            q["auth"] = "missing"
        elif cls == "empty":
            q["auth"] = "empty"
        elif cls in ("auth_lower", "auth_upper", "auth_noprefix", "auth_basic", "auth_twospace", "auth_trailspace",
                     "auth_leadspace", "auth_tab", "auth_mixed", "auth_beareronly", "auth_bearerbearer"):
            q["auth"] = cls[5:]
        elif cls == "expired_prev":
            # validly signed with the previous secret but expired: the error ParseToken reports shows
            # which secret was tried first
            q["signkey"] = prev if prev else secret
            claims["exp"] = now - rng.choice([0, 1, 3600])
        elif cls == "nbf_future_prev":
            q["signkey"] = prev if prev else secret
            claims["nbf"] = now + rng.choice([1, 60])
        elif cls == "exp_float":
            # jwt compares whole seconds: floor(exp)
            raw["exp"] = rng.choice(["%d.5" % now, "%d.5" % (now + 1), "%d.0" % (now + 1), "%d.0" % now,
                                     "%d.999999" % now, "%d.000001" % (now + 1), "%d.5" % (now - 1)])
        elif cls == "nbf_float":
            raw["nbf"] = rng.choice(["%d.5" % now, "%d.0" % now, "%d.0" % (now + 1), "%d.5" % (now - 1), "%d.000001" % now])
        elif cls == "iat_float":
            raw["iat"] = rng.choice(["%d.5" % now, "%d.0" % now, "%d.0" % (now + 1), "%d.999" % (now - 1)])
        elif cls == "time_exponent":
            k = rng.choice(["exp", "nbf", "iat"])
            raw[k] = rng.choice(["1e10", "1E3", "2.5e9", "1e0", "17e8", "0.0", "0e0", "1.7000000005e9"])
        elif cls == "time_negative":
            k = rng.choice(["exp", "nbf", "iat"])
            raw[k] = rng.choice(["-1", "-0.5", "-1e3", "-0"])
        elif cls == "time_huge":
            # beyond 2^53 (float64 rounds), up to 2^62; and the same negated
            k = rng.choice(["exp", "exp", "nbf", "iat"])
            year = 31536000
            raw[k] = rng.choice(["9007199254740993", "4611686018427387904", "1e18", "-9007199254740993", "-4e18",
                                 "4294967296", "2147483648", "1e15", "999999999999999.5", "2147483647", "2147483649",
                                 "4294967295", "4294967297", "1099511627776", "9007199254740991", "9007199254740992",
                                 str(now * 1000), str(now * 1000 + 999), str(now + year), str(now - year), "1", "-1", "0",
                                 str(now + 292 * year), str(now + 293 * year), "8900000000000000000", "-8900000000000000000"])
        elif cls == "exp_numstring":
            claims["exp"] = str(now + 1000)
        elif cls == "huge_claim":
            claims["blob"] = "x" * rng.choice([5000, 20000])
            claims["deep"] = {"a": {"b": {"c": [1, 2, {"d": None}]}}}
        elif cls == "dup_auth_after":
            q["auth2"] = "after"
        elif cls == "dup_auth_before":
            q["auth2"] = "before"
        elif cls == "dup_claim":
            q["payload"] = '{"exp":%d,"uid":1,"exp":%d,"uid":2}' % (now - 10, now + 100)
            claims = None
        elif cls == "later":
            q["now"] = now + rng.choice([1, 2, 59, 60, 61, 3600, 10 ** 6, 10 ** 6 + 1])
        elif cls == "earlier":
            q["now"] = now - rng.choice([1, 2, 60, 61, 3601])
        # the rest of the request (bare middleware / TokenParser: every method token; routes: see eng / srv)
        if rng.random() < 0.55:
            q["method"] = rng.choice(ALL_METHODS + ["OPTIONS", "OPTIONS"])
        q["xh"] = self._xh(rng)
        if rng.random() < 0.3:
            q["target"] = rng.choice(PATHS) + rng.choice(QUERIES)
        if claims is not None and cls != "dup_claim":
            for k, txt in raw.items():
                claims[k] = "@@RAW-%s@@" % k
            pl = jd(claims)
            for k, txt in raw.items():
                pl = pl.replace('"@@RAW-%s@@"' % k, txt)
            q["payload"] = pl
        return q

    def _xh(self, rng, sig=False):
        """other header fields for one request: nothing (half of the time), one or two bundles of the vocabulary, a random
        handful of single fields, or everything at once; [sig]: the route verifies X-Content-Security, which is then left alone"""
        x = rng.random()
        names = [k for k in XH if not (sig and k == "xcs")]
        if x < 0.45:
            return []
        if x < 0.75:
            out = []
            for k in rng.sample(names, rng.choice([1, 1, 2])):
                out += XH[k]
            return out
        if x < 0.9:
            pool = [nv for k in names for nv in XH[k]]
            return rng.sample(pool, rng.randint(1, 6))
        return list(XH_ALL) + (XH["preflight"] if rng.random() < 0.5 else [])

    def _jwt_case(self, rng):
        secret = rng.choice(["s1", "secret-key-0123456789", "k" * 40, "pässwörd"])
        prev = rng.choice(["", "", "s0", "previous-secret", secret, secret + "0"])
        now = rng.choice([1000, 1700000000, 1700000000 + rng.randrange(10 ** 6), 2 ** 31 + 5, 5])
        reqs = [self._jreq(rng, secret, prev, now) for _ in range(rng.randint(3, 8))]
        # the SAME raw token again, on the same middleware instance: later (possibly after exp / before
        # nbf), after other tokens were accepted or rejected in between
        for _ in range(rng.choice([0, 1, 2, 3])):
            src = dict(rng.choice(reqs))
            src["now"] = src["now"] + rng.choice([0, 1, 2, 59, 60, 61, 3599, 3600, 3601, 10 ** 6, -1, -61])
            src["cls"] = "replay"
            reqs.insert(rng.randrange(len(reqs) + 1), src)
        return {"kind": "jwt", "secret": secret, "prev": prev, "cb": rng.choice([0, 0, 1, 1, 2]), "reqs": reqs}

    BIG_SIZES = [0, 1, 2, 3, 4, 15, 16, 17, 31, 32, 33, 47, 48, 49, 95, 96, 97, 4095, 4096, 4097, 12287, 12288, 12289,
                 32767, 32768, 32769, 40000, 49151, 49152, 49153, 65535, 65536, 65537, 70000, 98303, 98304, 98305, 102400,
                 131072, 200000]

    def _big(self, seed, reqlen, resplen, piece=0, flush=False, keylen=16, via="crypt", chunked=False, limit=-1):
        return {"kind": "big", "big": {"seed": seed, "reqlen": reqlen, "resplen": resplen, "piece": piece, "flush": flush,
                                       "keylen": keylen, "via": via, "chunked": chunked, "limit": limit}}

    def _big_case(self, rng):
        """payload SIZES for the cryption round trip, both directions, across AES-block, base64-group and buffer
        boundaries; payloads are (seed, length), expanded by the executor; judged by an independent client"""
        def size():
            x = rng.random()
            if x < 0.75:
                return rng.choice(self.BIG_SIZES)
            if x < 0.93:
                k = rng.randint(1, 9000)
                return rng.choice([3 * k - 1, 3 * k, 3 * k + 1, 16 * k - 1, 16 * k, 16 * k + 1, 48 * k, 32768 * rng.randint(1, 6) + rng.choice([-1, 0, 1])])
            return rng.choice([1 << 20, (1 << 20) - 1, (1 << 20) + 1, 786432, 1000000])
        reqlen, resplen = size(), size()
        if rng.random() < 0.5:
            # one direction large at a time keeps the case cheap
            if rng.random() < 0.5:
                reqlen = rng.choice(self.BIG_SIZES[:20])
            else:
                resplen = rng.choice(self.BIG_SIZES[:20])
        piece = rng.choice([0, 0, 0, 1, 7, 16, 4096, 7777, 32768, 32769, 100000])
        if piece == 1 and resplen > 70000:
            piece = 7
        limit = rng.choice([-1, -1, 0, 1 << 20, 1 << 20, 8 << 20, 50000])
        return self._big(rng.randrange(1 << 32), reqlen, resplen, piece, rng.random() < 0.3, rng.choice([16, 24, 32]),
                         rng.choice(["crypt", "crypt", "cs"]), rng.random() < 0.2, limit)

    TP_SECRETS = ["s-alpha-000001", "s-beta-0000002", "s-gamma-000003"]

    def _tp_case(self, rng):
        """one token.TokenParser, every call with its own (secret, prevSecret); optionally with a reset
        duration that is always over.  The error code of a rejected call shows the order of attempts."""
        a, b, c3 = rng.sample(self.TP_SECRETS, 3)
        now = rng.choice([1000, 1700000000])
        calls = []
        if rng.random() < 0.3:
            # a rotation in phases on ONE parser: a alone, b with previous a, b alone, c with previous b;
            # in every phase tokens of a, b, c (valid and expired) are presented
            hs = jd({"alg": "HS256", "typ": "JWT"})
            for sec, prev in ((a, ""), (b, a), (b, a), (b, ""), (c3, b), ("", c3)):
                for key in rng.sample([a, b, c3, ""], rng.randint(2, 4)):
                    exp = now + rng.choice([100, 100, -1, 0])
                    calls.append({"secret": sec, "prev": prev, "req": {
                        "now": now, "auth": "bearer", "header": hs, "payload": jd({"exp": exp, "uid": 1}),
                        "signkey": key, "signalg": "HS256", "mut": [], "cls": "rotation"}})
            return {"kind": "tp", "reset": rng.random() < 0.35, "calls": calls}
        for _ in range(rng.randint(4, 12)):
            r = rng.random()
            sec, prev = ((a, b) if r < 0.6 else (b, a) if r < 0.75 else (a, "") if r < 0.83 else (c3, a) if r < 0.92
                         else (a, a) if r < 0.96 else ("", a))
            for _ in range(50):
                q = self._jreq(rng, sec, prev, now)
                if q["cls"] in ("valid", "prev", "expired", "exp_now", "expired_prev", "nbf_future_prev", "nbf_future",
                                "iat_future", "wrong_secret", "sigflip", "alg_none", "alg_unknown", "missing", "seg2",
                                "alg_asym", "payload_tamper", "exp_float", "later", "earlier"):
                    break
            if rng.random() < 0.35 and calls:
                q = dict(rng.choice(calls)["req"])          # the same raw token under (possibly) other secrets
                q["now"] = q["now"] + rng.choice([0, 0, 1, 3600, 10 ** 6])
                q["cls"] = "replay"
            calls.append({"secret": sec, "prev": prev, "req": q})
        return {"kind": "tp", "reset": rng.random() < 0.35, "calls": calls}

    def _blob(self, rng):
        n = rng.choice([0, 1, 5, 15, 16, 17, 31, 32, 33, 48, rng.randint(0, 70)])
        kind = rng.random()
        if kind < 0.5:
            return "".join(rng.choice("abcdefghij{}\":, 0123456789") for _ in range(n))
        if kind < 0.8:
            return "".join(chr(rng.randrange(256)) for _ in range(n))
        # payloads ending in padding-like bytes
        return "".join(chr(rng.choice([0, 1, 2, 15, 16, 17, 255])) for _ in range(n))

    def _cs_req(self, rng, crypt):
        key = "".join(chr(rng.randrange(256)) for _ in range(rng.choice([16, 16, 24, 32])))
        r = {"method": rng.choice(CHECKED), "path": rng.choice(["/a", "/a/b", "/", "/api/v1/users/42"]),
             "query": rng.choice(["", "x=1", "x=1&y=2", "a=%20b"]), "body": self._blob(rng),
             "enc": crypt or rng.random() < 0.45, "aeskey": key, "fp": "A", "rsa": "A", "hdr": "normal",
             "resp": self._blob(rng), "toff": rng.choice([0, 0, 1, -1, 3, -3])}
        if r["method"] in ("GET", "DELETE") and rng.random() < 0.5:
            r["body"] = ""
            r["enc"] = crypt
        if crypt and rng.random() < 0.5:
            r["method"] = rng.choice(ALL_METHODS)        # the cryption handler must not care
        r["xh"] = self._xh(rng, sig=True)
        return r

    CS_MUTS = ["none", "none", "none", "none", "toff_edge", "toff_out", "toff_in", "tsraw", "smethod", "spath", "squery", "sbody",
               "stoff", "skey", "fp_unknown", "fp_other", "rsa_mismatch", "rsa_garbage", "rsa_notb64", "hdr_missing",
               "hdr_nofp", "hdr_nosecret", "hdr_nosig", "sig_flip", "sig_trunc", "sig_other", "keyb64_bad", "ctype_bad",
               "ctype_other", "other_method", "other_method_signed", "xuri_same", "xuri_override", "xuri_unsigned",
               "xuri_bad", "xuri_empty", "cipher_trunc", "cipher_lastbyte", "cipher_wrongkey", "cipher_dropblock",
               "bodyraw_nl", "bodyraw_notb64", "bodyraw_short", "chunked", "aeskey_bad", "limit_small", "nonstrict",
               "body_after", "fp_empty", "hdrfmt_nospace", "hdrfmt_spaces", "hdrfmt_trailing", "hdrfmt_junk",
               "hdrfmt_dupsig_good_last", "hdrfmt_dupsig_bad_last", "hdrfmt_upper",
               "clen_more", "clen_less", "flush", "gzenc", "secpad", "secpad_gz", "sbody_tail", "sbody_head", "sbody_prefix", "sbody_prefix", "sbody_prefix", "sbody_suffix",
               "limit_none", "tol_negative", "tol_fraction", "ts_boundary", "ts_boundary", "ts_boundary", "ts_boundary",
               "clen_huge", "text_edit", "text_edit", "text_edit", "ts_respelled", "hdrfmt_reorder",
               "path_alias", "path_alias", "path_alias", "path_alias_signed"]
    CRYPT_MUTS = ["none", "none", "none", "cipher_trunc", "cipher_lastbyte", "cipher_wrongkey", "cipher_dropblock",
                  "bodyraw_nl", "bodyraw_notb64", "bodyraw_short", "chunked", "aeskey_bad", "limit_small", "plain_body",
                  "clen_more", "clen_less", "nobody_badkey", "flush", "chunked_empty", "limit_none", "clen_huge"]

    def _apply(self, rng, c, mut):
        r = c["req"]
        tol = c.get("tol", 0)
        if mut == "toff_edge":
            r["toff"] = rng.choice([tol, -tol])
        elif mut == "toff_out":
            r["toff"] = rng.choice([tol + 1, -tol - 1, tol + 2, -tol - 2, 10 ** 6, -10 ** 6])
        elif mut == "toff_in":
            r["toff"] = rng.choice([max(tol - 1, 0), -max(tol - 1, 0)])
        elif mut == "ts_boundary":
            # the client-supplied timestamp over its whole integer domain, CORRECTLY SIGNED (the signature covers the
            # text sent): only |now - t| <= tolerance may pass, whatever the machine arithmetic does with t
            year = 31536000
            pick = rng.choice(["abs", "abs", "abs", "rel", "fmt"])
            if pick == "abs":
                r["tsraw"] = rng.choice([
                    "0", "1", "-1", "2147483647", "2147483648", "2147483649", "4294967295", "4294967296", "4294967297",
                    "20000000000", "1099511627776", "9007199254740991", "9007199254740992", "9007199254740993",
                    "4611686018427387904", "9223372036854775807", "-9223372036854775808", "9223372036854775806",
                    "9223372036854775807", "-9223372036854775807", "9160000000000000000", "11013000000", "11014000000",
                    "1e18", "1E9", "", "abc", "0x7fffffff", "+0", "-0", "00", " 0", "9223372036854775808", "-9223372036854775809",
                    "18446744073709551616", "1.0"])
            elif pick == "rel":
                r["toff"] = rng.choice([tol + 1, -tol - 1, tol, -tol, year, -year, 10 * year, 291 * year, 292 * year, 293 * year,
                                        -292 * year, -293 * year, 2 ** 31, -2 ** 31, 2 ** 32 + 1, 9223372036 - 1790000000,
                                        9223372037 - 1790000000, 2 ** 33, 2 ** 40])
            else:
                r["tsfmt"] = rng.choice(["ms", "ms", "plus", "zeros", "space"])
                r["toff"] = rng.choice([0, 0, tol, -tol, tol + 1])
        elif mut == "clen_huge":
            # a Content-Length far beyond the body (and beyond int32): the size limit answers before any allocation
            r["clenadd"] = rng.choice([2 ** 31, 2 ** 32 + 1, 2 ** 40, 2 ** 53, 2 ** 62, 2 ** 63 - 200000])
            if len(r.get("body", "")) == 0:
                r["body"] = "x"
        elif mut == "text_edit":
            field, n, tail = rng.choice([("sig", 44, 42), ("sig", 44, 42), ("secret", 172, 170), ("fp", 1, 0)])
            e = dict(rng.choice(self._edits_for(n, tail)), field=field)
            r.setdefault("edits", []).append(e)
        elif mut == "ts_respelled":
            r["tsfmt"], r["signtsplain"] = rng.choice(["plus", "zeros", "space"]), True
        elif mut == "tsraw":
            r["tsraw"] = rng.choice(["abc", "", "12.5", " 123", "1e9", "99999999999999999999", "9223372036854775807",
                                     "-9223372036854775808", "9223372036854775803", "0", "-1", "+5", "0x10", "1_000"])
        elif mut == "smethod":
            r["smethod"] = rng.choice([m for m in CHECKED if m != r["method"]])
        elif mut == "spath":
            r["spath"] = r["path"] + rng.choice(["x", "/", "/.."])
        elif mut == "path_alias":
            # signed for the canonical spelling, sent under another spelling the router maps onto the same route
            al = path_aliases(r["path"])
            if c.get("routed_only"):
                al = [x for x in al if x[1]]
            r["spath"], r["path"] = r["path"], rng.choice(al)[0]
        elif mut == "path_alias_signed":
            # ... and signed for the very spelling that is sent: that is a signed request
            r["path"] = rng.choice([x for x in path_aliases(r["path"]) if x[1]])[0]
        elif mut == "squery":
            # also: the same parameters in another order / another encoding
            r["squery"] = r["query"] + rng.choice(["&z=9", "x", "&"])
            if r["query"] == "x=1&y=2" and rng.random() < 0.5:
                r["squery"] = rng.choice(["y=2&x=1", "x=%31&y=2", "x=1;y=2", "X=1&y=2"])
        elif mut == "sbody":
            r["sbody"] = rng.choice(["", "other body", "hellp"])
        elif mut in ("sbody_tail", "sbody_head"):
            # signed over a body that differs from the one sent in a single byte, at the very end / start
            # (a digest over a prefix or a suffix of the body would not notice)
            r["enc"] = False
            if len(r["body"]) < 2 or rng.random() < 0.7:
                n = rng.choice([2, 40, 65, 100, 257, 300, 1000, 1025])
                r["body"] = "".join(rng.choice("abcdefghij0123456789") for _ in range(n))
            b = r["body"]
            r["sbody"] = (b[:-1] + chr(ord(b[-1]) ^ 1)) if mut == "sbody_tail" else (chr(ord(b[0]) ^ 1) + b[1:])
        elif mut in ("sbody_prefix", "sbody_suffix"):
            # the signed body is a proper prefix / suffix of the body sent (bytes appended / prepended after
            # signing), at lengths where a bounded or block-wise digest would stop looking
            r["enc"] = False
            n = rng.choice([0, 16, 64, 128, 256, 512, 1024])
            signed = "".join(rng.choice("abcdefghij0123456789") for _ in range(n))
            extra = "".join(rng.choice("xyz") for _ in range(rng.choice([1, 1, 16, 100])))
            r["sbody"] = signed
            r["body"] = signed + extra if mut == "sbody_prefix" else extra + signed
        elif mut == "body_after":
            r["bodyraw"] = rng.choice(["tampered", "", "aGVsbG8="])
            r["sbody"] = "original"
        elif mut == "stoff":
            r["stoff"] = r.get("toff", 0) + rng.choice([1, -1, 100])
        elif mut == "skey":
            r["skey"] = rng.choice(["someone-elses-key", r["aeskey"][:-1] + "\x00", ""])
        elif mut == "fp_unknown":
            r["fp"] = rng.choice(["C", "a", "AA"])
        elif mut == "fp_empty":
            r["fp"] = ""
        elif mut == "fp_other":
            # names the other configured (or not) key, secret encrypted to A
            r["fp"] = "B"
        elif mut == "rsa_mismatch":
            r["rsa"] = "B"
        elif mut == "rsa_garbage":
            r["rsa"] = "garbage"
        elif mut == "rsa_notb64":
            r["rsa"] = "notb64"
        elif mut.startswith("hdrfmt_"):
            r["hdrfmt"] = mut[7:]
        elif mut.startswith("hdr_"):
            r["hdr"] = mut[4:]
        elif mut.startswith("sig_"):
            r["sigmut"] = mut[4:]
        elif mut == "keyb64_bad":
            r["keyb64"] = rng.choice(["@@@", "abc", "a b"])
        elif mut == "ctype_bad":
            r["ctype"] = rng.choice(["x", "1.0", " 1", "one"])
        elif mut == "ctype_other":
            r["ctype"] = rng.choice(["2", "01", "-1", "+1", "0"])
        elif mut == "other_method":
            r["method"] = rng.choice(OTHER_METHODS)
            r["hdr"] = rng.choice(["missing", "missing", "nosig", "normal"])
            if r["hdr"] == "normal":
                r["sigmut"] = "flip"
        elif mut == "other_method_signed":
            r["method"] = rng.choice(OTHER_METHODS)
        elif mut == "xuri_same":
            r["xuri"] = r["path"] + ("?" + r["query"] if r["query"] else "")
        elif mut == "xuri_override":
            r["xuri"] = rng.choice(["/public?x=1", "/a", "http://evil.example/b?c=d", "/other/path?q=1"])
            u = r["xuri"].split("://", 1)[-1]
            u = u[u.index("/"):] if "/" in u else "/"
            r["spath"], _, r["squery"] = u.partition("?")
        elif mut == "xuri_unsigned":
            r["xuri"] = rng.choice(["/public?x=1", "/zzz"])
        elif mut == "xuri_bad":
            r["xuri"] = rng.choice(["%zz", "http://[::1"])
        elif mut == "xuri_empty":
            r["xuri"] = ""
        elif mut.startswith("cipher_"):
            r["enc"] = True
            r["cipherop"] = mut[7:]
        elif mut == "bodyraw_nl":
            r["enc"] = True
            r["bodyraw"] = rng.choice(["\n", "\r\n", "\n\n", "\r"])
        elif mut == "bodyraw_notb64":
            r["enc"] = True
            r["bodyraw"] = rng.choice(["!!!", "abc", "not base64 at all", "AAAA=", "{\"a\":1}"])
        elif mut == "bodyraw_short":
            r["enc"] = True
            r["bodyraw"] = rng.choice(["AAAA", "AAAAAAAAAAAAAAAAAAAAAA==", "AAAAAAAAAAAAAAAAAAAAAAAAAAAAAAAAAAAAAAAAAAA=", "AA=="])
        elif mut == "chunked":
            r["chunked"] = True
        elif mut == "aeskey_bad":
            r["aeskey"] = rng.choice(["short", "x" * 17, "", "y" * 33])
        elif mut == "limit_small":
            c["limit"] = rng.choice([1, 8, 24, 44])
        elif mut == "limit_none":
            c["limit"] = -1                                   # limitBytes <= 0: no limit
        elif mut == "nonstrict":
            c["strict"] = False
        elif mut == "tol_negative":
            c["tol"] = rng.choice([-1, -5])                   # a negative Expiry: nothing is within tolerance
        elif mut == "tol_fraction":
            c["tolms"] = rng.choice([1, 500, 999])            # Expiry = tol seconds + a fraction: whole seconds count
        elif mut == "plain_body":
            r["enc"] = False
        elif mut == "clen_more":
            r["clenadd"] = rng.choice([1, 2, 16, 1000])       # Content-Length announces more than is sent
        elif mut == "clen_less":
            r["clenadd"] = -rng.choice([1, 2, 4, 16])         # ... or less: exactly that many bytes are decrypted
        elif mut == "nobody_badkey":
            # no body, so nothing to decrypt, but the response cannot be encrypted under an unusable key
            r["enc"], r["body"], r["aeskey"] = False, "", rng.choice(["short", "x" * 17, ""])
            r["method"] = rng.choice(["GET", "DELETE"])
        elif mut == "flush":
            r["flush"] = True
        elif mut == "gzenc":
            r["gzenc"] = True
        elif mut in ("secpad", "secpad_gz"):
            r["secpad"] = rng.choice([30, 60, 117, 118, 200, 300])   # the secret spans several RSA blocks
            r["gzenc"] = mut == "secpad_gz"
        elif mut == "chunked_empty":
            r["enc"], r["body"], r["chunked"] = False, "", True

    def _cs_case(self, rng, crypt):
        c = {"kind": "crypt" if crypt else "cs", "req": self._cs_req(rng, crypt)}
        if not crypt:
            c["strict"] = rng.random() < 0.8
            c["tol"] = rng.choice([0, 1, 5, 5, 100, 3600])
            c["keys"] = rng.choice([["A"], ["A", "B"], ["A", "B"], ["B"]])
            if c["keys"] == ["B"]:
                c["req"]["fp"] = c["req"]["rsa"] = "B"
            c["req"]["toff"] = rng.choice([0, 0, min(1, c["tol"]), -min(1, c["tol"])])
        muts = [rng.choice(self.CRYPT_MUTS if crypt else self.CS_MUTS)]
        if rng.random() < 0.2:
            muts.append(rng.choice(self.CRYPT_MUTS if crypt else self.CS_MUTS))
        for m in muts:
            self._apply(rng, c, m)
        c["muts"] = muts
        c["wrap"] = rng.random() < 0.3
        if c.get("tol", 0) < 0:
            c.pop("tolms", None)
        if c["req"].get("clenadd", 0) > 10 ** 6 and c.get("limit", 0) < 0:
            c.pop("limit")                       # never let the handler allocate what the header announces
        if not crypt and rng.random() < 0.12:
            now = 1700000000
            sec = "chain-secret"
            c["withjwt"] = True
            c["secret"], c["prev"] = sec, rng.choice(["", "chain-old"])
            c["reqs"] = [self._jreq(rng, sec, c["prev"], now)]
        return c

    def _eng_case(self, rng, force=None):
        """a real rest.Server: route groups with/without WithJwt / WithJwtTransition / WithSignature / WithPrefix,
        public siblings of protected routes, one generated request to one of the routes"""
        c = self._cs_case(rng, False)
        for k in ("withjwt", "limit"):
            c.pop(k, None)
        c["kind"] = "eng"
        r = c["req"]
        if r.get("clenadd", 0) > 10 ** 6:
            r.pop("clenadd")                     # the engine's max-bytes middleware (413) sits in front of the gates
        if r["method"] not in ROUTER_METHODS:    # the router only registers the 7 standard methods
            r["method"] = rng.choice(["PATCH", "HEAD", "OPTIONS"])
        if force and force.get("method"):
            r["method"] = force["method"]
        elif rng.random() < 0.25:
            r["method"] = rng.choice(["OPTIONS", "OPTIONS", "HEAD", "PATCH"])
        m = r["method"]
        other = rng.choice([x for x in ROUTER_METHODS if x != m])
        groups = [
            {"jwt": True, "sig": False, "prefix": "", "routes": [[m, "/p/one"], [m, "/p/two"], [m, "/p/:id/x"]]},
            {"jwt": False, "sig": True, "prefix": "", "routes": [[m, "/s/one"], [m, "/s/two"]]},
            {"jwt": True, "sig": True, "prefix": "/v1", "routes": [[m, "/js/one"], [m, "/js/two"]]},
            {"jwt": False, "sig": False, "prefix": "", "routes": [[other, "/p/one"], [other, "/s/two"], [m, "/pub"], [m, "/p"],
                                                                  [m, "/v1/js"], [other, "/v1/js/two"]]},
            {"jwt": True, "sig": False, "prefix": rng.choice(["/v2", "/v2/", "/v2//"]), "routes": [[m, "/q/one"], [m, "q/two"]]},
            {"jwt": False, "sig": False, "prefix": "/v2", "routes": [[m, "/open"], [other, "/q/one"]]},
        ]
        rng.shuffle(groups)
        gi = rng.randrange(len(groups))
        ri = rng.randrange(len(groups[gi]["routes"]))
        if force and force.get("tgt"):
            want = {"jwt": (True, False), "sig": (False, True), "both": (True, True), "pub": (False, False)}[force["tgt"]]
            gi = min(i for i, g in enumerate(groups) if (g["jwt"], g["sig"]) == want)
            ri = 0
        c["groups"], c["target"] = groups, [gi, ri]
        # rest.WithCors in front of the router or not: OPTIONS is an ordinary route method without it
        c["cors"] = rng.choice(["", "", "", "all", "origin", "headers"])
        if force is not None:
            c["cors"] = force.get("cors", "")
        g = groups[gi]
        mth, pth = g["routes"][ri]
        pth = pth.replace(":id", "42")
        full = pth
        if g["prefix"]:
            full = "/" + "/".join(x for x in (g["prefix"] + "/" + pth).split("/") if x)
        had_path = r["path"]
        r["method"], r["path"] = mth, full
        for k in ("spath",):
            if r.get(k) is not None and k == "spath":
                r["spath"] = full + r["spath"][len(had_path):] if r["spath"].startswith(had_path) else r["spath"]
        # another spelling of the route's path that the router cleans onto the same route: signed for the canonical one
        # (must be 403) or for the spelling sent (a signed request)
        ms = c.get("muts", [])
        if force and force.get("alias") is not None:
            ms = ["path_alias_signed" if force.get("alias_signed") else "path_alias"]
            c["muts"] = ms + ["mx"]
            for k in ("smethod", "squery", "sbody", "stoff", "skey", "sigmut", "tsraw", "ctype", "keyb64", "hdrfmt", "edits",
                      "xuri", "bodyraw", "cipherop", "tsfmt", "clenadd", "chunked", "secpad", "gzenc", "signtsplain"):
                r.pop(k, None)
            r.update({"hdr": "normal", "fp": "A", "rsa": "A", "toff": 0, "enc": False})
            c["keys"], c["strict"], c["tol"] = ["A"], True, 100
            c.pop("tolms", None)
        if "path_alias" in ms or "path_alias_signed" in ms:
            al = [a for a, ok in path_aliases(full) if ok]
            r["path"] = al[force["alias"] % len(al)] if force and force.get("alias") is not None else rng.choice(al)
            if "path_alias" in ms:
                r["spath"] = full
            else:
                r.pop("spath", None)
        if r.get("xuri") is not None and c.get("muts", [""])[0] == "xuri_same":
            r["xuri"] = full + ("?" + r["query"] if r["query"] else "")
        c["uacb"], c["uscb"] = rng.random() < 0.5, rng.random() < 0.5
        c["usemw"] = rng.random() < 0.5
        now = 1700000000
        c["secret"], c["prev"] = "chain-secret", rng.choice(["", "chain-old-secret"])
        c["reqs"] = [self._jreq(rng, c["secret"], c["prev"], now)]
        if g["jwt"] and rng.random() < (0.7 if g["sig"] else 0.35):
            # a valid token, so that what lies behind the JWT gate is exercised too
            for _ in range(200):
                q = self._jreq(rng, c["secret"], c["prev"], now)
                if q["cls"] in ("valid", "auth_lower", "auth_upper", "auth_noprefix", "exp_next", "nbf_now", "iat_now", "siglast"):
                    c["reqs"] = [q]
                    break
        if not g["jwt"] and rng.random() < 0.5:
            c["reqs"][0]["auth"] = "missing"
        if not g["sig"] and rng.random() < 0.6:
            r["hdr"] = "missing"
            r["enc"] = False
        r["xh"] = self._xh(rng, sig=True)
        if force is not None:
            r["xh"] = list(force.get("xh", []))
            if force.get("jstate") is not None:
                st = force["jstate"]
                q = {"now": now, "auth": "bearer", "header": jd({"alg": "HS256", "typ": "JWT"}),
                     "payload": jd({"exp": now + (-1 if st == "expired" else 1000), "uid": 7}), "signkey": c["secret"],
                     "signalg": "HS256", "mut": [], "cls": "mx:" + st}
                if st == "absent":
                    q["auth"] = "missing"
                elif st == "wrong":
                    q["signkey"] = "not-the-secret"
                elif st == "malformed":
                    q["mut"] = [{"op": "rawtoken", "s": "abc.def"}]
                elif st == "none":
                    q["header"], q["signalg"] = jd({"alg": "none", "typ": "JWT"}), "none"
                c["reqs"] = [q]
            if force.get("nosig"):
                r["hdr"], r["enc"] = "missing", False
        return c

    HDR_ATOMS = ["key", "secret", "signature", "time", "type", "=", "=", ";", ";", ";", " ", " ", "\t", "\n", "\r", "\x0b", "\x0c",
                 "a", "b", "1", "AbC+/=", "k", "", "; ", " ;", "==", "key=", "secret=s3", "signature=sg"]

    def _hdr_case(self, rng):
        if rng.random() < 0.5:
            parts = [rng.choice(self.HDR_ATOMS) for _ in range(rng.randint(0, 14))]
            h = "".join(parts)
        else:
            fields = []
            for name in rng.sample(["key", "secret", "signature", "key", "signature", "x", ""], rng.randint(0, 6)):
                sp1, sp2 = rng.choice(["", " ", "  ", "\t"]), rng.choice(["", " ", "\t "])
                val = rng.choice(["v", "", "a=b", "=", " v w ", "AAAA=="])
                eq = rng.choice(["=", "=", "=", "", " = "])
                fields.append(sp1 + name + eq + val + sp2)
            h = rng.choice([";", "; ", " ;"]).join(fields)
        return {"kind": "hdr", "hdrs": [h]}

    def gen(self, rng, n, tier):
        cases = []
        for _ in range(n):
            r = rng.random()
            if r < 0.03:
                cases.append(self._big_case(rng))
            elif r < 0.22:
                cases.append(self._jwt_case(rng))
            elif r < 0.30:
                cases.append(self._tp_case(rng))
            elif r < 0.50:
                cases.append(self._cs_case(rng, False))
            elif r < 0.65:
                cases.append(self._eng_case(rng))
            elif r < 0.82:
                cases.append(self._srv_case(rng))
            elif r < 0.90:
                cases.append(self._hdr_case(rng))
            else:
                cases.append(self._cs_case(rng, True))
        return cases

    # ------------------------------------------------------------------ execution
    def execute(self, cases, ctx):
        rc, out, res = vlib.go_run(self.bin, cases, tag="c18", timeout=900)
        if rc != 0 or len(res) != len(cases):
            raise ExecError("c18 executor rc=%s: %s" % (rc, out[-2000:]))
        obs = []
        for r in res:
            if r.get("err"):
                raise ExecError("c18 executor: case %s: %s" % (r.get("id"), r["err"]))
            if r.get("cs") and r["cs"].get("engerr"):
                raise ExecError("c18 executor: engine did not bind the routes: %s" % r["cs"]["engerr"])
            if r.get("srv") and r["srv"].get("engerr") and not self._srv_expect_fail(cases[len(obs)]):
                raise ExecError("c18 executor: server did not bind the routes: %s" % r["srv"]["engerr"])
            obs.append({"jwt": r.get("jwt"), "cs": r.get("cs"), "hdr": r.get("hdr"), "tp": r.get("tp"), "srv": r.get("srv"),
                        "big": r.get("big")})
        return obs

    # ------------------------------------------------------------------ rendering
    def _cval(self, s, vals):
        if INT_RE.match(s) and len(s) < 18:
            return "VNum %s" % cz(int(s))
        if s == "null":
            return "VNull"
        return "VOther %d" % vals(s)

    def _claims(self, d, keys, vals, timeval=None):
        items = []
        for k, v in d.items():
            kid = STD.get(k) or keys(k)
            if timeval and k in timeval:
                # exp / iat / nbf given as a JSON number: the whole seconds the library compares with
                # (floor, computed by the harness with strconv/math)
                term = "VNum %s" % cz(int(timeval[k]))
            else:
                term = self._cval(v, vals)
            items.append((kid, "(%d, %s)" % (kid, term)))
        items.sort()
        return clist([t for _, t in items])

    def _cred(self, v, keys, vals, inputs, tags):
        if v["cred"] == "missing":
            return "CMissing"
        if v["cred"] == "malformed":
            return "CMalformed"
        iid = inputs(v["input"])
        sig = None if v["sig"] is None else tags("t:" + v["sig"])
        return "(CToken (mkToken %s %d %s %s))" % (ALG[v["alg"]], iid, copt(sig),
                                                   self._claims(v["claims"], keys, vals, v.get("timeval")))

    def _jwt_parts(self, secret, prev, reqs, jobs):
        """returns (jcfg term, mactab term, [(now, cred term)], [jobs term])"""
        keys, vals, inputs, tags = Intern(10), Intern(1), Intern(1), Intern(1)
        self._hids = Intern(1)
        prev_id = None if prev == "" else (1 if prev == secret else 2)
        cfg = "(mkJcfg 1 %s)" % copt(prev_id)
        tab, rq, ob = [], [], []
        for q, o in zip(reqs, jobs):
            v = o["view"]
            cred = self._cred(v, keys, vals, inputs, tags)
            if v["cred"] == "token" and v["alg"] in ALGID:
                a, iid = ALGID[v["alg"]], inputs(v["input"])
                ent = "((%d, 1, %d), %d)" % (a, iid, tags("t:" + v["tagcur"]))
                if ent not in tab:
                    tab.append(ent)
                if prev_id == 2:
                    ent = "((%d, 2, %d), %d)" % (a, iid, tags("t:" + v["tagprev"]))
                    if ent not in tab:
                        tab.append(ent)
            hids = self._hids if getattr(self, "_hids", None) is not None else Intern(1)
            hdrs = clist(["(%d, %d)" % (HDR_ID.get(canon_hdr(n)) or 10 + hids("n:" + canon_hdr(n)), 0 if v_ == "" else hids("v:" + v_))
                          for n, v_ in (q.get("xh") or [])])
            if q.get("target"):
                # the request target rides along as a pseudo header field
                hdrs = hdrs[:-1] + ("; " if hdrs != "[]" else "") + "(%d, %d)]" % (10 + hids("n::path"), hids("v:" + q["target"]))
            rq.append((cz(q["now"]), cred, cz(method_id(hids, q.get("method") or "GET")), hdrs))
            ob.append("(mkJobs %s %s %s %s %s %s)" % (cbool(o["ran"]), cz(o["status"]), self._claims(o["ctx"], keys, vals),
                                                     cbool(bool(o.get("panic"))), cz(o.get("uerr", -9)),
                                                     cz(o.get("cbstatus", 0))))
        return cfg, clist(tab), rq, ob

    def _tp_term(self, case, obs):
        keys, vals, inputs, tags, secs = Intern(10), Intern(1), Intern(1), Intern(1), Intern(1)
        tab, calls, codes = [], [], []
        for cl, o in zip(case["calls"], obs):
            v = o["view"]
            sid = secs(cl["secret"])
            pid = None if cl["prev"] == "" else secs(cl["prev"])
            cred = self._cred(v, keys, vals, inputs, tags)
            if v["cred"] == "token" and v["alg"] in ALGID:
                a, iid = ALGID[v["alg"]], inputs(v["input"])
                for k, tg in ((sid, v["tagcur"]), (pid, v["tagprev"])):
                    if k is not None:
                        ent = "((%d, %d, %d), %d)" % (a, k, iid, tags("t:" + tg))
                        if ent not in tab:
                            tab.append(ent)
            calls.append("(mkJcfg %d %s, %s, %s)" % (sid, copt(pid), cz(cl["req"]["now"]), cred))
            codes.append(cz(o["code"]))
        return "CTp %s %s %s %s" % (cbool(case.get("reset")), clist(tab), clist(calls), clist(codes))

    def coq_case(self, case, obs):
        if case["kind"] == "jwt":
            cfg, tab, rq, ob = self._jwt_parts(case["secret"], case["prev"], case["reqs"], obs["jwt"])
            return "CJwt %s %s %s %s" % (cfg, tab, clist(["(mkHreq %s %s %s %s)" % (m, h, n, c) for n, c, m, h in rq]), clist(ob))
        if case["kind"] == "hdr":
            h = obs["hdr"][0]
            pairs = clist(["(%s, %s)" % (hexbytes(k), hexbytes(v)) for k, v in sorted(h["attrs"].items())])
            return "CHdr %s %s" % (hexbytes(h["raw"]), pairs)
        if case["kind"] == "tp":
            return self._tp_term(case, obs["tp"])
        if case["kind"] == "big":
            g, o = case["big"], obs["big"]
            return "CBig (mkBig %s %s %s %s %s %s %s %s %s %s %s)" % (
                cbool(g["via"] == "cs"), cbool(g["chunked"]), cz(g["limit"]), cz(g["reqlen"]), cz(g["resplen"]),
                cz(o["wirelen"]), cbool(o["ran"]), cz(o["status"]), cbool(o["seenok"]), cbool(o["respok"]),
                cbool(bool(o.get("panic"))))
        if case["kind"] == "srv":
            if any(r.get("unstable") for r in obs["srv"]["reqs"]):
                return "CHdr [] []"          # the wall-clock second changed under a request: nothing is compared
            return "CSrv (%s)" % self._srv_term(case, obs["srv"])
        return "CCs (%s)" % self._cs_term(case, obs["cs"])

    def _opts(self, case):
        """(route has the JWT option, route has the signature verifier, stand-alone cryption handler)"""
        if case["kind"] == "crypt":
            return False, False, True
        if case["kind"] == "eng":
            g = case["groups"][case["target"][0]]
            return bool(g["jwt"]), bool(g["sig"]), False
        return bool(case.get("withjwt")), True, False

    def _cs_term(self, case, o):
        q, v = case["req"], o["view"]
        has_jwt, has_sig, crypt = self._opts(case)
        codeobs = (case["kind"] == "cs" and not has_jwt) or (case["kind"] == "eng" and bool(case.get("uscb")))
        ids, tagid, keyid = Intern(1), Intern(1), Intern(1)
        mid = method_id(ids, q["method"])
        pid, qid = ids("p:" + v["path"]), ids("q:" + v["query"])
        tsid, dig = ids("t:" + v["tsstr"]), ids("d:" + v["digest"])
        kid = keyid(v["key"])
        fpid = {"A": 1, "B": 2}.get(v.get("fpsent", q["fp"]), 9)
        hdr = "(mkHdr %s %s %s)" % (copt(fpid if v["hasfp"] else None), copt(1 if v["hassecret"] else None),
                                    copt(tagid(v["sig"]) if v["hassig"] else None))
        xuri = "None"
        tags = ["((%d, (%d, %s, %d, %d, %d)), %d)" % (kid, tsid, cz(mid), pid, qid, dig, tagid(v["tagurl"]))]
        if v["xpath"] is not None:
            xp, xq = ids("p:" + v["xpath"]), ids("q:" + v["xquery"])
            xuri = "(Some (%d, %d))" % (xp, xq)
            t = "((%d, (%d, %s, %d, %d, %d)), %d)" % (kid, tsid, cz(mid), xp, xq, dig, tagid(v["tagxuri"]))
            if (xp, xq) != (pid, qid):
                tags.append(t)
        req = "(mkReq %s %d %d %s %s %s %s)" % (cz(mid), pid, qid, xuri, hdr, cz(v["contentlen"]), hexbytes(v["wire"]))
        rsa = "None"
        if v.get("deckeys"):
            rsa = "(Some (mkSecret %s %d %s %s))" % (copt(kid if v["keyok"] else None), tsid,
                                                     copt(None if v["tsval"] is None else cz(v["tsval"])),
                                                     copt(None if v["ctype"] is None else cz(v["ctype"])))
        kfile = {"A": 1, "B": 2, "C": 3, "D": 4}
        decs = clist(["(%d, %d)" % (kfile[k], kfile[k]) for k in case.get("keys", [])])
        rsakeys = clist([str(kfile[k]) for k in v.get("deckeys", [])])
        jwt = "None"
        if has_jwt:
            cfg, tab, rq, _ = self._jwt_parts(case["secret"], case["prev"], case["reqs"][:1], [self._chain_view(case, o)])
            now_cred = "%s, %s" % (rq[0][0], rq[0][1])
            jwt = "(Some (%s, %s, %s))" % (cfg, tab, now_cred)

        def tabterm(d):
            return clist(["(%s, %s)" % (hexbytes(k), hexbytes(x)) for k, x in sorted(d.items())])
        honest = bool(q.get("enc")) and not q.get("cipherop") and q.get("bodyraw") is None and not q.get("clenadd")
        raw_dec = res_term(o.get("rawdec"))
        mwran = o.get("mwran") if case.get("usemw") else o["ran"]
        ob = "(mkCsObs %s %s %s %s %s %s %s %s %s %s %s %s %s %s)" % (
            cbool(o["ran"]), cz(o["status"]), cz(o["code"]), hexbytes(o["seen"]),
            hexbytes(o["respraw"]), copt(None if o["respdec"] is None else hexbytes(o["respdec"])),
            copt(None if o.get("respplain") is None else hexbytes(o["respplain"])),
            cbool(bool(o.get("panic"))), res_term(o["codecenc"]) or "Err", res_term(o["codecdec"]) or "Err",
            copt(raw_dec), cbool(bool(o.get("hdrout"))), cbool(o.get("codecx", "") == ""), cbool(bool(mwran)))
        return "mkCs %s %s %s %s %s %s %s %s %s %s %s %d %s %s %s %d %s %s %s %s %s %s %s %s" % (
            cbool(crypt), cbool(has_sig), cbool(codeobs), jwt, cbool(bool(case.get("strict"))), decs, cz(case.get("tol", 0)), cz(v["now"]),
            cz(case.get("limit") or MAXBYTES), req, strbytes(q["resp"]), 0, rsa, rsakeys, clist(tags), dig,
            cbool(v["aesok"]), tabterm(v["etab"]), tabterm(v["dtab"]),
            copt(None if v["b64"] is None else hexbytes(v["b64"])), strbytes(q["body"]), cbool(honest),
            cbool(bool(case.get("cors")) and bool(o.get("corson"))), ob)

    KFILE = {"A": 1, "B": 2, "C": 3, "D": 4, "missing": 5, "badpem": 6, "badkey": 7}

    def _srv_expect_fail(self, case):
        """does the configuration make Start fail before every route is bound (by the generator's own reading)"""
        if case.get("kind") != "srv":
            return False
        seen = set()
        for g in case["sgroups"]:
            sg = g.get("sig")
            if sg is not None:
                if not sg["keys"] and sg["strict"]:
                    return True
                if any(k["file"] not in ("A", "B", "C", "D") for k in sg["keys"]):
                    return True
            for m, pth in g["routes"]:
                if (m, pth) in seen:
                    return True
                seen.add((m, pth))
        return False

    def _mid(self, ids, m):
        return method_id(ids, m)

    def _srv_term(self, case, so):
        ids, tg, kid, scid, fpid = Intern(1), Intern(1), Intern(1), Intern(1), Intern(1)
        keys, vals, inputs, jt, secs = Intern(10), Intern(1), Intern(1), Intern(1), Intern(1)
        groups = []
        for g in case["sgroups"]:
            j = "None"
            if g.get("jwt"):
                j = "(Some (mkJcfg %d %s))" % (secs(g["jwt"]["secret"]),
                                              copt(None if g["jwt"]["prev"] == "" else secs(g["jwt"]["prev"])))
            sg = "None"
            if g.get("sig"):
                sg = "(Some (mkSig %s %s %s))" % (cbool(g["sig"]["strict"]),
                                                 clist(["(%d, %d)" % (fpid(k["fp"]), self.KFILE[k["file"]]) for k in g["sig"]["keys"]]),
                                                 cz(g["sig"]["tol"]))
            routes = clist(["(%s, %d)" % (cz(self._mid(ids, m)), ids("p:" + pth)) for m, pth in g["routes"]])
            groups.append("(mkGroup %s %s %s)" % (j, sg, routes))
        mac, rsa, cmac, sha, aes, et, dt, b64 = [], [], [], [], [], [], [], []

        def add(lst, ent):
            if ent not in lst:
                lst.append(ent)
        reqs = []
        cleans = []
        for sq, o in zip(case["sreqs"], so["reqs"]):
            q, v = sq["cs"], o["view"]
            mid, pid, qid = self._mid(ids, q["method"]), ids("p:" + v["path"]), ids("q:" + v["query"])
            if go_clean(v["path"]) != v["path"]:
                add(cleans, "(%d, %d)" % (pid, ids("p:" + go_clean(v["path"]))))
            tsid, dig, k = ids("t:" + v["tsstr"]), ids("d:" + v["digest"]), kid(v["key"])
            hdr = "(mkHdr %s %s %s)" % (copt(fpid(v.get("fpsent", q["fp"])) if v["hasfp"] else None),
                                        copt(scid(v["secretct"]) if v["hassecret"] else None),
                                        copt(tg("c:" + v["sig"]) if v["hassig"] else None))
            add(cmac, "((%d, (%d, %s, %d, %d, %d)), %d)" % (k, tsid, cz(mid), pid, qid, dig, tg("c:" + v["tagurl"])))
            add(sha, "(%s, %d)" % (hexbytes(v["wire"]), dig))
            sec = "(mkSecret %s %d %s %s)" % (copt(k if v["keyok"] else None), tsid,
                                              copt(None if v["tsval"] is None else cz(v["tsval"])),
                                              copt(None if v["ctype"] is None else cz(v["ctype"])))
            if v["hassecret"]:
                for name in v.get("deckeys", []):
                    add(rsa, "((%d, %d), %s)" % (self.KFILE[name], scid(v["secretct"]), sec))
            if v["aesok"]:
                add(aes, str(k))
            for blk, out in sorted(v["etab"].items()):
                add(et, "((%d, %s), %s)" % (k, hexbytes(blk), hexbytes(out)))
            for blk, out in sorted(v["dtab"].items()):
                add(dt, "((%d, %s), %s)" % (k, hexbytes(blk), hexbytes(out)))
            if v["b64"] is not None:
                add(b64, "(%s, %s)" % (hexbytes(v["wire"]), hexbytes(v["b64"])))
            jnow, cred = 0, "CMissing"
            if sq.get("j") is not None:
                jv = o["jwtview"]
                jnow = sq["j"]["now"]
                cred = self._cred(jv, keys, vals, inputs, jt)
                if jv["cred"] == "token" and jv["alg"] in ALGID:
                    for sname, tag in sorted(jv.get("tags", {}).items()):
                        add(mac, "((%d, %d, %d), %d)" % (ALGID[jv["alg"]], secs(sname), inputs(jv["input"]), jt("t:" + tag)))
            req = "(mkReq %s %d %d None %s %s %s)" % (cz(mid), pid, qid, hdr, cz(v["contentlen"]), hexbytes(v["wire"]))
            resp_written = "" if (sq.get("rstatus") in (204, 304)) else q["resp"]
            sreq = "(mkSreq %s %s %s %s %s)" % (cz(jnow), cred, cz(v["now"]), req, strbytes(resp_written))
            route = "None"
            if o.get("ranroute"):
                m, _, pth = o["ranroute"].partition(" ")
                route = "(Some (%s, %d))" % (cz(self._mid(ids, m)), ids("p:" + pth))
            mwran = o.get("mwran") if case.get("usemw") else o["ran"]
            # the status the handler itself writes passes through the gates: normalised to the model's 200
            status, outer, rst = o["status"], o.get("outerst", -1), sq.get("rstatus") or 200
            if o["ran"]:
                status = 200 if status == rst else -1
                if outer != -1:
                    outer = 200 if outer == rst else -1
            # under concurrency the hit counters (hence WHICH error a rejection reports) depend on the schedule
            uerr = -9 if case.get("parallel") else o["uerr"]
            ob = "(mkSObs %s %s %s %s %s %s %s %s %s %s %s)" % (
                cbool(o["ran"]), route, cz(status), hexbytes(o["seen"]), hexbytes(o["respraw"]),
                copt(None if o.get("respdec") is None else hexbytes(o["respdec"])), cz(uerr), cbool(bool(mwran)),
                cbool(bool(o.get("ctxok", True))), cz(outer), cbool(bool(o.get("panic"))))
            reqs.append("(%s, %d%%nat, %s)" % (sreq, sq["tgt"], ob))
        tabs = "(mkTabs %s %s %s %s %s %s %s %s)" % (clist(mac), clist(rsa), clist(cmac), clist(sha), clist(aes),
                                                    clist(et), clist(dt), clist(b64))
        return "mkSrv %s %s %s %s %s %s %s %s" % (cz(MAXBYTES), clist(["1", "2", "3", "4"]), clist(groups), tabs,
                                               cbool(so["bindok"]), cbool(bool(case.get("cors")) and bool(so.get("corson"))),
                                               clist(cleans), clist(reqs))

    SRV_SECRETS = ["secret-one-0001", "secret-two-0002", "secret-three-03"]
    SRV_MUTS = ["none", "none", "none", "path_alias", "path_alias", "path_alias", "path_alias_signed", "text_edit", "text_edit", "sbody_tail", "sbody_prefix", "ts_boundary", "ts_boundary", "toff_edge", "toff_out", "tsraw", "smethod", "spath", "squery", "sbody", "stoff", "skey",
                "rsa_garbage", "hdr_missing", "hdr_nosig", "hdr_nofp", "sig_flip", "sig_other", "ctype_other", "body_after",
                "hdrfmt_dupsig_bad_last", "cipher_lastbyte", "fp_unknown"]
    JWT_OK_CLS = ("valid", "auth_lower", "auth_upper", "auth_noprefix", "exp_next", "nbf_now", "iat_now", "siglast",
                  "auth_mixed", "dup_auth_after")

    def _srv_case(self, rng):
        """ONE server, several route groups with DIFFERENT authentication configurations, a sequence of
        requests each aimed at one group's route and carrying credentials made for any group"""
        files, fps = ["A", "B", "C", "D"], ["fa", "fb", "fc"]
        groups = []
        # a concurrent burst: mostly requests that DO reach their handlers (own credentials, encrypted bodies of some
        # length), so that several handlers are held at once while the others pass the same gates
        parallel = rng.random() < 0.35
        p_own, p_mut, p_enc, p_anyjwt = (0.85, 0.1, 0.75, 0.05) if parallel else (0.4, 0.3, 0.3, 0.35)
        for gi in range(rng.randint(2, 5)):
            kind = rng.choice(["sig", "sig", "sig", "jwt", "jwt", "both", "both", "pub", "sig_ns"])
            g = {"jwt": None, "sig": None, "routes": [], "opts": []}
            if kind in ("jwt", "both"):
                sec = rng.choice(self.SRV_SECRETS)
                prev = rng.choice(["", "", rng.choice([x for x in self.SRV_SECRETS if x != sec]), "old-" + sec])
                g["jwt"] = {"secret": sec, "prev": prev}
            if kind in ("sig", "both", "sig_ns"):
                ks = [{"fp": rng.choice(fps), "file": rng.choice(files)} for _ in range(rng.choice([1, 1, 1, 2, 2, 3]))]
                g["sig"] = {"strict": kind != "sig_ns" and rng.random() < 0.92, "tol": rng.choice([0, 1, 5, 100, 3600]), "keys": ks}
            mpool = CHECKED * 3 + ["PATCH", "HEAD", "OPTIONS", "OPTIONS"]
            m = rng.choice(mpool)
            g["routes"] = [[m, "/g%d/one" % gi]]
            if rng.random() < 0.35:
                # a path that deployments like to exempt from authentication; here it is a protected route like any other
                used = {pth for gg in groups for _, pth in gg["routes"]}
                free = [pth for pth in SRV_PATHS if pth not in used]
                if free:
                    g["routes"] = [[m, rng.choice(free)]]
            if rng.random() < 0.5:
                g["routes"].append([rng.choice(mpool), "/g%d/two" % gi])
            if rng.random() < 0.2:
                g["opts"] = rng.sample(["timeout", "maxbytes"], rng.randint(1, 2))
            groups.append(g)
        if not any(g["sig"] for g in groups):
            groups[0]["sig"] = {"strict": True, "tol": 5, "keys": [{"fp": "fa", "file": "A"}]}
        if rng.random() < 0.12:
            # configurations that must stop the server from starting (what was bound before stays on the router)
            gi = rng.randrange(len(groups))
            g = groups[gi]
            bad = rng.choice(["strict_nokeys", "nonstrict_nokeys", "missing", "badpem", "badkey", "duproute"])
            if bad == "strict_nokeys":
                g["sig"] = {"strict": True, "tol": 5, "keys": []}
            elif bad == "nonstrict_nokeys":
                g["sig"] = {"strict": False, "tol": 5, "keys": []}
            elif bad == "duproute" and gi > 0:
                g["routes"].append(list(groups[0]["routes"][0]))
            elif bad in ("missing", "badpem", "badkey"):
                ks = (g["sig"] or {"keys": []})["keys"] + [{"fp": "fz", "file": bad}]
                rng.shuffle(ks)
                g["sig"] = {"strict": True, "tol": 5, "keys": ks}
        now = 1700000000
        reqs = []
        for _ in range(rng.randint(3, 8)):
            ti = rng.randrange(len(groups))
            tgt = groups[ti]
            di = ti if rng.random() < p_own else rng.randrange(len(groups))
            donor = groups[di]
            m, pth = rng.choice(tgt["routes"])
            # a route registered twice belongs to the group that registered it first (the second AddRoutes fails)
            ti = min(i for i, g in enumerate(groups) if [m, pth] in g["routes"])
            tgt = groups[ti]
            r = self._cs_req(rng, False)
            r.update({"method": m, "path": pth, "toff": 0, "enc": rng.random() < p_enc, "xh": self._xh(rng, sig=True)})
            if parallel and len(r["body"]) < 9:
                r["body"] = "".join(rng.choice("abcdefghij0123456789") for _ in range(rng.choice([9, 16, 33, 100])))
            if m in ("GET", "DELETE") and rng.random() < 0.6 and not parallel:
                r["body"], r["enc"] = "", False
            tol = (tgt["sig"] or {"tol": 5})["tol"]
            if donor["sig"] and donor["sig"]["keys"]:
                k = rng.choice(donor["sig"]["keys"])
                r["fp"], r["rsa"] = k["fp"], k["file"] if k["file"] in files else "A"
                x = rng.random()
                if x < 0.15 and tgt["sig"] and tgt["sig"]["keys"]:
                    r["fp"] = rng.choice(tgt["sig"]["keys"])["fp"]        # the target's fingerprint, the donor's key
                elif x < 0.25 and tgt["sig"] and tgt["sig"]["keys"]:
                    kk = rng.choice(tgt["sig"]["keys"])
                    r["rsa"] = kk["file"] if kk["file"] in files else "A"  # the donor's fingerprint, the target's key
            else:
                r["fp"], r["rsa"] = rng.choice(fps), rng.choice(files)
                if rng.random() < 0.6:
                    r["hdr"] = "missing"
                    r["enc"] = False
            if rng.random() < p_mut:
                tmp = {"req": r, "tol": tol}
                self._apply(rng, tmp, rng.choice(self.SRV_MUTS))
            if rng.random() < 0.1:
                r["gzenc"] = True
            if rng.random() < 0.1:
                r["secpad"] = rng.choice([40, 100, 200])
            j = None
            if donor["jwt"]:
                sec, prev = donor["jwt"]["secret"], donor["jwt"]["prev"]
                for _ in range(100):
                    j = self._jreq(rng, sec, prev, now)
                    if rng.random() < p_anyjwt or j["cls"] in self.JWT_OK_CLS + (("prev",) if parallel else ("prev", "expired_prev")):
                        break
            elif rng.random() < 0.4:
                j = self._jreq(rng, rng.choice(self.SRV_SECRETS), "", now)
            if j is not None and reqs and rng.random() < 0.15:
                prevj = [x["j"] for x in reqs if x["j"] is not None]
                if prevj:
                    j = dict(rng.choice(prevj))                            # the same raw token again, elsewhere / later
                    j["now"] = j["now"] + rng.choice([0, 1, 3600, 10 ** 6])
            entry = {"tgt": ti, "donor": di, "j": j, "cs": r, "clean": False}
            clean_prev = [i for i, x in enumerate(reqs) if x.get("clean")]
            if clean_prev and rng.random() < 0.3:
                # the very same X-Content-Security header as an earlier, correctly signed request (same secret
                # ciphertext, timestamp and signature), now with another body / query / route / group: a verifier
                # that remembers what it has verified must not let it through
                i = rng.choice(clean_prev)
                p = reqs[i]["cs"]
                sigs = [gi for gi, g in enumerate(groups) if g["sig"] and g["sig"]["strict"] and g["sig"]["keys"]]
                ti2 = reqs[i]["tgt"] if (rng.random() < 0.5 or not sigs) else rng.choice(sigs)
                g2 = groups[ti2]
                m2, pth2 = rng.choice(g2["routes"])
                ti2 = min(k for k, g in enumerate(groups) if [m2, pth2] in g["routes"])
                g2 = groups[ti2]
                r = {"method": m2, "path": pth2, "query": rng.choice([p["query"], "x=2"]), "enc": False, "toff": 0,
                     "body": rng.choice([p["body"], p["body"] + "!", "tampered"]), "resp": p["resp"],
                     "fp": p["fp"], "rsa": p["rsa"], "hdr": "normal", "aeskey": p["aeskey"]}
                j2 = None
                if g2["jwt"]:
                    for _ in range(200):
                        j2 = self._jreq(rng, g2["jwt"]["secret"], g2["jwt"]["prev"], now)
                        if j2["cls"] in self.JWT_OK_CLS:
                            break
                entry = {"tgt": ti2, "donor": reqs[i]["donor"], "j": j2, "cs": r, "reuse": i, "clean": False}
            elif (di == ti and tgt["sig"] and tgt["sig"]["keys"] and not r.get("enc") and r.get("hdr", "normal") == "normal"
                  and not any(k in r for k in ("smethod", "spath", "squery", "sbody", "stoff", "skey", "sigmut", "tsraw", "ctype",
                                               "keyb64", "hdrfmt", "cipherop", "bodyraw"))
                  and (not tgt["jwt"] or (j is not None and j["cls"] in self.JWT_OK_CLS))):
                entry["clean"] = True
            reqs.append(entry)
        for x in reqs:
            if rng.random() < 0.3:
                x["hb"] = rng.choice(["partial", "twice", "late"])
            if rng.random() < 0.2:
                x["rstatus"] = rng.choice([201, 202, 204, 304, 404, 500])
        if parallel:
            for x in reqs:
                if x["j"] is not None:
                    x["j"]["now"] = now              # one JWT clock for the whole burst
        return {"kind": "srv", "parallel": parallel, "outer": rng.random() < 0.3, "cors": rng.choice(["", "", "", "all", "origin"]),
                "sgroups": groups, "sreqs": reqs, "uacb": rng.random() < 0.6, "uscb": rng.random() < 0.3,
                "usemw": rng.random() < 0.5, "natives": rng.random() < 0.3}

    def _chain_view(self, case, o):
        # the chained JWT token is classified by the executor in o["jwtview"]
        return {"view": o["jwtview"], "ran": False, "status": 0, "ctx": {}}

    # ------------------------------------------------------------------ python mirror of the property clauses (for known())
    def _signed_spec(self, case, v, use_xuri=False):
        if not (v["hasfp"] and v["hassecret"] and v["hassig"] and v["fpknown"] and v["secok"] and v["keyok"]):
            return False
        if v["tsval"] is None or abs(v["tsval"] - v["now"]) > case.get("tol", 0):
            return False
        return v["sig"] == (v["tagxuri"] if use_xuri else v["tagurl"])

    def _jwt_valid(self, v, prev, now):
        if v["cred"] != "token" or v["alg"] not in ALGID or v["sig"] is None:
            return False
        if not (v["sig"] == v["tagcur"] or (prev != "" and v["sig"] == v["tagprev"])):
            return False
        c = dict(v["claims"])
        c.update(v.get("timeval") or {})
        for k, f in (("exp", lambda e: now < e), ("iat", lambda e: e <= now), ("nbf", lambda e: e <= now)):
            if k in c and not (INT_RE.match(c[k]) and f(int(c[k]))):
                return False
        return True

    def known(self, case, obs):
        """Only the two shapes described in KNOWN_FINDINGS.jsonl (kind "known"), each as narrow as its text:
        F9     strict signature group, method outside the verified ones, handler ran unsigned, and NOTHING else is
               wrong (JWT valid where required, body handed over and response sent as they are);
        XURI   strict, verified method, X-Request-Uri parses to a path/query other than the URL's, and the request
               IS correctly signed (fingerprint, secret, window, MAC) for the header's path/query;
        (cryption-skips-unknown-length-body is FIXED in /repo, f372be8: nothing is suppressed for it any more;
        a tree without the repair gives VIOLATION.)"""
        if case["kind"] in ("jwt", "hdr", "tp", "srv", "big"):
            return None
        o = obs["cs"]
        v, q = o["view"], case["req"]
        if o.get("panic") or o.get("codecx") or not o.get("hdrout", True) and o["ran"]:
            return None
        has_jwt, has_sig, crypt = self._opts(case)
        jwt_ok = True
        if has_jwt:
            jwt_ok = self._jwt_valid(o["jwtview"], case["prev"], case["reqs"][0]["now"])
        if case.get("usemw") and bool(o.get("mwran")) != bool(o["ran"]):
            return None
        signed = has_sig and self._signed_spec(case, v)
        gate_fail = o["ran"] and ((has_sig and case.get("strict") and not signed) or not jwt_ok)
        honest = bool(q.get("enc")) and not q.get("cipherop") and q.get("bodyraw") is None and not q.get("clenadd")
        lim = case.get("limit") or MAXBYTES
        xsame = v["xpath"] is None or (v["xpath"], v["xquery"]) == (v["path"], v["query"])
        must = honest and v["aesok"] and jwt_ok and (lim <= 0 or (v["contentlen"] if v["contentlen"] >= 0 else len(v["wire"]) // 2) <= lim) and xsame and (crypt or (signed and v["ctype"] == 1 and q["method"] in CHECKED))
        plain_hex = bytes(ord(ch) & 255 for ch in q["body"]).hex()
        resp_hex = bytes(ord(ch) & 255 for ch in q["resp"]).hex()
        dec_fail = must and not (o["ran"] and o["seen"] == plain_hex and
                                 ((q["resp"] == "" and o["respraw"] == "") or (q["resp"] != "" and o.get("respplain") == resp_hex)))
        codec_fail = v["aesok"] and o["codecdec"] != "ok:" + plain_hex
        if codec_fail:
            return None
        if gate_fail and not dec_fail and jwt_ok:
            if (q["method"] not in F9_VERIFIED and has_sig and case.get("strict")
                    and o["status"] == 200 and o["seen"] == v["wire"] and o["respraw"] == resp_hex):
                return F9
            if (q["method"] in F9_VERIFIED and case.get("strict") and v["xpath"] is not None
                    and (v["xpath"], v["xquery"]) != (v["path"], v["query"])
                    and self._signed_spec(case, v, use_xuri=True) and o["status"] == 200):
                return XURI
            return None
        return None

    # ------------------------------------------------------------------ evidence
    def nontrivial(self, case, obs):
        if case["kind"] == "jwt":
            toks = [o for o in obs["jwt"] if o["view"]["cred"] == "token"]
            return any(o["ran"] for o in toks) and any(not o["ran"] for o in toks)
        if case["kind"] == "hdr":
            return len(obs["hdr"][0]["attrs"]) > 0
        if case["kind"] == "big":
            return obs["big"]["ran"] and (case["big"]["reqlen"] >= 16 or case["big"]["resplen"] >= 16)
        if case["kind"] == "tp":
            return any(o["code"] == 0 for o in obs["tp"]) and any(o["code"] > 0 for o in obs["tp"])
        if case["kind"] == "srv":
            rs = obs["srv"]["reqs"]
            return (sum(1 for g in case["sgroups"] if g.get("sig") or g.get("jwt")) >= 2
                    and any(o["ran"] for o in rs) and any(not o["ran"] for o in rs))
        v = obs["cs"]["view"]
        if case["kind"] == "crypt":
            return v["b64"] is not None
        if case["kind"] == "eng":
            has_jwt, has_sig, _ = self._opts(case)
            return has_jwt or has_sig
        return bool(v["secok"])

    def features(self, case, obs):
        fs = ["kind=" + case["kind"]]
        if case["kind"] == "jwt":
            for q, o in zip(case["reqs"], obs["jwt"]):
                fs.append("jwt:%s:%s" % (q.get("cls", "corpus"), "ran" if o["ran"] else str(o["status"])))
        elif case["kind"] == "hdr":
            fs.append("hdr:attrs=%d" % len(obs["hdr"][0]["attrs"]))
        elif case["kind"] == "big":
            g, o = case["big"], obs["big"]

            def bucket(n):
                return "0" if n == 0 else "<16" if n < 16 else "<4K" if n < 4096 else "<32K" if n < 32768 else "<64K" if n < 65536 \
                    else "<1M" if n < (1 << 20) else ">=1M"
            fs.append("big:req%s:resp%s:%s" % (bucket(g["reqlen"]), bucket(g["resplen"]), "ran" if o["ran"] else str(o["status"])))
            fs.append("big:piece=%d%s:%s%s" % (g["piece"], ":flush" if g["flush"] else "", g["via"], ":chunked" if g["chunked"] else ""))
        elif case["kind"] == "tp":
            fs.append("tp:reset" if case.get("reset") else "tp:noreset")
            for cl, o in zip(case["calls"], obs["tp"]):
                fs.append("tp:%s:%d" % (cl["req"].get("cls", "?"), o["code"]))
        elif case["kind"] == "srv":
            so = obs["srv"]
            fs.append("srv:groups=%d" % len(case["sgroups"]))
            if case.get("parallel"):
                fs.append("srv:parallel:handlers-held=%d" % sum(1 for r in so["reqs"] if r["ran"]))
            if case.get("outer"):
                fs.append("srv:outer-chain")
            fs.append("srv:bindok" if so["bindok"] else "srv:bindfail")
            if any(r.get("unstable") for r in so["reqs"]):
                fs.append("srv:unstable-second-skipped")
            for sq, o in zip(case["sreqs"], so["reqs"]):
                tg, dn = case["sgroups"][sq["tgt"]], case["sgroups"][sq["donor"]]

                def kd(g):
                    return ("jwt" if g.get("jwt") else "") + ("sig" if g.get("sig") else "") or "pub"
                fs.append("srv:%s<-%s:%s:%s" % (kd(tg), kd(dn), "own" if sq["tgt"] == sq["donor"] else "other",
                                                "ran" if o["ran"] else str(o["status"])))
                if o["uerr"] not in (-9, 0):
                    fs.append("srv:uerr=%d" % o["uerr"])
                if sq.get("hb") or sq.get("rstatus"):
                    fs.append("srv:handler:%s:%s" % (sq.get("hb", "-"), sq.get("rstatus", 200)))
                if sq.get("reuse") is not None:
                    fs.append("srv:reuse-header:%s" % ("ran" if o["ran"] else str(o["status"])))
        else:
            o = obs["cs"]
            if case["kind"] == "eng":
                has_jwt, has_sig, _ = self._opts(case)
                fs.append("eng:route=%s%s:%s" % ("jwt" if has_jwt else "", "sig" if has_sig else "",
                                                 "ran" if o["ran"] else str(o["status"])))
            for m in case.get("muts", ["corpus"]):
                fs.append("%s:%s:%s" % (case["kind"], m, "ran" if o["ran"] else str(o["status"])))
            if case.get("withjwt"):
                fs.append("chain")
            if case.get("wrap") and case["kind"] in ("cs", "crypt") and not case.get("limit"):
                fs.append("wrapper:" + case["kind"])
            if case.get("usemw") and case["kind"] == "eng":
                fs.append("usemw:" + ("ran" if o.get("mwran") else "not"))
            if case["kind"] in ("cs", "eng"):
                fs.append("strict" if case.get("strict") else "nonstrict")
                fs.append("code=%s" % o["code"])
        return fs

    def shrink_candidates(self, case):
        res = []
        if case["kind"] == "hdr":
            h = case["hdrs"][0]
            for i in range(len(h)):
                res.append({"kind": "hdr", "hdrs": [h[:i] + h[i + 1:]]})
            return res[:60]
        if case["kind"] == "jwt":
            rs = case["reqs"]
            if len(rs) > 1:
                for i in range(len(rs)):                 # a single request is the usual minimum
                    res.append(dict(case, reqs=[rs[i]]))
                res.append(dict(case, reqs=rs[:len(rs) // 2]))
                res.append(dict(case, reqs=rs[len(rs) // 2:]))
                for i in range(len(rs)):
                    res.append(dict(case, reqs=rs[:i] + rs[i + 1:]))
            for i, q in enumerate(rs[:4]):
                # the rest of the request: fewer other headers, the plain method
                xh = q.get("xh") or []
                cands = []
                if len(xh) > 1:
                    cands += [xh[:len(xh) // 2], xh[len(xh) // 2:]] + [xh[:j] + xh[j + 1:] for j in range(min(len(xh), 12))]
                elif xh:
                    cands.append([])
                for x in cands:
                    res.append(dict(case, reqs=rs[:i] + [dict(q, xh=x)] + rs[i + 1:]))
                if q.get("method") not in (None, "", "GET"):
                    res.append(dict(case, reqs=rs[:i] + [dict(q, method="GET")] + rs[i + 1:]))
            return res
        if case["kind"] == "big":
            g = case["big"]
            for k, vals in (("resplen", [0, 5, 32768, g["resplen"] // 2]), ("reqlen", [0, 5, g["reqlen"] // 2]),
                            ("piece", [0]), ("flush", [False]), ("chunked", [False]), ("via", ["crypt"]), ("limit", [-1])):
                for v in vals:
                    if g[k] != v:
                        c = json.loads(json.dumps(case))
                        c["big"][k] = v
                        res.append(c)
            return res
        if case["kind"] == "tp":
            rs = case["calls"]
            for i in range(len(rs)):
                if len(rs) > 1:
                    c = dict(case)
                    c["calls"] = rs[:i] + rs[i + 1:]
                    res.append(c)
            return res
        if case["kind"] == "srv":
            rs = case["sreqs"]
            if len(rs) > 1 and not any(q.get("reuse") is not None for q in rs):
                # a single request on the same server is the usual minimum; then halves
                for i in range(len(rs)):
                    res.append(dict(case, sreqs=[rs[i]]))
                res.append(dict(case, sreqs=rs[:len(rs) // 2]))
                res.append(dict(case, sreqs=rs[len(rs) // 2:]))
            for i in range(len(rs)):
                if 1 < len(rs) <= 12:
                    c = dict(case)
                    c["sreqs"] = rs[:i] + rs[i + 1:]
                    res.append(c)
            if len(rs) == 1 and rs[0]["cs"].get("xh"):
                xh = rs[0]["cs"]["xh"]
                for x in ([xh[:len(xh) // 2], xh[len(xh) // 2:]] if len(xh) > 1 else [[]]):
                    res.append(dict(case, sreqs=[dict(rs[0], cs=dict(rs[0]["cs"], xh=x))]))
            used = {q["tgt"] for q in rs} | {q["donor"] for q in rs}
            for gi in range(len(case["sgroups"])):
                if gi not in {q["tgt"] for q in rs} and len(case["sgroups"]) > 1:
                    # drop a group no request is aimed at (it may still matter: shared state between groups)
                    c = json.loads(json.dumps(case))
                    del c["sgroups"][gi]
                    for q in c["sreqs"]:
                        q["tgt"] -= 1 if q["tgt"] > gi else 0
                        q["donor"] = 0 if q["donor"] == gi else q["donor"] - (1 if q["donor"] > gi else 0)
                    res.append(c)
            return res
        for k in ("xuri", "smethod", "spath", "squery", "sbody", "stoff", "skey", "bodyraw", "cipherop", "sigmut",
                  "tsraw", "keyb64", "ctype", "chunked", "edits", "signtsplain", "tsfmt", "hdrfmt", "secpad", "gzenc", "clenadd"):
            if case["req"].get(k) not in (None, False, ""):
                c = json.loads(json.dumps(case))
                del c["req"][k]
                res.append(c)
        for k, dflt in (("body", ""), ("resp", ""), ("query", ""), ("path", "/a"), ("toff", 0)):
            if case["kind"] == "eng" and k in ("path", "query"):
                continue                      # the path selects the route
            if case["req"].get(k) != dflt:
                c = json.loads(json.dumps(case))
                c["req"][k] = dflt
                res.append(c)
        if case.get("withjwt"):
            c = json.loads(json.dumps(case))
            for k in ("withjwt", "secret", "prev", "reqs"):
                c.pop(k, None)
            res.append(c)
        return res

    def describe_failure(self, case, obs):
        if case["kind"] == "hdr":
            return "httpx.ParseHeader returned an attribute that is not verbatim the last well-formed field for its key, or lost one"
        if case["kind"] == "eng":
            return ("a route registered on a rest.Server with WithJwt/WithJwtTransition/WithSignature ran its handler without "
                    "the credential its options require (or an encrypted body/response did not round-trip)")
        if case["kind"] == "srv":
            return ("on a rest.Server with several route groups, a route's handler (or a server.Use middleware) ran for a "
                    "request whose credentials are not valid for the configuration of the group the route was registered in "
                    "(JWT secret / previous secret, signature keys, strictness, tolerance), or another route's handler ran")
        if case["kind"] == "big":
            return ("cryption round trip by payload size: an honestly encrypted request body (seed, reqlen) did not reach the "
                    "handler as the plaintext, or the response (seed, resplen; written in pieces of `piece` bytes) does not "
                    "decode as ONE base64 document and decrypt (AES-ECB, strict PKCS#7, independent client) to what the "
                    "handler wrote: " + str(obs["big"].get("respwhy", "")))
        if case["kind"] == "tp":
            return "token.TokenParser.ParseToken returned a token that is not valid under the secrets of that call"
        if case["kind"] == "jwt":
            return ("the JWT gate called the handler for a token that is not validly signed/currently valid, did not answer "
                    "401 on rejection, or delivered other context claims than the token's non-registered ones")
        return ("a handler behind strict content security ran without a signature covering exactly timestamp/method/path/"
                "query/body digest, or an encrypted body/response did not round-trip, or a request made the gate panic")


PROPERTY = C18()
