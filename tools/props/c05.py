"""C05 — concurrency caps (Limit, TimeoutLimit, Pool, TaskRunner, WorkerGroup, MaxConns, mr / fx worker pools)."""
import itertools
import os
import re

import vlib
from runner import Property, ExecError
from vlib import cz, clist, cbool

EK = {"inv": 0, "fs": 1, "fe": 2, "ret": 3, "create": 5, "destroy": 6, "adv": 7, "lk": 8,
      "hij": 9,      # the handler of a request took its connection over (http.Hijacker)
      "cls": 10}     # Close() of the connection hijacked by thread v (any number of times)
OVERLAY = {"core/timex/relativetime.go": "/verif/harness/overlay/timex/relativetime.go",
           "core/syncx/verif_c05_hooks.go": "/verif/harness/overlay/syncx/verif_c05_hooks.go"}
# TimeoutLimit.Borrow arg: 0 one hour, 1 zero, 2 negative timeout; request arg: 0 returns, 1 panics with a
# string, 2 with http.ErrAbortHandler, 3 panic(nil)
LIM_OPS = {"limit": [[0, 0], [1, 0], [2, 0]],
           "tlimit": [[1, 0], [3, 0], [3, 0], [3, 1], [3, 2], [4, 0], [4, 0]],
           "maxconns": [[5, 0], [5, 0], [5, 0], [5, 0], [5, 1], [5, 2], [5, 3], [6, -1], [6, -1]],   # 6: cancel a request context (target set by the generator)
           # MaxConns -> Timeout -> Recover -> body, the order of rest/engine.go (no context cancellation:
           # TimeoutHandler itself answers 499 and lets the body run on, which ends MaxConns' region)
           "maxchain": [[5, 0], [5, 0], [5, 1], [5, 3]],
           # a hijackable writer: 7 = request whose handler takes the connection over (arg 0 on entry, 1 when
           # released, 2 and closes it itself, 3 and panics); 8 = Close() the connection hijacked by thread arg
           # (any number of times, by anybody).  The permit is the handler's: it comes back at its return.
           "maxhij": [[5, 0], [5, 0], [5, 1], [7, 0], [7, 0], [7, 1], [7, 2], [7, 3], [8, -1], [8, -1], [8, -1], [6, -1]],
           # MaxConns as configured in a rest.Server (RestConf.MaxConns), bound by the engine itself
           "engine": [[5, 0], [5, 0], [5, 0], [5, 1], [5, 3], [6, -1]],
           "engine_hij": [[5, 0], [5, 0], [5, 1], [7, 0], [7, 1], [7, 2], [8, -1], [8, -1], [6, -1]]}
MAXCONNS_OBJS = ("maxconns", "maxchain", "maxhij", "engine")
ENV_OPS = (6, 8)       # environment events aimed at thread arg's request: context cancelled / hijacked connection closed
W_BEH = {0: "BRet", 1: "BPanic", 2: "BCancel", 3: "BRet", 4: "BPanic", 5: "BPanic"}   # 3 = runtime.Goexit()
FOREIGN = 999          # actor id used for the steps of another instance (no such actor: the model stutters)
MR_OBJS = ["mr", "mrdef", "mr2w", "mrmr", "mrctx", "mrvoid", "mrchan", "finish", "finishvoid"]
FX_OBJS = ["fx", "fxp", "fxmap", "fxfilter", "fxu", "fxuw", "fxwu", "fxdef"]
UNLIMITED = ("fxu", "fxuw", "fxwu")
WAITALL = ("mrmr", "mrctx", "mrvoid", "mrchan", "finish")
CTOR_OBJ = {"limit": 0, "tlimit": 1, "taskrunner": 2, "pool": 3}
HTTP_STATUS = {"StatusServiceUnavailable": 503, "StatusTooManyRequests": 429, "StatusOK": 200,
               "StatusInternalServerError": 500, "StatusForbidden": 403, "StatusBadGateway": 502,
               "StatusGatewayTimeout": 504, "StatusRequestTimeout": 408}


CONST_FALLBACK = {"mr_default": 16, "mr_min": 1, "fx_default": 16, "fx_min": 1}


def _const_in_pkg(repo, pkgdir, name):
    """an untyped or typed integer constant `name` of the package, whichever of its files declares it
    (`name = 16`, `name int = 16`, `const name = 16`, with or without a trailing comment)"""
    d = os.path.join(repo, pkgdir)
    for f in sorted(os.listdir(d)):
        if not f.endswith(".go") or f.endswith("_test.go"):
            continue
        text = open(os.path.join(d, f)).read()
        m = re.search(r"^\s*(?:const\s+)?%s(?:\s+[A-Za-z_]\w*)?\s*=\s*(-?\d+)\s*(?://.*)?$" % name, text, re.M)
        if m:
            return int(m.group(1))
    return None


def extract_constants(repo):
    """Constants the model relies on, as written in the current source.  A constant that cannot be
    found any more (refactored away) is ASSUMED to have the value the theorems were proved for
    (CONST_FALLBACK, reported in the notes of the run): the correspondence then still judges the
    behaviour - more workers inside than that value is a failing input, fewer a disagreement that
    starts the search - instead of alarming on a harmless rewrite."""
    vals, assumed = {}, []
    for key, pkg, name in (("mr_default", "core/mr", "defaultWorkers"), ("mr_min", "core/mr", "minWorkers"),
                           ("fx_default", "core/fx", "defaultWorkers"), ("fx_min", "core/fx", "minWorkers")):
        v = _const_in_pkg(repo, pkg, name)
        if v is None:
            v = CONST_FALLBACK[key]
            assumed.append("%s/%s" % (pkg, name))
        vals[key] = v
    vals["assumed"] = assumed
    return vals


MARKER = os.path.join(vlib.ROOT, "corpus", "C05", "pool_create_panic_fixed")


def probe_behaviour():
    """Flags judged by BEHAVIOUR of the tree under check (not by source patterns): build the executor
    and run its probes.  pool_create_panic_uncounts: Pool(1), the first create() panics, the next Get
    succeeds (the panicking create() has not used up the slot)."""
    ok, res = vlib.go_build("c05", overlay=OVERLAY)
    if not ok:
        raise ExecError("C05: executor does not build, cannot probe: %s" % res[-800:])
    rc, out, rs = vlib.go_run(res, [{"id": 0, "kind": "probe", "obj": "pool", "n": 1, "scripts": [], "sched": []},
                                    {"id": 1, "kind": "probe", "obj": "maxconns", "n": 1, "scripts": [], "sched": []}],
                              tag="c05probe", timeout=120)
    if rc != 0 or len(rs) != 2 or rs[0].get("r") not in (10, 11) or not (1100 <= rs[1].get("r", 0) < 1600):
        raise ExecError("C05: probe run failed rc=%s %s %s" % (rc, rs, out[-500:]))
    # the status MaxConnsHandler(1) answers with while its slot is taken, as OBSERVED (not read off the source)
    return {"pool_create_panic_uncounts": rs[0]["r"] == 11, "maxconns_status": rs[1]["r"] - 1000}


def render_constants(v):
    return ("(* GENERATED by tools/props/c05.py from the packages core/mr and core/fx (worker constants) and from\n"
            "   behaviour probes run on the tree under check (executor harness/cmd/c05) - do not edit. *)\n"
            "From Coq Require Import ZArith.\nOpen Scope Z_scope.\n"
            "Definition mr_default_workers : Z := %d.\nDefinition mr_min_workers : Z := %d.\n"
            "Definition fx_default_workers : Z := %d.\nDefinition fx_min_workers : Z := %d.\n"
            "Definition maxconns_refusal_status : Z := %d.\n"
            "(* behaviour probes (executor, this tree): Pool(1), first create() panics, next Get succeeds *)\n"
            "Definition pool_create_panic_uncounts : bool := %s.\n"
            "(* corpus/C05/pool_create_panic_fixed exists: the repair (F34) is expected to be in the tree *)\n"
            "Definition pool_create_panic_fix_expected : bool := %s.\n"
            % (v["mr_default"], v["mr_min"], v["fx_default"], v["fx_min"], v["maxconns_status"],
               cbool(v["pool_create_panic_uncounts"]), cbool(v["pool_create_panic_fix_expected"])))


def regen_constants():
    vals = extract_constants(vlib.REPO)
    vals.update(probe_behaviour())
    vals["pool_create_panic_fix_expected"] = os.path.exists(MARKER)
    text = render_constants(vals)
    path = os.path.join(vlib.COQ, "gen", "C05Consts.v")
    os.makedirs(os.path.dirname(path), exist_ok=True)
    old = open(path).read() if os.path.exists(path) else None
    if old != text:
        tmp = path + ".tmp%d" % os.getpid()
        with open(tmp, "w") as f:
            f.write(text)
        os.replace(tmp, path)
    return vals, old != text


class C05(Property):
    id = "C05"
    title = "Concurrency caps are never exceeded and capacity is never leaked"
    quick_cases = 400
    thorough_cases = 5000
    design_ref = "DESIGN.md §6/C05"
    consts = None
    level_text = ("Unbounded Rocq theorems over interleaving models of Limit/TimeoutLimit/MaxConnsHandler, TaskRunner "
                  "(incl. Wait), WorkerGroup, the mr/fx worker pools and Pool (any capacity n, any number of threads, any "
                  "scripts, every schedule of the atomic actions, panics in holders): the number of holders never "
                  "exceeds n; capacity is never leaked (all holders finished => all permits back; for statically "
                  "balanced Borrow/Return/request scripts without any dynamic hypothesis); extra Returns are reported "
                  "and never raise the capacity; at the cap requests are refused or blocked, below it let in; pooled "
                  "resources are exclusive, created = idle + held <= limit, expired idle resources are destroyed and "
                  "uncounted. Tied to the Go code by forced schedules (controller gates + quiescence detection) through "
                  "the public entry points (mr.ForEach/MapReduce/MapReduceVoid/MapReduceChan/Finish/FinishVoid, "
                  "fx.Walk/Parallel/Map/Filter, WorkerGroup.Start, MaxConnsHandler incl. n <= 0 - bare, behind hijackable "
                  "writers, and as configured in a rest.Server whose routes the engine itself binds: one latch per route, "
                  "Engine.v), one or several instances at once; the monitors of the observed logs are proved to bound the "
                  "in-region count at every prefix; worker-count constants are re-extracted from the source and the "
                  "refusal status / create-panic behaviour re-observed by probes on every run.")
    level_note = ("Trusted: Coq kernel + vm_compute; hand-written LTS (one action per channel operation / mutex "
                  "section); atomicity assumption; gate-level control cannot stop between library-internal actions; "
                  "timers of TimeoutLimit are fired in the correspondence only for zero timeouts; mr cancel()/context "
                  "are covered by the free-running gauge only.")
    rule = ("cases: n 0..4 and 2000, 1..6 threads, scripts up to 5 calls (Limit: Borrow/TryBorrow/Return; TimeoutLimit: "
            "Borrow long/zero/negative timeout, TryBorrow, Return; MaxConns: requests whose handler returns or panics, request contexts cancelled while the handler stays inside, n <= 0 = no limit, "
            "handlers that hijack the connection and Close() it any number of times, and the same through a rest.Server (RestConf.MaxConns, 1-3 routes, server.Use / route middlewares, Timeout+Recover or a user chain) with concurrent first requests; "
            "TaskRunner: Schedule/ScheduleImmediately/Wait, tasks return or panic; Pool: Get/Put/Put(nil)/advance clock with "
            "max-age; mr/fx entry points with WithWorkers(n) for n <= 0 too, default and unlimited workers; WorkerGroup), "
            "one or two instances at once, forced schedule = list of actor ids; non-trivial = some thread was refused or "
            "observed blocked at the cap; distinct = JSON hash")
    trusted_base = [
        "models theories/C05/Model.v are hand-written; tie = forced-schedule correspondence (harness/cmd/c05, harness/sched)",
        "core/timex/relativetime.go is replaced at build time by the virtual-clock overlay (Pool max-age)",
        "core/syncx/verif_c05_hooks.go is ADDED at build time (decorates the Pool's own mutex to log the order of lock acquisitions)",
        "quiescence detection via runtime.Stack decides 'blocked'; atomicity assumed (race-checked free runs in the thorough tier)",
        "Go runtime (channels, sync.Cond, WaitGroup, net/http/httptest) is not modelled",
        "obj engine: requests are served by the router the rest engine bound (Server.StartWithOpts with an unusable listen address), on the caller's goroutine, with an in-memory hijackable writer - no TCP",
    ]
    assumptions = ["well-formed holders: a thread returns only permits / resources it holds (the theorems state this as "
                   "lrogue = false / scripts that Put what they got; discharged for statically balanced scripts)",
                   "TimeoutLimit: a timer may fire at any time while waiting (all timeouts are covered by the schedule quantifier)"]

    def regen(self, ctx):
        vals, changed = regen_constants()
        self.consts = vals
        return ["C05Consts.v %s: mr default/min workers %d/%d, fx default/min workers %d/%d%s, probes: MaxConns refusal status %d, "
                "a panicking Pool create() leaves the slot free: %s (expected: %s)"
                % ("rewritten" if changed else "unchanged", vals["mr_default"], vals["mr_min"], vals["fx_default"],
                   vals["fx_min"], (" (NOT FOUND in the source, assumed: %s)" % ", ".join(vals["assumed"])) if vals["assumed"] else "",
                   vals["maxconns_status"], vals["pool_create_panic_uncounts"],
                   vals["pool_create_panic_fix_expected"])]

    def _c(self):
        if self.consts is None:
            self.consts = extract_constants(vlib.REPO)
        return self.consts

    def prepare(self, ctx):
        ok, res = vlib.go_build("c05", overlay=OVERLAY)
        self.bin = res if ok else None
        self._c()
        return ok, ("" if ok else res)

    # ---- generation ------------------------------------------------------------------------
    def corpus(self):
        return self._fixed_classes() + self._corpus_round3()

    def _fixed_classes(self):
        """One deterministic case (or a few) per class of seeded change that was once caught only by the luck
        of a random draw, or not at all.  They run first in every tier, with every VERIF_SEED."""
        return [
            # -- seed C05-4: Pool.Put that evicts stale idle resources.  WithMaxAge; a Put while every idle
            #    resource is stale; then limit + 1 Gets: the last one must block
            {"kind": "pl", "n": 2, "maxage": 100, "scripts": [[[0, 0], [0, 0], [1, 0], [2, 500], [1, 0], [0, 0], [0, 0], [0, 0]]], "sched": [0] * 8},
            {"kind": "pl", "n": 2, "maxage": 100, "scripts": [[[0, 0], [2, 500], [1, 0], [0, 0], [0, 0]], [[0, 0], [1, 0], [0, 0], [1, 0]]], "sched": [0, 1, 1, 0, 0, 0, 0, 1, 0, 1, 1]},
            {"kind": "pl", "n": 3, "maxage": 100, "scripts": [[[0, 0], [0, 0], [0, 0], [1, 0], [1, 0], [2, 150], [1, 0], [2, 50], [0, 0], [0, 0], [0, 0], [0, 0]], [[0, 0]]], "sched": [0] * 11 + [1, 0, 1]},
            # the same with a resource still fresh under the returned one (only the bottom is stale)
            {"kind": "pl", "n": 3, "maxage": 100, "scripts": [[[0, 0], [0, 0], [0, 0], [1, 0], [2, 80], [1, 0], [2, 80], [1, 0], [0, 0], [0, 0], [0, 0], [0, 0]]], "sched": [0] * 12},
            # -- seed C05-10: the VALUES of pooled resources are the user's business (a resource is the k-th create()):
            #    equal strings / equal structs / the same int / struct{}{} / one shared pointer; two borrowed together,
            #    returned while the other one is idle; then Gets up to the limit must all be served
            {"kind": "pl", "n": 2, "maxage": 0, "vp": 2, "scripts": [[[0, 0], [0, 0], [1, 0], [1, 0], [0, 0], [0, 0], [1, 0], [0, 0]]], "sched": [0] * 10},
            {"kind": "pl", "n": 3, "maxage": 0, "vp": 1, "scripts": [[[0, 0], [0, 0], [1, 0], [1, 0], [0, 0]], [[0, 0], [1, 0], [0, 0], [0, 0]]], "sched": [0, 0, 1, 0, 1, 0, 1, 1, 0, 1, 1]},
            {"kind": "pl", "n": 2, "maxage": 0, "vp": 7, "scripts": [[[0, 0], [0, 0], [1, 0], [1, 0], [0, 0], [0, 0], [1, 0], [0, 0]]], "sched": [0] * 10},
            {"kind": "pl", "n": 3, "maxage": 0, "vp": 8, "scripts": [[[0, 0], [0, 0], [0, 0], [1, 0], [1, 0], [1, 0], [0, 0], [0, 0], [0, 0]]], "sched": [0] * 12},
            {"kind": "pl", "n": 2, "maxage": 0, "vp": 9, "scripts": [[[0, 0], [0, 0], [1, 0], [1, 0], [0, 0], [0, 0]]], "sched": [0] * 8},
            # never equal (NaN) and uncomparable values (slices, maps, funcs: == on them panics), with expiry
            {"kind": "pl", "n": 2, "maxage": 100, "vp": 3, "scripts": [[[0, 0], [0, 0], [1, 0], [2, 500], [1, 0], [0, 0], [0, 0]], [[0, 0]]], "sched": [0] * 8 + [1, 0, 1]},
            {"kind": "pl", "n": 2, "maxage": 0, "vp": 4, "scripts": [[[0, 0], [0, 0], [1, 0], [1, 0], [0, 0], [0, 0]]], "sched": [0] * 8},
            {"kind": "pl", "n": 2, "maxage": 100, "vp": 5, "scripts": [[[0, 0], [1, 0], [2, 500], [0, 0], [0, 0], [1, 0], [1, 0], [0, 0]]], "sched": [0] * 10},
            {"kind": "pl", "n": 2, "maxage": 0, "vp": 6, "scripts": [[[0, 0], [1, 0]], [[0, 0], [1, 0], [0, 0], [0, 0]]], "sched": [0, 1, 0, 1, 0, 1, 1, 1, 1]},
            # -- seed C05-11: the user's destroy() panics on the expiry path of Get (opcode 5; rendered as PGetX: with
            #    exactly ONE idle resource, expired, the Get whose callback panics takes the same step in the model
            #    whichever callback it is): the resource is gone, the Get panics, and the full capacity must still
            #    be obtainable afterwards - limit Gets served, one more blocks
            {"kind": "pl", "n": 1, "maxage": 100, "scripts": [[[0, 0], [1, 0], [2, 500], [5, 0], [0, 0], [1, 0], [0, 0]], [[0, 0]]], "sched": [0] * 9 + [1]},
            {"kind": "pl", "n": 2, "maxage": 100, "scripts": [[[0, 0], [0, 0], [1, 0], [2, 500], [5, 0], [0, 0], [1, 0], [1, 0], [0, 0], [0, 0]], [[0, 0]]], "sched": [0] * 13 + [1]},
            {"kind": "pl", "n": 3, "maxage": 100, "vp": 2, "scripts": [[[0, 0], [1, 0], [2, 150], [5, 0], [0, 0], [1, 0], [2, 150], [5, 0], [0, 0], [0, 0], [0, 0], [0, 0]]], "sched": [0] * 16},
            # -- seed C05-3: a handler behind MaxConns takes the connection over (http.Hijacker); the connection
            #    is closed twice (legal), the second time while another request is inside; then the route is
            #    loaded up to the cap: the probe must be refused
            {"kind": "lim", "obj": "maxhij", "n": 1, "scripts": [[[7, 0], [8, 0], [8, 0]], [[5, 0]], [[5, 0], [5, 0]]], "sched": [0, 0, 0, 1, 0, 2, 1, 2, 2]},
            {"kind": "lim", "obj": "maxhij", "n": 2, "scripts": [[[7, 1], [8, 0], [5, 0]], [[5, 0]], [[8, 0], [8, 0], [5, 0], [5, 0]], [[5, 0]]], "sched": [0, 1, 0, 0, 2, 2, 0, 2, 3, 2, 1, 3]},
            # closed by the handler itself, then again by somebody else while the cap is reached; two routes
            {"kind": "lim", "obj": "maxhij", "n": 1, "ns": [1, 1], "inst": [0, 0, 1, 0], "scripts": [[[7, 2], [8, 0]], [[5, 0], [8, 0]], [[5, 0], [8, 0]], [[5, 0]]], "sched": [0, 2, 0, 1, 0, 2, 3, 1, 1, 3, 3]},
            # hijacked and never closed / closed while the handler is still inside / handler panics after Hijack
            {"kind": "lim", "obj": "maxhij", "n": 1, "scripts": [[[7, 0], [5, 0]], [[8, 0], [5, 0], [8, 0], [5, 0]], [[7, 3], [8, 2], [8, 2]]], "sched": [0, 1, 1, 0, 1, 1, 2, 2, 0, 2, 1, 2, 0]},
            # -- seed C05-9: MaxConns as a user of rest.Server sees it: RestConf.MaxConns = n, routes bound by the
            #    engine; the FIRST requests of a route arrive together (if the engine assembles the chain of a
            #    route on a request, they are parked inside the assembly - the constructor of a server.Use
            #    middleware - one after the other, and released afterwards); a second route stays independent
            {"kind": "lim", "obj": "engine", "n": 1, "ns": [1, 1], "inst": [0, 0, 0, 1], "eng": {"use": 1}, "scripts": [[[5, 0]], [[5, 0]], [[5, 0], [5, 0]], [[5, 0], [5, 0]]], "sched": [0, 1, 2, 3, 0, 1, 2, 3, 2, 3, 2, 3]},
            {"kind": "lim", "obj": "engine", "n": 2, "ns": [2, 2, 2], "inst": [0, 0, 0, 0, 1, 2], "eng": {"use": 2, "chain": 1, "group": 2}, "scripts": [[[5, 0]], [[5, 1]], [[5, 0]], [[5, 0], [5, 0]], [[5, 3], [5, 0]], [[5, 0]]], "sched": [3, 2, 1, 0, 4, 5, 3, 2, 1, 0, 4, 5, 3, 3, 4, 4]},
            {"kind": "lim", "obj": "engine", "n": 1, "ns": [1, 1], "inst": [0, 0, 1, 1], "eng": {"use": 1, "chain": 2, "group": 1}, "scripts": [[[5, 0], [5, 0]], [[5, 0]], [[5, 0]], [[6, 2], [5, 0]]], "sched": [0, 1, 2, 3, 3, 0, 1, 2, 3, 0, 0]},
            {"kind": "lim", "obj": "engine", "n": 2, "ns": [2, 2], "inst": [0, 0, 0, 1], "eng": {"use": 0, "group": 3}, "scripts": [[[7, 0], [8, 0], [8, 0]], [[5, 0]], [[5, 0], [5, 0]], [[5, 0]]], "sched": [0, 1, 2, 3, 0, 0, 0, 2, 2, 1, 2]},
            # Middlewares.MaxConns switched off / MaxConns 0: no limit
            {"kind": "lim", "obj": "engine", "n": 1, "eng": {"use": 1, "off": True, "group": 1}, "scripts": [[[5, 0]], [[5, 0]], [[5, 1]]], "sched": [0, 1, 2, 0, 1, 2]},
            {"kind": "lim", "obj": "engine", "n": 0, "ns": [0, 0], "inst": [0, 0, 1], "eng": {"use": 1, "chain": 1}, "scripts": [[[5, 0]], [[5, 0]], [[5, 0]]], "sched": [0, 1, 2, 2, 1, 0]},
        ]

    def _corpus_round3(self):
        return [
            {"kind": "lim", "obj": "limit", "n": 1, "scripts": [[[0, 0], [2, 0], [2, 0]], [[0, 0], [2, 0]], [[1, 0]]], "sched": [0, 1, 2, 0, 0, 1]},
            {"kind": "lim", "obj": "limit", "n": 2, "scripts": [[[2, 0], [0, 0], [0, 0], [0, 0]], [[1, 0], [2, 0]]], "sched": [0, 0, 0, 1, 0, 1]},
            # fill - drain - refill on one long-lived limit; the extra Returns at the end are reported
            {"kind": "lim", "obj": "limit", "n": 2, "scripts": [[[0, 0], [0, 0], [2, 0], [2, 0], [0, 0], [0, 0], [1, 0], [2, 0], [2, 0], [2, 0]], [[1, 0], [0, 0], [2, 0]]], "sched": [0, 0, 1, 0, 0, 1, 0, 0, 1, 0, 0, 0, 0, 1]},
            {"kind": "tr", "n": 2, "scripts": [[[0, 0], [0, 3], [1, 0], [0, 4], [0, 2], [2, 0]]], "sched": [0, 0, 0, 1, 2, 0, 0, 3, 4, 0]},
            {"kind": "lim", "obj": "tlimit", "n": 1, "scripts": [[[3, 2], [3, 0], [3, 2], [4, 0], [3, 2], [4, 0]], [[3, 1]]], "sched": [0, 0, 1, 0, 0, 0, 0]},
            {"kind": "wp", "obj": "mr2w", "n": 1, "items": [0, 3, 5, 0], "scripts": [[[0, 0]]], "sched": [0, 1, 2, 3, 4]},
            {"kind": "wp", "obj": "mrctx", "n": 2, "items": [0, 0, 2, 0], "scripts": [[[0, 0]]], "sched": [0, 1, 3, 2, 4]},
            {"kind": "wp", "obj": "fxuw", "n": 1, "items": [0, 4, 0, 3], "scripts": [[[0, 0]]], "sched": [0, 4, 3, 2, 1]},
            {"kind": "wp", "obj": "fxwu", "n": 1, "items": [0, 0, 0], "scripts": [[[0, 0]]], "sched": [0, 1, 2, 3]},
            {"kind": "wg", "n": 3, "items": [3, 5, 4], "scripts": [[[0, 0]]], "sched": [0, 1, 2, 3]},
            {"kind": "pl", "n": 2, "maxage": -5, "scripts": [[[0, 0], [1, 0], [2, 500], [0, 0], [0, 0]]], "sched": [0, 0, 0, 0, 0, 0, 0]},
            # Return without Borrow, repeated: every one is reported, the capacity stays n
            {"kind": "lim", "obj": "limit", "n": 2, "scripts": [[[2, 0], [2, 0], [2, 0], [2, 0], [1, 0], [1, 0], [1, 0]], [[2, 0], [1, 0]]], "sched": [0, 0, 1, 0, 0, 0, 0, 1, 0]},
            {"kind": "lim", "obj": "tlimit", "n": 1, "scripts": [[[4, 0], [4, 0], [3, 0], [4, 0], [4, 0]], [[3, 1], [4, 0]]], "sched": [0, 0, 0, 1, 1, 0, 0]},
            {"kind": "lim", "obj": "tlimit", "n": 1, "scripts": [[[3, 0], [4, 0], [4, 0]], [[3, 0]], [[3, 1]]], "sched": [0, 1, 2, 0, 0]},
            {"kind": "lim", "obj": "maxconns", "n": 1, "scripts": [[[5, 1], [5, 0]], [[5, 0]], [[5, 0]]], "sched": [0, 1, 0, 2, 2, 0]},
            # the clients of the n requests inside go away (contexts cancelled), the handlers stay inside:
            # the probes that follow are refused until a handler has returned
            {"kind": "lim", "obj": "maxconns", "n": 2, "scripts": [[[5, 0], [5, 0]], [[5, 1]], [[6, 0], [6, 1], [5, 0], [5, 0], [6, 0], [5, 0]]], "sched": [0, 1, 2, 2, 2, 2, 0, 2, 2, 1, 0]},
            {"kind": "lim", "obj": "maxconns", "n": 1, "scripts": [[[5, 0]], [[6, 0], [5, 0], [6, 1], [5, 0]]], "sched": [0, 1, 1, 0, 1, 1]},
            {"kind": "lim", "obj": "maxconns", "n": 1, "ns": [1, 1], "inst": [0, 1, 0, 1], "scripts": [[[5, 0]], [[5, 0]], [[6, 0], [5, 0]], [[6, 1], [5, 0], [5, 0]]], "sched": [0, 1, 2, 3, 2, 3, 1, 3]},
            {"kind": "lim", "obj": "maxconns", "n": 0, "scripts": [[[5, 0]], [[6, 0], [5, 0]]], "sched": [0, 1, 1, 0]},
            # MaxConns in front of the real Timeout and Recover handlers: the slot comes back when the inner chain
            # answers 500 for a panicking handler
            {"kind": "lim", "obj": "maxchain", "n": 1, "scripts": [[[5, 1], [5, 0]], [[5, 0]], [[5, 3], [5, 0]]], "sched": [0, 1, 0, 2, 2, 0, 1, 2, 2]},
            {"kind": "lim", "obj": "maxchain", "n": 2, "ns": [2, 1], "inst": [0, 1, 0, 1], "scripts": [[[5, 1]], [[5, 1], [5, 0]], [[5, 0]], [[5, 0]]], "sched": [0, 1, 2, 3, 1, 3, 1, 0, 2]},
            {"kind": "lim", "obj": "maxchain", "n": 0, "scripts": [[[5, 1]], [[5, 0]]], "sched": [0, 1, 0, 1]},
            # n <= 0: "no limit": everybody inside at once, never a 503
            {"kind": "lim", "obj": "maxconns", "n": 0, "scripts": [[[5, 0]], [[5, 1]], [[5, 0]], [[5, 0]]], "sched": [0, 1, 2, 3, 1, 0]},
            {"kind": "lim", "obj": "maxconns", "n": -3, "scripts": [[[5, 0], [5, 0]], [[5, 1]]], "sched": [0, 1, 0, 0, 1]},
            # capacity 0: nothing is ever let in
            {"kind": "lim", "obj": "limit", "n": 0, "scripts": [[[1, 0], [2, 0], [0, 0]], [[1, 0]]], "sched": [0, 0, 0, 1]},
            {"kind": "lim", "obj": "tlimit", "n": 0, "scripts": [[[3, 1], [1, 0], [4, 0]]], "sched": [0, 0, 0]},
            {"kind": "lim", "obj": "limit", "n": 2000, "scripts": [[[0, 0], [0, 0], [1, 0], [2, 0]], [[1, 0], [2, 0], [2, 0], [2, 0], [2, 0]]], "sched": [0, 1, 0, 1, 0, 1, 0, 1, 1]},
            # two instances at once: thread i uses instance inst[i]
            {"kind": "lim", "obj": "limit", "n": 1, "ns": [1, 2], "inst": [0, 1, 0, 1], "scripts": [[[0, 0], [2, 0]], [[0, 0], [0, 0]], [[1, 0], [0, 0]], [[1, 0], [2, 0]]], "sched": [0, 1, 2, 3, 1, 2, 0, 3, 3]},
            {"kind": "lim", "obj": "maxconns", "n": 1, "ns": [1, 1], "inst": [0, 1, 0, 1], "scripts": [[[5, 0]], [[5, 1]], [[5, 0]], [[5, 0]]], "sched": [0, 1, 2, 3, 0, 1, 2, 3]},
            {"kind": "tr", "n": 1, "scripts": [[[0, 1], [1, 0]], [[0, 0]]], "sched": [0, 0, 1, 2, 3]},
            {"kind": "tr", "n": 2, "scripts": [[[1, 1], [1, 0], [1, 0]], [[0, 0], [0, 1]]], "sched": [0, 0, 0, 1, 1, 2, 3, 4]},
            # Wait blocks while a task is inside or a Schedule is pending
            {"kind": "tr", "n": 1, "scripts": [[[0, 1], [2, 0], [1, 0]], [[2, 0], [0, 0], [2, 0]]], "sched": [1, 0, 0, 1, 1, 2, 3, 0]},
            {"kind": "tr", "n": 0, "scripts": [[[1, 0], [2, 0], [0, 0]], [[2, 0]]], "sched": [0, 0, 0, 1]},
            {"kind": "tr", "n": 1, "ns": [1, 1], "inst": [0, 1], "scripts": [[[0, 0], [1, 0]], [[0, 1], [0, 0], [2, 0]]], "sched": [0, 1, 0, 1, 2, 3, 1]},
            {"kind": "wp", "obj": "mr", "n": 2, "items": [0, 1, 0, 0], "scripts": [[[0, 0]]], "sched": [0, 2, 1, 3]},
            {"kind": "wp", "obj": "fx", "n": 1, "items": [1, 0, 1], "scripts": [[[0, 0]]], "sched": [0, 1, 2, 3]},
            {"kind": "wp", "obj": "fxp", "n": 2, "items": [0, 1, 0, 0, 0], "scripts": [[[0, 0]]], "sched": [0, 2, 1, 4, 3, 5]},
            {"kind": "wp", "obj": "mr", "n": 3, "items": [0, 0, 0, 0, 0], "scripts": [[[0, 0]]], "sched": [3, 0, 3, 1, 2, 5, 4]},
            {"kind": "wp", "obj": "mrmr", "n": 2, "items": [0, 1, 0, 0], "scripts": [[[0, 0]]], "sched": [0, 2, 1, 3]},
            {"kind": "wp", "obj": "mrvoid", "n": 0, "items": [0, 0, 1], "scripts": [[[0, 0]]], "sched": [0, 1, 2, 3]},
            {"kind": "wp", "obj": "mrchan", "n": -1, "items": [0, 0], "scripts": [[[0, 0]]], "sched": [0, 2, 1]},
            {"kind": "wp", "obj": "finish", "n": 0, "items": [0, 0, 1, 0], "scripts": [[[0, 0]]], "sched": [0, 3, 1, 2, 4]},
            {"kind": "wp", "obj": "finish", "n": 0, "items": [], "scripts": [[[0, 0]]], "sched": [0]},
            {"kind": "wp", "obj": "finishvoid", "n": 0, "items": [], "scripts": [[[0, 0]]], "sched": [0]},
            # cancel(err): the caller gets the error at once, nothing more is dispatched, the running mappers finish
            {"kind": "wp", "obj": "mrmr", "n": 2, "items": [0, 2, 0, 0, 0], "scripts": [[[0, 0]]], "sched": [0, 2, 1, 3]},
            {"kind": "wp", "obj": "mrvoid", "n": 1, "items": [2, 0, 0], "scripts": [[[0, 0]]], "sched": [0, 1, 2]},
            {"kind": "wp", "obj": "mrchan", "n": 3, "items": [0, 0, 2, 0], "scripts": [[[0, 0]]], "sched": [0, 3, 1, 2, 4]},
            {"kind": "wp", "obj": "finish", "n": 0, "items": [0, 2, 0], "scripts": [[[0, 0]]], "sched": [0, 2, 3, 1]},
            {"kind": "wp", "obj": "finishvoid", "n": 0, "items": [0, 1, 0], "scripts": [[[0, 0]]], "sched": [0, 1, 3, 2]},
            # cancel first, then the mappers still running panic: the caller has the cancel error already
            {"kind": "wp", "obj": "mrmr", "n": 3, "items": [2, 1, 1, 0, 0], "scripts": [[[0, 0]]], "sched": [0, 1, 2, 3]},
            {"kind": "wp", "obj": "finish", "n": 0, "items": [2, 1, 0, 5], "scripts": [[[0, 0]]], "sched": [0, 1, 4, 2, 3]},
            # default workers: one item more than the default
            {"kind": "wp", "obj": "mrdef", "n": 0, "items": [0] * (self._c()["mr_default"] + 1), "scripts": [[[0, 0]]], "sched": [0, 3, 1]},
            {"kind": "wp", "obj": "fxdef", "n": 0, "items": [0] * (self._c()["fx_default"] + 1), "scripts": [[[0, 0]]], "sched": [0, 5, 2]},
            {"kind": "wp", "obj": "fxu", "n": 0, "items": [0, 1, 0, 0, 0, 0], "scripts": [[[0, 0]]], "sched": [0, 6, 2, 1]},
            {"kind": "wp", "obj": "fxmap", "n": 0, "items": [0, 1, 0], "scripts": [[[0, 0]]], "sched": [0, 1, 2, 3]},
            {"kind": "wp", "obj": "fxfilter", "n": 2, "items": [1, 0, 0, 0], "scripts": [[[0, 0]]], "sched": [0, 2, 1, 3, 4]},
            # fx sources: an open buffered source that is exactly full (k <= workers) when the stage is attached,
            # then more than `workers` items arrive while the walk function is parked
            {"kind": "wp", "obj": "fx", "n": 2, "items": [0] * 8, "src": {"shape": "buffer", "cap": 2, "pre": 2}, "sink": 0, "scripts": [[[0, 0]]], "sched": [0, 1, 2, 3]},
            {"kind": "wp", "obj": "fx", "n": 2, "items": [0, 0, 1, 0, 0], "src": {"shape": "range", "cap": 2, "pre": 2}, "sink": 1, "scripts": [[[0, 0]]], "sched": [0, 2, 1, 3]},
            {"kind": "wp", "obj": "fxmap", "n": 3, "items": [0] * 6, "src": {"shape": "range", "cap": 1, "pre": 1}, "sink": 2, "scripts": [[[0, 0]]], "sched": [0, 1, 2]},
            {"kind": "wp", "obj": "fxp", "n": 1, "items": [0, 0, 0], "src": {"shape": "range", "cap": 1, "pre": 1}, "scripts": [[[0, 0]]], "sched": [0, 1]},
            {"kind": "wp", "obj": "fxfilter", "n": 2, "items": [0, 3, 0, 0], "src": {"shape": "range", "cap": 4, "pre": 4, "closed": True}, "sink": 0, "scripts": [[[0, 0]]], "sched": [0, 1, 2]},
            {"kind": "wp", "obj": "fx", "n": 2, "items": [0, 0], "src": {"shape": "just"}, "sink": 0, "scripts": [[[0, 0]]], "sched": [0, 2, 1]},
            {"kind": "wp", "obj": "fx", "n": 2, "items": [0, 0, 0, 1, 0], "src": {"shape": "just"}, "sink": 2, "scripts": [[[0, 0]]], "sched": [0, 2, 1]},
            {"kind": "wp", "obj": "fx", "n": 2, "items": [0, 1, 0, 0, 0], "src": {"shape": "concat"}, "sink": 0, "scripts": [[[0, 0]]], "sched": [0, 2, 1]},
            {"kind": "wp", "obj": "fxmap", "n": 1, "items": [0, 0, 5, 0], "src": {"shape": "chain"}, "sink": 1, "scripts": [[[0, 0]]], "sched": [0, 1, 2]},
            {"kind": "wp", "obj": "fxdef", "n": 0, "items": [0] * (self._c()["fx_default"] + 2), "src": {"shape": "range", "cap": 2, "pre": 2}, "sink": 0, "scripts": [[[0, 0]]], "sched": [0, 4, 1]},
            {"kind": "wp", "obj": "fx", "n": 3, "items": [0] * 6, "src": {"shape": "buffer", "cap": 0, "pre": 0}, "sink": 0, "scripts": [[[0, 0]]], "sched": [0, 1, 2]},
            {"kind": "wg", "n": 3, "items": [0, 1, 0], "scripts": [[[0, 0]]], "sched": [0, 2, 1, 3]},
            {"kind": "wg", "n": 1, "items": [1], "scripts": [[[0, 0]]], "sched": [0, 1]},
            {"kind": "wg", "n": 0, "items": [], "scripts": [[[0, 0]]], "sched": [0]},
            {"kind": "wg", "n": -2, "items": [], "scripts": [[[0, 0]]], "sched": [0]},
            {"kind": "cond", "obj": "cond", "n": 1, "scripts": [[]], "sched": []},
            {"kind": "ctor", "obj": "limit", "n": 0, "scripts": [[]], "sched": []},
            {"kind": "ctor", "obj": "limit", "n": -1, "scripts": [[]], "sched": []},
            {"kind": "ctor", "obj": "tlimit", "n": -1, "scripts": [[]], "sched": []},
            {"kind": "ctor", "obj": "taskrunner", "n": -1, "scripts": [[]], "sched": []},
            {"kind": "ctor", "obj": "taskrunner", "n": 0, "scripts": [[]], "sched": []},
            {"kind": "ctor", "obj": "pool", "n": 0, "scripts": [[]], "sched": []},
            {"kind": "ctor", "obj": "pool", "n": -5, "scripts": [[]], "sched": []},
            {"kind": "ctor", "obj": "pool", "n": 1, "scripts": [[]], "sched": []},
            {"kind": "pl", "n": 1, "maxage": 100, "scripts": [[[0, 0], [1, 0], [2, 500], [0, 0], [1, 0]], [[0, 0], [1, 0]]], "sched": [0, 1, 0, 0, 0, 0]},
            {"kind": "pl", "n": 2, "maxage": 100, "scripts": [[[0, 0], [0, 0], [1, 0], [1, 0], [2, 150], [0, 0]], [[0, 0], [1, 0]]], "sched": [0, 0, 1, 0, 0, 0, 0, 1]},
            {"kind": "pl", "n": 1, "maxage": 100, "scripts": [[[3, 0], [0, 0], [3, 0], [1, 0], [3, 0]], [[0, 0]]], "sched": [0, 0, 1, 0, 0, 0, 0]},
            # create() panics (F34): the slot is not used up - the Gets that follow get in; also after an expiry
            {"kind": "pl", "n": 1, "maxage": 0, "scripts": [[[4, 0], [0, 0], [1, 0], [4, 0], [1, 0]], [[4, 0], [0, 0]]], "sched": [0, 0, 1, 0, 0, 0, 1, 1]},
            {"kind": "pl", "n": 2, "maxage": 100, "scripts": [[[0, 0], [1, 0], [2, 500], [4, 0], [4, 0], [0, 0], [0, 0]], [[4, 0], [0, 0]]], "sched": [0, 0, 0, 0, 1, 0, 0, 0, 0, 1]},
            # Get1 parked inside create() (pool lock held); Get2, Get3 invoked: they must block
            {"kind": "pl", "n": 1, "maxage": 0, "scripts": [[[0, 0], [1, 0]], [[0, 0], [1, 0]], [[0, 0], [1, 0]]], "sched": [0, 1, 2, 0, 0, 1, 2]},
            {"kind": "pl", "n": 2, "maxage": 0, "scripts": [[[0, 0], [1, 0]], [[0, 0]], [[0, 0], [1, 0]], [[1, 0], [0, 0]]], "sched": [0, 1, 2, 3, 0, 1, 1, 2, 0, 2]},
            {"kind": "pl", "n": 3, "maxage": 100, "scripts": [[[0, 0]], [[0, 0]], [[0, 0]], [[0, 0]]], "sched": [0, 1, 2, 3, 0, 3, 2, 1]},
            # a Put and two Gets queue up behind a create(): the order in which they get the lock is the pool's choice
            {"kind": "pl", "n": 2, "maxage": 0, "scripts": [[[0, 0], [1, 0]], [[0, 0], [1, 0]], [[0, 0], [1, 0]]], "sched": [2, 0, 1, 1, 0, 2, 1, 1, 2, 1, 2]},
            {"kind": "pl", "n": 1, "ns": [1, 2], "inst": [0, 1, 0, 1], "maxage": 0, "scripts": [[[0, 0], [1, 0]], [[0, 0], [0, 0]], [[0, 0], [1, 0]], [[0, 0], [1, 0]]], "sched": [0, 1, 2, 3, 0, 1, 1, 3, 0, 2, 2]},
        ]

    def _enumerated(self):
        cases = []
        ops = LIM_OPS["limit"]
        scripts = [[a] for a in ops] + [[a, b] for a in ops for b in ops]
        i = 0
        for s0 in scripts:
            for s1 in scripts:
                i += 1
                sch = [[0, 1, 0, 1], [0, 0, 1, 1], [1, 0, 0, 1]][i % 3]
                cases.append({"kind": "lim", "obj": "limit", "n": 1, "scripts": [s0, s1], "sched": sch})
        return cases

    def _pool_overlap(self, rng):
        """Gets that overlap a create() in progress: the first Get parks inside create() (pool lock
        held), the others are invoked meanwhile; then everything is released in random order"""
        n = rng.choice([1, 1, 2, 2, 3])
        nt = rng.randint(n + 1, n + 3)
        scripts = [[[0, 0] if rng.random() < 0.85 else [4, 0]] + ([[1, 0]] if rng.random() < 0.7 else []) +
                   ([[0, 0]] if rng.random() < 0.3 else []) for _ in range(nt)]
        first = list(range(nt))
        rng.shuffle(first)
        rest = [rng.randrange(nt) for _ in range(rng.randint(nt, 4 * nt))]
        return self._value_policy(rng, {"kind": "pl", "n": n, "maxage": rng.choice([0, 0, 100]), "scripts": scripts, "sched": first + rest})

    def _pool_phases(self, rng):
        """grow - drain - (expire) - refill, several times on one long-lived pool"""
        n = rng.choice([1, 2, 2, 3])
        nt = rng.randint(1, 3)
        scripts = []
        for _ in range(nt):
            s = []
            for _ in range(rng.randint(2, 3)):
                k = rng.randint(1, n)
                s += [[4, 0]] * (rng.random() < 0.3) + [[0, 0]] * k + [[1, 0]] * k
                if rng.random() < 0.7:
                    s.append([2, rng.choice([50, 150, 500])])
            scripts.append([list(o) for o in s[:10]])
        total = sum(len(s) for s in scripts)
        sched = [rng.randrange(nt) for _ in range(rng.randint(total, 2 * total))]
        return self._value_policy(rng, {"kind": "pl", "n": n, "maxage": 100, "scripts": scripts, "sched": sched})

    def _pool_stale_put(self, rng):
        """seed C05-4 class: a Put (or several) while idle resources are stale - all of them, or only the
        bottom of the stack - then Gets up to the limit and one more, which must block"""
        n = rng.choice([2, 2, 3, 3, 4])
        m = rng.randint(2, n)                     # resources taken by thread 0
        j = rng.randint(1, m - 1)                 # returned early: they go stale
        s = [[0, 0]] * m + [[1, 0]] * j + [[2, rng.choice([150, 500])]]
        rest = m - j
        if rest > 1 and rng.random() < 0.5:       # a fresh one between the stale bottom and the last Put
            s += [[1, 0], [2, rng.choice([30, 60])]]
            rest -= 1
        s += [[1, 0]] * rest
        if rng.random() < 0.3:
            s.append([2, rng.choice([30, 150])])
        s += [[0, 0]] * n
        scripts = [[list(o) for o in s], [[0, 0]] + ([[1, 0], [0, 0]] if rng.random() < 0.5 else [])]
        sched = [0] * len(s) + [1] + [rng.randrange(2) for _ in range(4)]
        if rng.random() < 0.3:                    # the second user takes part from the start
            scripts[1] = [[0, 0], [1, 0]] + scripts[1]
            at = sorted(rng.sample(range(len(s)), 2))
            sched = sched[:at[0]] + [1] + sched[at[0]:at[1]] + [1] + sched[at[1]:]
        return {"kind": "pl", "n": n, "maxage": 100, "scripts": scripts, "sched": sched}

    @staticmethod
    def _value_policy(rng, c):
        """what create() returns: mostly the distinct ints, else equal / never-equal / uncomparable values; the
        indistinguishable ones (7-9) only where the executor's shadow of the idle stack is exact"""
        if rng.random() < 0.55:
            return c
        simple = len(c["scripts"]) == 1 and c.get("maxage", 0) <= 0 and not c.get("ns") \
            and not any(o[0] in (4, 5) for sc in c["scripts"] for o in sc)
        c["vp"] = rng.choice([1, 1, 2, 2, 3, 4, 5, 6] + ([7, 7, 8, 8, 9, 9] if simple else []))
        return c

    def _pool_values(self, rng):
        """seed C05-10 class: several resources out at once, returned while others sit idle (so that equal-valued
        ones meet on the idle stack), then Gets up to the limit and one more"""
        n = rng.choice([2, 2, 3, 3, 4])
        if rng.random() < 0.5:      # one user
            m = rng.randint(2, n)
            s = [[0, 0]] * m + [[1, 0]] * m + [[0, 0]] * n + [[1, 0]] * rng.randint(0, 2) + [[0, 0]] * rng.randint(0, 2)
            c = {"kind": "pl", "n": n, "maxage": 0, "scripts": [[list(o) for o in s]], "sched": [0] * (len(s) + 2)}
            c["vp"] = rng.choice([1, 2, 7, 8, 9, 7, 8, 9, 3, 4])
            return c
        nt = rng.randint(2, 3)
        scripts = []
        for _ in range(nt):
            k = rng.randint(1, 2)
            scripts.append([[0, 0]] * k + [[1, 0]] * k + [[0, 0]] * rng.randint(0, 2))
        total = sum(len(x) for x in scripts)
        sched = [rng.randrange(nt) for _ in range(rng.randint(total, 3 * total))]
        return {"kind": "pl", "n": n, "maxage": rng.choice([0, 0, 100]), "vp": rng.choice([1, 1, 2, 2, 3, 5]),
                "scripts": [[list(o) for o in sc] for sc in scripts], "sched": sched}

    def _pool_destroy_panic(self, rng):
        """seed C05-11 class: destroy() panics while Get drops an expired idle resource; afterwards the full
        capacity must be obtainable.  Exactly one idle resource at the moment of the panicking Get (see PGetX)."""
        n = rng.choice([1, 1, 2, 2, 3])
        s = []
        held = 0
        for _ in range(rng.randint(1, 3)):
            m = rng.randint(max(held, 1), n) - held      # take some more (at least one held in total)
            s += [[0, 0]] * m
            held += m
            s += [[1, 0], [2, rng.choice([150, 500])], [5, 0]]   # one goes idle, expires, its destroy() panics
            held -= 1
        s += [[1, 0]] * rng.randint(0, held)
        s += [[0, 0]] * (n + 1)
        scripts = [[list(o) for o in s], [[0, 0]] + ([[1, 0]] if rng.random() < 0.5 else [])]
        c = {"kind": "pl", "n": n, "maxage": 100, "scripts": scripts, "sched": [0] * (len(s) + 2) + [1, 0, 1, 0]}
        if rng.random() < 0.4:
            c["vp"] = rng.choice([1, 2, 3, 4, 5, 6])
        return c

    def _hijack(self, rng):
        """seed C05-3 class: handlers behind MaxConns that take the connection over; Close() of such a
        connection any number of times, by anybody, while other requests are inside; probes at the cap"""
        n = rng.choice([1, 1, 2, 2, 3])
        nt = rng.randint(3, 5)
        ops = LIM_OPS["maxhij"]
        scripts = [[list(rng.choice(ops)) for _ in range(rng.randint(1, 4))] for _ in range(nt)]
        scripts[0] = [[7, rng.choice([0, 0, 1, 2])], [8, 0]] + [[8, 0]] * rng.randint(1, 2) + [[5, 0]] * rng.randint(0, 1)
        c = {"kind": "lim", "obj": "maxhij", "n": n, "scripts": scripts}
        inst = [0] * nt
        if rng.random() < 0.25:
            c["ns"] = [n, n] if rng.random() < 0.5 else [n, rng.choice([1, 2])]
            inst = [0, 0, 1] + [rng.randrange(2) for _ in range(nt - 3)]
            c["inst"] = inst
        self._aim_env_ops(rng, c, inst)
        total = sum(len(x) for x in scripts)
        c["sched"] = [rng.randrange(nt) for _ in range(rng.randint(total, 3 * total))]
        return c

    def _engine(self, rng):
        """seed C05-9 class: MaxConns as configured in a rest.Server, routes bound by the engine itself; the
        first requests of every route arrive together; several routes; server.Use / route-level middlewares,
        the Timeout / Recover handlers behind MaxConns, or a user chain (rest.WithChain) that contains it"""
        n = rng.choice([1, 1, 1, 2, 2, 3, 0])
        routes = rng.choice([1, 2, 2, 3])
        inst = [0, 0] + list(range(1, routes)) + [rng.randrange(routes) for _ in range(rng.randint(0, 3))]
        nt = len(inst)
        eng = {"use": rng.choice([0, 1, 1, 2]), "chain": rng.choice([0, 0, 1, 2]), "group": rng.choice([0, 1, 2, 3])}
        if rng.random() < 0.1:
            eng["off"] = True
        ops = LIM_OPS["engine_hij" if eng["chain"] != 1 and rng.random() < 0.4 else "engine"]
        if eng["chain"] == 1:
            # behind the Timeout handler no context is cancelled: TimeoutHandler itself answers 499 and lets the
            # body run on, which ends MaxConns' region while the route handler is still inside (see maxchain)
            ops = [o for o in ops if o[0] != 6]
        scripts = []
        for _ in range(nt):
            s = [list(rng.choice(ops)) for _ in range(rng.randint(1, 3))]
            if s[0][0] not in (5, 7):
                s[0] = [5, 0]
            scripts.append(s)
        c = {"kind": "lim", "obj": "engine", "n": n, "ns": [n] * routes, "inst": inst, "eng": eng, "scripts": scripts}
        self._aim_env_ops(rng, c, inst)
        first = list(range(nt))
        rng.shuffle(first)
        total = sum(len(x) for x in scripts)
        c["sched"] = first + [rng.randrange(nt) for _ in range(rng.randint(total, 3 * total))]
        return c

    @staticmethod
    def _aim_env_ops(rng, c, inst):
        """whose request context is cancelled / whose hijacked connection is closed: a thread of the same
        instance (mostly another one)"""
        nt = len(c["scripts"])
        for t, sc in enumerate(c["scripts"]):
            for o in sc:
                if o[0] in ENV_OPS and o[1] < 0:
                    peers = [u for u in range(nt) if inst[u] == inst[t] and u != t] or [t]
                    if o[0] == 8:
                        peers = [u for u in peers if any(x[0] == 7 for x in c["scripts"][u])] or peers
                    o[1] = rng.choice(peers + peers + [t])

    def _workers(self, rng):
        """mr / fx entry points with WithWorkers(n) (n <= 0 too), default and unlimited workers, and
        WorkerGroup; gated mapper / walk / job functions, some panic"""
        c = self._c()
        r = rng.random()
        if r < 0.15:
            n = rng.choice([0, 1, 1, 2, 3, 4])
            items = [rng.choice([1, 1, 3, 4, 5]) if rng.random() < 0.35 else 0 for _ in range(n)]
            sched = [0] + [rng.randint(0, n) for _ in range(rng.randint(n, 2 * n + 1))]
            return {"kind": "wg", "n": n, "items": items, "scripts": [[[0, 0]]], "sched": sched}
        obj = rng.choice(["mr", "mr", "mr2w", "mrmr", "mrmr", "mrctx", "mrvoid", "mrchan", "finish", "finishvoid",
                          "fx", "fx", "fxp", "fxmap", "fxfilter", "fxu", "fxuw", "fxwu"] + (["mrdef", "fxdef"] if r > 0.9 else []))
        n = rng.choice([-1, 0, 1, 1, 2, 2, 3])
        if obj in ("mrdef", "fxdef"):
            k = c["mr_default" if obj == "mrdef" else "fx_default"] + rng.randint(0, 2)
            items = [0] * k       # nobody panics: the cap is what is looked at
        else:
            k = rng.randint(0 if obj in ("finish", "finishvoid") else 1, 6 if obj not in FX_OBJS else 7)
            # panicking items, or (MapReduce family) cancelling ones; never both in one run: which of
            # the two the caller reports would depend on their order
            cancels = obj in WAITALL and rng.random() < 0.4
            items = [(2 if cancels else rng.choice([1, 1, 4, 5])) if rng.random() < 0.25 else 3 if rng.random() < 0.1 else 0
                     for _ in range(k)]
        sched = [0] + [rng.randint(0, k) for _ in range(rng.randint(k, 3 * k) if k <= 8 else rng.randint(3, 8))]
        if obj in WAITALL and k >= 2 and rng.random() < 0.12:
            # cancel FIRST, panics afterwards (in that order the caller's result is the cancel error whatever
            # the mappers still running do): item 0 cancels and is released first, the others return or panic
            items = [2] + [rng.choice([0, 1, 4, 5]) for _ in range(k - 1)]
            sched = [0, 1] + sched[1:]
        elif rng.random() < 0.15:
            rng.shuffle(sched)
        case = {"kind": "wp", "obj": obj, "n": n, "items": items, "scripts": [[[0, 0]]], "sched": sched}
        if obj in FX_OBJS:
            case["src"] = self._fx_source(rng, case)
            case["sink"] = rng.choice([0, 0, 1, 2])
        return case

    def _fx_source(self, rng, case):
        """source constructor x buffer state at the moment the stage is attached (relative to the
        worker count w and the number of items k)"""
        w = self.eff_workers(case)[2] if case["obj"] not in UNLIMITED else max(case["n"], 1)
        k = len(case["items"])
        shape = rng.choice(["from", "from", "just", "range", "range", "range", "buffer", "buffer", "concat", "chain"])
        if case["obj"] == "fxdef" and shape in ("concat", "chain"):
            shape = "range"
        if shape in ("from", "just", "concat", "chain"):
            return {"shape": shape}
        cap = rng.choice([0, 1, max(w - 1, 0), w, w, w, w + 1, k, k + 1])
        if case["obj"] == "fxdef":
            cap = rng.choice([2, w, w])
        pre = rng.choice([0, cap // 2, cap, cap, cap])
        src = {"shape": shape, "cap": cap, "pre": pre}
        if shape == "range" and pre >= k and rng.random() < 0.5:
            src["closed"] = True
        return src

    def _random(self, rng):
        r = rng.random()
        if r < 0.27:
            return self._workers(rng)
        if r < 0.37:
            return rng.choice([self._engine, self._engine, self._hijack, self._pool_stale_put, self._pool_values, self._pool_destroy_panic])(rng)
        kind = rng.choice(["lim", "lim", "lim", "tr", "tr", "pl", "pl"])
        n = rng.choice([1, 1, 1, 2, 2, 2, 3, 4, 0, 2000] if kind != "pl" else [1, 1, 2, 2, 3, 4])
        nt = rng.randint(1, 6)
        c = {"kind": kind, "n": n}
        two = rng.random() < 0.2 and nt >= 2
        if kind == "lim":
            obj = rng.choice(["limit", "limit", "tlimit", "tlimit", "maxconns", "maxconns", "maxchain"])
            c["obj"] = obj
            if obj in ("maxconns", "maxchain") and rng.random() < 0.15:
                c["n"] = rng.choice([0, -1])
            ops = LIM_OPS[obj]
            if obj == "limit" and c["n"] == 0:
                # NewLimit(0) is an unbuffered channel: a (rogue) Return would rendezvous with a blocked
                # Borrow; n = 0 is outside the property, only the non-blocking calls are driven
                ops = [[1, 0], [2, 0]]
            c["scripts"] = [[list(rng.choice(ops)) for _ in range(rng.randint(1, 4))] for _ in range(nt)]
            actors = nt
        elif kind == "tr":
            c["scripts"] = [[[rng.choice([0, 0, 0, 1, 1, 2]), rng.choice([0, 0, 0, 0, 1, 1, 2, 3, 4])] for _ in range(rng.randint(1, 3))] for _ in range(nt)]
            for sc in c["scripts"]:
                for o in sc:
                    if o[0] == 2:
                        o[1] = 0
            actors = nt + sum(1 for s in c["scripts"] for o in s if o[0] != 2)
        else:
            c["maxage"] = rng.choice([0, 100, 100, 100, 100, -5]) if not two else 0
            sc = []
            for _ in range(nt):
                s = []
                for _ in range(rng.randint(1, 5)):
                    r = rng.random()
                    s.append([0, 0] if r < 0.36 else [4, 0] if r < 0.44 else [1, 0] if r < 0.76 else [3, 0] if r < 0.8 or two
                             else [2, rng.choice([50, 150, 150])])
                sc.append(s)
            c["scripts"] = sc
            actors = nt
        if two:
            n2 = rng.choice([1, 2, 3]) if c["n"] > 0 else c["n"]
            c["ns"] = [c["n"], n2]
            c["inst"] = [0, 1] + [rng.randrange(2) for _ in range(nt - 2)]
        if kind == "lim":
            # whose request context is cancelled: a thread of the same instance (mostly another one)
            inst = c.get("inst") or [0] * nt
            for t, sc in enumerate(c["scripts"]):
                for o in sc:
                    if o[0] in ENV_OPS:
                        peers = [u for u in range(nt) if inst[u] == inst[t] and u != t] or [t]
                        o[1] = rng.choice(peers + peers + [t])
        total = sum(len(s) for s in c["scripts"])
        c["sched"] = [rng.randrange(actors) for _ in range(rng.randint(total, 3 * total))]
        if kind == "pl":
            self._value_policy(rng, c)
        return c

    def gen(self, rng, n, tier):
        cases = []
        if tier != "search":
            cases = self._enumerated()
            if tier == "quick":
                rng.shuffle(cases)
                cases = cases[: n // 6]
        for _ in range(max(40, n // 12)):
            cases.append(self._pool_overlap(rng))
        for _ in range(max(15, n // 30)):
            cases.append(self._pool_phases(rng))
        for fam in (self._pool_stale_put, self._pool_values, self._pool_destroy_panic, self._hijack, self._engine, self._engine):
            for _ in range(max(8, n // 50)):
                cases.append(fam(rng))
        while len(cases) < n:
            cases.append(self._random(rng))
        return cases

    # ---- execution ---------------------------------------------------------------------------
    def execute(self, cases, ctx):
        # threads left blocked for ever at the end of a case (Borrow without Return, ...) stay in
        # the process and make every later stack snapshot slower: run batches in fresh processes
        import concurrent.futures
        chunks = [cases[i:i + 150] for i in range(0, len(cases), 150)]

        def work(ix):
            rc, out, res = vlib.go_run(self.bin, chunks[ix], tag="c05_%d" % ix, timeout=600)
            if rc != 0 or len(res) != len(chunks[ix]):
                raise ExecError("c05 executor rc=%s: %s" % (rc, out[-2000:]))
            return res

        with concurrent.futures.ThreadPoolExecutor(max_workers=4) as ex:
            parts = list(ex.map(work, range(len(chunks))))
        res = [r for p in parts for r in p]
        return [self._digest(c, r) for c, r in zip(cases, res)]

    @staticmethod
    def _order_events(case, s):
        """Canonical order of the events of one macro step.  The released actor's events come first:
        every other actor was parked or blocked when the step began and only moves as a consequence of
        the released actor's call, whose linearisation point therefore precedes their events (the order
        in which two goroutines reach the shared logger is a race, not an observation).  Pool: each
        acquisition of the pool lock is logged under the lock ("lk"), which IS the order of the critical
        sections; a "ret" logged after the lock was released is moved back to the critical section it
        belongs to (the actor's last lk / create / destroy event of this step)."""
        evs = s["ev"]
        if case["kind"] != "pl":
            return [e for e in evs if e["a"] == s["a"]] + [e for e in evs if e["a"] != s["a"]]
        last_cs = {}
        keyed = []
        for i, e in enumerate(evs):
            if e["k"] in ("lk", "create", "destroy"):
                last_cs[e["a"]] = i
                keyed.append(((i, 0, i), e))
            elif e["k"] == "ret" and e["a"] in last_cs:
                keyed.append(((last_cs[e["a"]], 1, i), e))
            elif e["a"] == s["a"] and e["a"] not in last_cs:
                keyed.append(((-1, 0, i), e))
            else:
                keyed.append(((i, 0, i), e))
            if e["k"] == "inv":
                last_cs.pop(e["a"], None)
        keyed.sort(key=lambda x: x[0])
        return [e for _, e in keyed]

    def _digest(self, case, r):
        """One observation part per instance (see Check.v, case1)."""
        if r.get("err"):
            return {"err": r["err"], "parts": []}
        if case["kind"] in ("ctor", "cond"):
            return {"parts": [{"inst": 0, "threads": [0], "steps": [], "log": [], "res": [[r.get("r", 0)]]}]}
        nt = len(case["scripts"])
        inst = case.get("inst") or [0] * nt
        ninst = len(case.get("ns") or [0])
        # instance of every actor: threads by the case, task actors (tr) by their first event
        owner = {t: inst[t] for t in range(nt)}
        steps = r.get("steps") or []
        for s in steps:
            for e in s["ev"]:
                if e["a"] not in owner:
                    owner[e["a"]] = (e.get("v") or [0])[0] if case["kind"] == "tr" else 0
        parts = []
        for k in range(ninst):
            mine = sorted(a for a, o in owner.items() if o == k)
            threads = [a for a in mine if a < nt]
            loc = {a: i for i, a in enumerate(threads)}
            for j, a in enumerate(x for x in mine if x >= nt):
                loc[a] = len(threads) + j if case["kind"] == "tr" else a
            osteps, log = [], []
            res = [[] for _ in threads]
            lastt = 0
            for s in steps:
                foreign = s["a"] not in loc
                order = []
                for e in self._order_events(case, s):
                    if e["a"] not in loc:
                        continue
                    kk = EK[e["k"]]
                    a = loc[e["a"]]
                    if case["kind"] == "pl":
                        if kk == 8:
                            order.append(a)
                    elif kk in (0, 1, 2, 3, 5, 6) and a not in order:
                        order.append(a)
                    if kk == 8:
                        continue
                    v = (e.get("v") or [0])[0]
                    if case["kind"] == "tr" and kk in (1, 2):
                        v = 0
                    if kk == 10:
                        v = loc.get(v, FOREIGN)     # the hijacker, as a thread of this instance
                    log.append([e["t"], a, kk, e["op"], v])
                    lastt = e["t"]
                    if kk == 3 and e["a"] < nt:
                        op = case["scripts"][e["a"]][e["op"]]
                        res[a].append(-1 if (case["kind"] == "pl" and op[0] not in (0, 4, 5)) else v)
                stat = {loc[x["a"]]: x for x in s["st"] if x["a"] in loc}
                ids = sorted(stat)
                order += [t for t in ids if t not in order]
                sts = []
                skip = s["skip"] or foreign
                for t in ids:
                    x = stat[t]
                    if x["st"] == 2:
                        sts.append([2, 0])
                    elif x["st"] == 0:
                        sts.append([0 if x.get("l") == "call" else 3, x["op"]])
                    else:
                        sts.append([1, x["op"]])
                        if not skip and t < len(threads):
                            log.append([lastt, t, 4, x["op"], 0])
                osteps.append({"a": FOREIGN if foreign else loc[s["a"]], "skip": skip, "order": order, "st": sts})
            parts.append({"inst": k, "threads": threads, "steps": osteps, "log": log, "res": res})
        return {"parts": parts}

    # ---- Coq rendering -----------------------------------------------------------------------
    @staticmethod
    def _lop(o, loc=None):
        if o[0] in ENV_OPS:
            # neither a cancelled request context nor a Close() of a hijacked connection touches the limit
            return "LCancel %d%%nat" % (o[1] if loc is None else loc.get(o[1], FOREIGN))
        return {0: "LBorrow", 1: "LTry", 2: "LReturn", 3: "LTBorrow %s" % cbool(o[1] >= 1), 4: "LTReturn",
                5: "LReq %s" % cbool(o[1] >= 1), 7: "LReq %s" % cbool(o[1] == 3)}[o[0]]

    def eff_workers(self, case):
        """(variant, waitall, effective cap) of a wp case for today's constants"""
        c = self._c()
        obj, n, k = case["obj"], case["n"], len(case["items"])
        if obj in MR_OBJS:
            cap = {"mrdef": c["mr_default"], "finish": max(k, c["mr_min"]), "finishvoid": max(k, c["mr_min"])}.get(obj, max(n, c["mr_min"]))
            return "WMr", obj in WAITALL, cap
        cap = c["fx_default"] if obj == "fxdef" else max(k, 1) if obj in UNLIMITED else max(n, c["fx_min"])
        return "WFx", False, cap

    def _kase(self, case, threads=None, inst=0):
        scripts = case["scripts"] if threads is None else [case["scripts"][t] for t in threads]
        n = (case.get("ns") or [case["n"]])[inst]
        if case["kind"] == "lim":
            loc = None if threads is None else {t: i for i, t in enumerate(threads)}
            sc = clist([clist([self._lop(o, loc) for o in s]) for s in scripts])
            eng = case.get("eng") or {}
            # Middlewares.MaxConns = false switches the NATIVE middleware off; a user chain (rest.WithChain)
            # that contains MaxConnsHandler(n) keeps it
            if case["obj"] in MAXCONNS_OBJS and (n <= 0 or (eng.get("off") and eng.get("chain") != 2)):
                n = max(1, len(scripts))      # "no limit" = a cap nobody can reach (Props.maxconns_unlimited)
            return "(KLim %d%%nat %s)" % (max(n, 0), sc)
        if case["kind"] == "tr":
            sc = clist([clist([{0: "RSched %s", 1: "RSchedNow %s", 2: "RWait%s"}[o[0]] % (cbool(o[1] in (1, 2, 3)) if o[0] != 2 else "")
                               for o in s]) for s in scripts])
            return "(KTR %d%%nat %s)" % (max(n, 0), sc)
        if case["kind"] == "wp":
            v, wa, cap = self.eff_workers(case)
            # judged against the capacity the caller configured (n >= 1 given to WithWorkers: exactly n)
            jn = case["n"] if case["n"] >= 1 and case["obj"] not in ("mrdef", "fxdef", "finish", "finishvoid") + UNLIMITED else cap
            return "(KWP %s %s %d%%nat %d%%nat %s)" % (v, cbool(wa), cap, jn, clist([W_BEH[x] for x in case["items"]]))
        if case["kind"] == "wg":
            return "(KWG %d%%nat %s)" % (max(n, 0), clist([cbool(W_BEH[x] == "BPanic") for x in case["items"]]))
        if case["kind"] == "ctor":
            return "(KCtor %d%%nat %s)" % (CTOR_OBJ[case["obj"]], cz(n))
        if case["kind"] == "cond":
            return "KCond"
        sc = clist([clist([{0: "PGet", 1: "PPut", 2: "PAdv %s" % cz(o[1]), 3: "PAdv 0", 4: "PGetX", 5: "PGetX"}[o[0]] for o in s]) for s in scripts])
        return "(KPL %d%%nat %s %s)" % (n, cz(case.get("maxage", 0)), sc)

    def coq_case(self, case, obs):
        if obs.get("err"):
            # hung / no quiescence: not a history of the model, and the property cannot be confirmed
            return "[mkCase KErr true [] [] []]"
        out = []
        for p in obs["parts"]:
            steps = clist(["mkOStep %d%%nat %s %s %s" % (s["a"], cbool(s["skip"]),
                                                         clist(["%d%%nat" % t for t in s["order"]]),
                                                         clist(["(%s, %s)" % (cz(a), cz(b)) for a, b in s["st"]]))
                           for s in p["steps"]])
            res = clist([clist([cz(v) for v in r]) for r in p["res"]])
            log = clist(["mkEv %s %d%%nat %s %d%%nat %s" % (cz(e[0]), e[1], cz(e[2]), e[3], cz(e[4])) for e in p["log"]])
            threads = p["threads"] if case["kind"] in ("lim", "tr", "pl") else None
            out.append("mkCase %s true %s %s %s" % (self._kase(case, threads, p["inst"]), steps, res, log))
        return clist(out)

    @staticmethod
    def _logs(obs):
        return [e for p in obs.get("parts", []) for e in p["log"]]

    def nontrivial(self, case, obs):
        log = self._logs(obs)
        if any(e[2] == 4 for e in log):
            return True
        return any(e[2] == 3 and e[4] in (0, 2) and case["kind"] in ("lim", "tr") for e in log)

    def features(self, case, obs):
        fs = ["kind=%s" % (case["kind"] if case["kind"] not in ("lim", "wp", "ctor", "cond") else case["obj"]), "n=%d" % case["n"],
              "threads=%d" % len(case["scripts"])]
        log = self._logs(obs)
        if case.get("ns"):
            fs.append("two_instances")
        if case["kind"] == "pl":
            fs.append("values=%s" % ["distinct", "equal_strings", "equal_structs", "nan", "slices", "maps", "funcs",
                                     "same_int", "empty_struct", "shared_pointer"][case.get("vp", 0)])
        if any(e[2] == 4 for e in log):
            fs.append("has_blocked")
        if case["kind"] in ("lim", "tr") and any(e[2] == 3 and e[4] == 0 for e in log):
            fs.append("has_refused")
        if any(e[2] == 3 and e[4] == 2 for e in log) and case["kind"] == "lim":
            fs.append("has_timeout")
        if any(e[2] == 3 and e[4] == 3 for e in log) and case["kind"] == "lim":
            fs.append("has_handler_panic")
        if case["kind"] == "lim" and any(o[0] == 6 for s in case["scripts"] for o in s):
            fs.append("has_ctx_cancel")
        if case["kind"] == "lim" and any(o[0] == 7 for s in case["scripts"] for o in s):
            fs.append("has_hijack")
        if case["kind"] == "lim" and any(o[0] == 8 for s in case["scripts"] for o in s):
            fs.append("has_conn_close")
        if case.get("eng"):
            e = case["eng"]
            fs.append("engine:use=%d,chain=%d,group=%d%s" % (e.get("use", 0), e.get("chain", 0), e.get("group", 0), ",off" if e.get("off") else ""))
            fs.append("routes=%d" % len(case.get("ns") or [0]))
        if case["kind"] == "tr" and any(o[1] in (1, 2, 3) for s in case["scripts"] for o in s):
            fs.append("has_task_panic")
        if (case["kind"] == "tr" and any(o[1] == 4 for s in case["scripts"] for o in s)) or (case["kind"] in ("wp", "wg") and 3 in case["items"]):
            fs.append("has_goexit")
        if case["kind"] == "tr" and any(o[0] == 2 for s in case["scripts"] for o in s):
            fs.append("has_wait")
        if case["kind"] in ("wp", "wg") and any(x in (1, 4, 5) for x in case["items"]):
            fs.append("has_worker_panic")
        if case["kind"] == "wp" and 2 in case["items"]:
            fs.append("has_cancel")
        if case.get("src"):
            fs.append("src=%s" % case["src"]["shape"])
            if case["src"].get("cap") and case["src"].get("pre") == case["src"]["cap"]:
                fs.append("src_full_at_attach")
        if any(e[2] == 6 for e in log):
            fs.append("has_expiry_destroy")
        if case["kind"] == "pl" and any(e[2] == 3 and e[4] == -2 for e in log):
            fs.append("has_create_panic" if not any(o[0] == 5 for sc in case["scripts"] for o in sc) else "has_callback_panic")
        if case["kind"] == "pl" and any(o[0] == 5 for sc in case["scripts"] for o in sc):
            fs.append("has_destroy_panic")
        if any(s["skip"] and s["a"] != FOREIGN for p in obs.get("parts", []) for s in p["steps"]):
            fs.append("has_stutter")
        return fs

    def shrink_candidates(self, case):
        res = []
        sc, sched = case["scripts"], case["sched"]
        if case["kind"] in ("wp", "wg") and len(case["items"]) > 1 and case.get("obj") not in ("mrdef", "fxdef"):
            c = dict(case)
            c["items"] = case["items"][:-1]
            if case["kind"] == "wg":
                c["n"] = case["n"] - 1
            res.append(c)
        nt = len(sc)
        for t in range(nt):
            if nt > 1 and case["kind"] != "tr":
                c = dict(case)
                c["scripts"] = [[([o[0], o[1] - (1 if o[1] > t else 0)] if o[0] in ENV_OPS and case["kind"] == "lim" and o[1] != t
                                  else [o[0], 0] if o[0] in ENV_OPS and case["kind"] == "lim" else list(o)) for o in s1]
                                for s1 in sc[:t] + sc[t + 1:]]
                c["sched"] = [x - (1 if x > t else 0) for x in sched if x != t]
                if case.get("inst"):
                    c["inst"] = case["inst"][:t] + case["inst"][t + 1:]
                res.append(c)
            if len(sc[t]) > 1:
                c = dict(case)
                c["scripts"] = sc[:t] + [sc[t][:-1]] + sc[t + 1:]
                res.append(c)
        for i in range(len(sched)):
            c = dict(case)
            c["sched"] = sched[:i] + sched[i + 1:]
            res.append(c)
        return res[:150]

    def describe_failure(self, case, obs):
        if obs.get("err"):
            return "the implementation did not reach quiescence / hung under the forced schedule: %s" % obs["err"]
        return ("the observed event log violates C05: more holders than the cap, a request refused or blocked below "
                "the cap (leaked capacity), an extra Return not reported, a pooled resource handed to two users, "
                "a resource count above the limit, an expired resource handed out, a worker pool that ran more "
                "workers than configured or lost an item, or Wait returning while a task is live")

    # ---- free-running -race monitors (thorough tier) ----------------------------------------------
    def extra(self, ctx):
        if ctx.tier != "thorough":
            return []
        import random
        ok, res = vlib.go_build("c05", overlay=OVERLAY, race=True)
        if not ok:
            raise ExecError("c05 -race build failed: %s" % res[-1500:])
        rng = random.Random(ctx.seed * 17 + 5)
        cases = []
        while len(cases) < 300:
            c = self._random(rng)
            if c.get("obj") == "engine":
                # free-running: one route, every thread's requests race from the very first one
                c["ns"], c["inst"] = None, None
                c = {k: v for k, v in c.items() if v is not None}
                for sc in c["scripts"]:
                    for o in sc:
                        if o[0] in ENV_OPS:
                            o[1] = o[1] % len(c["scripts"])
            if c.get("ns") or c["kind"] == "wg" or c["n"] < 1 or c.get("obj") in ("mrdef", "fxdef", "fxu", "finish", "finishvoid"):
                continue
            c["scripts"] = (c["scripts"] * 3)[:8]
            if c["kind"] == "lim" and c["obj"] not in MAXCONNS_OBJS:
                # balanced holders: every acquisition is followed by a Return
                ret = [2, 0] if c["obj"] == "limit" else [4, 0]
                acq = [[0, 0], [1, 0]] if c["obj"] == "limit" else [[3, 0], [1, 0]]
                c["scripts"] = [sum([[list(rng.choice(acq)), ret] for _ in range(rng.randint(1, 4))], []) for _ in c["scripts"]]
            c["sched"] = []
            c["free"] = True
            c["id"] = len(cases)
            cases.append(c)
        for n in (1, 2, 3, 4):
            cases.append({"kind": "mrfx", "n": n, "scripts": [], "sched": [], "free": True, "id": len(cases)})
        rc, out, rs = vlib.go_run(res, cases, tag="c05race", timeout=900)
        fails = []
        if "DATA RACE" in out:
            fails.append({"what": "data race reported by the Go race detector in the free-running C05 harness",
                          "replay": {"output": out[-4000:]}})
        if rc != 0 and not fails:
            raise ExecError("c05 race run rc=%s: %s" % (rc, out[-2000:]))
        for c, r in zip(cases, rs):
            if r.get("err") or r.get("monitor"):
                fails.append({"what": "free-running monitor: %s" % (r.get("err") or r["monitor"][:3]), "replay": {"case": c}})
        ctx.notes.append("free-running -race monitor: %d cases (incl. mr/fx/WorkerGroup worker gauges), %d failures" % (len(cases), len(fails)))
        return fails[:5]


PROPERTY = C05()
