"""C05 — concurrency caps (Limit, TimeoutLimit, Pool, TaskRunner, MaxConns; mr/fx by direct monitor)."""
import itertools

import vlib
from runner import Property, ExecError
from vlib import cz, clist, cbool

EK = {"inv": 0, "fs": 1, "fe": 2, "ret": 3, "create": 5, "destroy": 6, "adv": 7}
OVERLAY = {"core/timex/relativetime.go": "/verif/harness/overlay/timex/relativetime.go"}
LIM_OPS = {"limit": [[0, 0], [1, 0], [2, 0]],
           "tlimit": [[1, 0], [3, 0], [3, 1], [4, 0]],
           "maxconns": [[5, 0], [5, 1]]}


class C05(Property):
    id = "C05"
    title = "Concurrency caps are never exceeded and capacity is never leaked"
    quick_cases = 600
    thorough_cases = 5000
    design_ref = "DESIGN.md §6/C05"
    level_text = ("Unbounded Rocq theorems over interleaving models of Limit/TimeoutLimit/MaxConnsHandler, TaskRunner "
                  "and Pool (any capacity n, any number of threads, any scripts, every schedule of the atomic "
                  "actions, panics in holders): the number of holders never exceeds n; capacity is never leaked "
                  "(all holders finished => all permits back); extra Returns are reported and never raise the "
                  "capacity; at the cap requests are refused or blocked; pooled resources are exclusive, "
                  "created = idle + held <= limit, expired idle resources are destroyed and uncounted. Tied to the Go "
                  "code by forced schedules (controller gates + quiescence detection); mr/fx worker caps by a "
                  "direct gauge under -race (thorough tier).")
    level_note = ("Trusted: Coq kernel + vm_compute; hand-written LTS (one action per channel operation / mutex "
                  "section); atomicity assumption; gate-level control cannot stop between library-internal actions; "
                  "timers of TimeoutLimit are fired in the correspondence only for zero timeouts; mr/fx are covered "
                  "by the Limit model (buffered-channel semaphore) plus a runtime gauge, not by a model of their own.")
    rule = ("cases: n 1..4, 1..6 threads, scripts up to 4 calls (Limit: Borrow/TryBorrow/Return; TimeoutLimit: "
            "Borrow long/zero timeout, TryBorrow, Return; MaxConns: requests whose handler returns or panics; TaskRunner: "
            "Schedule/ScheduleImmediately, tasks return or panic; Pool: Get/Put/advance clock with max-age), forced schedule "
            "= list of actor ids; non-trivial = some thread was refused or observed blocked at the cap; distinct = JSON hash")
    trusted_base = [
        "models theories/C05/Model.v are hand-written; tie = forced-schedule correspondence (harness/cmd/c05, harness/sched)",
        "core/timex/relativetime.go is replaced at build time by the virtual-clock overlay (Pool max-age)",
        "quiescence detection via runtime.Stack decides 'blocked'; atomicity assumed (race-checked free runs in the thorough tier)",
        "Go runtime (channels, sync.Cond, WaitGroup, net/http/httptest) is not modelled",
    ]
    assumptions = ["well-formed holders: a thread returns only permits / resources it holds (the theorems state this as "
                   "lrogue = false / scripts that Put what they got)",
                   "TimeoutLimit: a timer may fire at any time while waiting (all timeouts are covered by the schedule quantifier)"]

    def prepare(self, ctx):
        ok, res = vlib.go_build("c05", overlay=OVERLAY)
        self.bin = res if ok else None
        return ok, ("" if ok else res)

    # ---- generation ------------------------------------------------------------------------
    def corpus(self):
        return [
            {"kind": "lim", "obj": "limit", "n": 1, "scripts": [[[0, 0], [2, 0], [2, 0]], [[0, 0], [2, 0]], [[1, 0]]], "sched": [0, 1, 2, 0, 0, 1]},
            {"kind": "lim", "obj": "limit", "n": 2, "scripts": [[[2, 0], [0, 0], [0, 0], [0, 0]], [[1, 0], [2, 0]]], "sched": [0, 0, 0, 1, 0, 1]},
            {"kind": "lim", "obj": "tlimit", "n": 1, "scripts": [[[3, 0], [4, 0], [4, 0]], [[3, 0]], [[3, 1]]], "sched": [0, 1, 2, 0, 0]},
            {"kind": "lim", "obj": "maxconns", "n": 1, "scripts": [[[5, 1], [5, 0]], [[5, 0]], [[5, 0]]], "sched": [0, 1, 0, 2, 2, 0]},
            {"kind": "tr", "n": 1, "scripts": [[[0, 1], [1, 0]], [[0, 0]]], "sched": [0, 0, 1, 2, 3]},
            {"kind": "wp", "obj": "mr", "n": 2, "items": [0, 1, 0, 0], "scripts": [[[0, 0]]], "sched": [0, 2, 1, 3]},
            {"kind": "wp", "obj": "fx", "n": 1, "items": [1, 0, 1], "scripts": [[[0, 0]]], "sched": [0, 1, 2, 3]},
            {"kind": "wp", "obj": "fxp", "n": 2, "items": [0, 1, 0, 0, 0], "scripts": [[[0, 0]]], "sched": [0, 2, 1, 4, 3, 5]},
            {"kind": "wp", "obj": "mr", "n": 3, "items": [0, 0, 0, 0, 0], "scripts": [[[0, 0]]], "sched": [3, 0, 3, 1, 2, 5, 4]},
            {"kind": "tr", "n": 2, "scripts": [[[1, 1], [1, 0], [1, 0]], [[0, 0], [0, 1]]], "sched": [0, 0, 0, 1, 1, 2, 3, 4]},
            {"kind": "pl", "n": 1, "maxage": 100, "scripts": [[[0, 0], [1, 0], [2, 500], [0, 0], [1, 0]], [[0, 0], [1, 0]]], "sched": [0, 1, 0, 0, 0, 0]},
            {"kind": "pl", "n": 2, "maxage": 100, "scripts": [[[0, 0], [0, 0], [1, 0], [1, 0], [2, 150], [0, 0]], [[0, 0], [1, 0]]], "sched": [0, 0, 1, 0, 0, 0, 0, 1]},
            # Get1 parked inside create() (pool lock held); Get2, Get3 invoked: they must block
            {"kind": "pl", "n": 1, "maxage": 0, "scripts": [[[0, 0], [1, 0]], [[0, 0], [1, 0]], [[0, 0], [1, 0]]], "sched": [0, 1, 2, 0, 0, 1, 2]},
            {"kind": "pl", "n": 2, "maxage": 0, "scripts": [[[0, 0], [1, 0]], [[0, 0]], [[0, 0], [1, 0]], [[1, 0], [0, 0]]], "sched": [0, 1, 2, 3, 0, 1, 1, 2, 0, 2]},
            {"kind": "pl", "n": 3, "maxage": 100, "scripts": [[[0, 0]], [[0, 0]], [[0, 0]], [[0, 0]]], "sched": [0, 1, 2, 3, 0, 3, 2, 1]},
        ]

    def _enumerated(self):
        cases = []
        ops = LIM_OPS["limit"]
        scripts = [[a] for a in ops] + [[a, b] for a in ops for b in ops]
        i = 0
        for s0 in scripts:
            for s1 in scripts:
                i += 1
                sch = [[0, 1, 0, 1], [0, 0, 1, 1], [1, 0, 0, 1]][i % 3]
                cases.append({"kind": "lim", "obj": "limit", "n": 1, "scripts": [s0, s1], "sched": sch})
        return cases

    def _pool_overlap(self, rng):
        """Gets that overlap a create() in progress: the first Get parks inside create() (pool lock
        held), the others are invoked meanwhile; then everything is released in random order"""
        n = rng.choice([1, 1, 2, 2, 3])
        nt = rng.randint(n + 1, n + 3)
        scripts = [[[0, 0]] + ([[1, 0]] if rng.random() < 0.7 else []) + ([[0, 0]] if rng.random() < 0.3 else [])
                   for _ in range(nt)]
        first = list(range(nt))
        rng.shuffle(first)
        rest = [rng.randrange(nt) for _ in range(rng.randint(nt, 4 * nt))]
        return {"kind": "pl", "n": n, "maxage": rng.choice([0, 0, 100]), "scripts": scripts, "sched": first + rest}

    def _workers(self, rng):
        """mr.ForEach / fx Walk / fx Parallel with WithWorkers(n); gated mapper / walk functions, some panic"""
        n = rng.choice([1, 1, 2, 2, 3])
        k = rng.randint(1, 6)
        items = [1 if rng.random() < 0.25 else 0 for _ in range(k)]
        sched = [0] + [rng.randint(0, k) for _ in range(rng.randint(k, 3 * k))]
        if rng.random() < 0.15:
            rng.shuffle(sched)
        return {"kind": "wp", "obj": rng.choice(["mr", "mr", "fx", "fxp"]), "n": n, "items": items,
                "scripts": [[[0, 0]]], "sched": sched}

    def _random(self, rng):
        if rng.random() < 0.2:
            return self._workers(rng)
        kind = rng.choice(["lim", "lim", "lim", "tr", "tr", "pl", "pl"])
        n = rng.choice([1, 1, 2, 2, 3, 4])
        nt = rng.randint(1, 6)
        c = {"kind": kind, "n": n}
        if kind == "lim":
            obj = rng.choice(["limit", "tlimit", "maxconns"])
            c["obj"] = obj
            ops = LIM_OPS[obj]
            c["scripts"] = [[list(rng.choice(ops)) for _ in range(rng.randint(1, 4))] for _ in range(nt)]
            actors = nt
        elif kind == "tr":
            c["scripts"] = [[[rng.choice([0, 0, 1]), rng.choice([0, 0, 1])] for _ in range(rng.randint(1, 3))] for _ in range(nt)]
            actors = nt + sum(len(s) for s in c["scripts"])
        else:
            c["maxage"] = rng.choice([0, 100, 100, 100])
            sc = []
            for _ in range(nt):
                s = []
                for _ in range(rng.randint(1, 5)):
                    r = rng.random()
                    s.append([0, 0] if r < 0.42 else [1, 0] if r < 0.78 else [2, rng.choice([50, 150, 150])])
                sc.append(s)
            c["scripts"] = sc
            actors = nt
        total = sum(len(s) for s in c["scripts"])
        c["sched"] = [rng.randrange(actors) for _ in range(rng.randint(total, 3 * total))]
        return c

    def gen(self, rng, n, tier):
        cases = []
        if tier != "search":
            cases = self._enumerated()
            if tier == "quick":
                rng.shuffle(cases)
                cases = cases[: n // 4]
        for _ in range(max(40, n // 12)):
            cases.append(self._pool_overlap(rng))
        while len(cases) < n:
            cases.append(self._random(rng))
        return cases

    # ---- execution ---------------------------------------------------------------------------
    def execute(self, cases, ctx):
        # threads left blocked for ever at the end of a case (Borrow without Return, ...) stay in
        # the process and make every later stack snapshot slower: run batches in fresh processes
        import concurrent.futures
        chunks = [cases[i:i + 150] for i in range(0, len(cases), 150)]

        def work(ix):
            rc, out, res = vlib.go_run(self.bin, chunks[ix], tag="c05_%d" % ix, timeout=600)
            if rc != 0 or len(res) != len(chunks[ix]):
                raise ExecError("c05 executor rc=%s: %s" % (rc, out[-2000:]))
            return res

        with concurrent.futures.ThreadPoolExecutor(max_workers=4) as ex:
            parts = list(ex.map(work, range(len(chunks))))
        res = [r for p in parts for r in p]
        return [self._digest(c, r) for c, r in zip(cases, res)]

    @staticmethod
    def _digest(case, r):
        nt = len(case["scripts"])
        if r.get("err"):
            return {"err": r["err"], "steps": [], "log": [], "res": []}
        steps, log = [], []
        res = [[] for _ in range(nt)]
        lastt = 0
        for s in r.get("steps") or []:
            order = []
            # canonical order inside one macro step: the released actor's events first.  Every other
            # actor was parked or blocked when the step began and only moves as a consequence of the
            # released actor's call, whose linearisation point therefore precedes their events; the
            # order in which the two goroutines reach the (shared) logger is a race, not an observation.
            evs = [e for e in s["ev"] if e["a"] == s["a"]] + [e for e in s["ev"] if e["a"] != s["a"]]
            for e in evs:
                k = EK[e["k"]]
                if k in (0, 1, 2, 3, 5, 6) and e["a"] not in order:
                    order.append(e["a"])
                v = (e.get("v") or [0])[0]
                log.append([e["t"], e["a"], k, e["op"], v])
                lastt = e["t"]
                if k == 3 and e["a"] < nt:
                    op = case["scripts"][e["a"]][e["op"]]
                    res[e["a"]].append(-1 if (case["kind"] == "pl" and op[0] != 0) else v)
            ids = sorted(x["a"] for x in s["st"])
            order += [t for t in ids if t not in order]
            stat = {x["a"]: x for x in s["st"]}
            sts = []
            for t in ids:
                x = stat[t]
                if x["st"] == 2:
                    sts.append([2, 0])
                elif x["st"] == 0:
                    sts.append([0 if x.get("l") == "call" else 3, x["op"]])
                else:
                    sts.append([1, x["op"]])
                    if not s["skip"] and t < nt:
                        log.append([lastt, t, 4, x["op"], 0])
            steps.append({"a": s["a"], "skip": s["skip"], "order": order, "st": sts})
        return {"steps": steps, "log": log, "res": res}

    # ---- Coq rendering -----------------------------------------------------------------------
    @staticmethod
    def _lop(o):
        return {0: "LBorrow", 1: "LTry", 2: "LReturn", 3: "LTBorrow %s" % cbool(o[1] == 1), 4: "LTReturn",
                5: "LReq %s" % cbool(o[1] == 1)}[o[0]]

    def _kase(self, case):
        if case["kind"] == "lim":
            sc = clist([clist([self._lop(o) for o in s]) for s in case["scripts"]])
            return "(KLim %d%%nat %s)" % (case["n"], sc)
        if case["kind"] == "tr":
            sc = clist([clist([("RSched %s" if o[0] == 0 else "RSchedNow %s") % cbool(o[1] == 1) for o in s])
                        for s in case["scripts"]])
            return "(KTR %d%%nat %s)" % (case["n"], sc)
        if case["kind"] == "wp":
            return "(KWP %s %d%%nat %s)" % ("WMr" if case["obj"] == "mr" else "WFx", case["n"],
                                           clist([cbool(x == 1) for x in case["items"]]))
        sc = clist([clist([{0: "PGet", 1: "PPut", 2: "PAdv %s" % cz(o[1])}[o[0]] for o in s]) for s in case["scripts"]])
        return "(KPL %d%%nat %s %s)" % (case["n"], cz(case.get("maxage", 0)), sc)

    def coq_case(self, case, obs):
        if obs.get("err"):
            # hung / no quiescence: not a history of the model, and the property cannot be confirmed
            return "mkCase %s true [mkOStep 0%%nat false [] []] [] [mkEv 0 0%%nat 3 99%%nat 0]" % self._kase(case)
        steps = clist(["mkOStep %d%%nat %s %s %s" % (s["a"], cbool(s["skip"]),
                                                     clist(["%d%%nat" % t for t in s["order"]]),
                                                     clist(["(%s, %s)" % (cz(a), cz(b)) for a, b in s["st"]]))
                       for s in obs["steps"]])
        res = clist([clist([cz(v) for v in r]) for r in obs["res"]])
        log = clist(["mkEv %s %d%%nat %s %d%%nat %s" % (cz(e[0]), e[1], cz(e[2]), e[3], cz(e[4])) for e in obs["log"]])
        return "mkCase %s true %s %s %s" % (self._kase(case), steps, res, log)

    def nontrivial(self, case, obs):
        if any(e[2] == 4 for e in obs.get("log", [])):
            return True
        return any(e[2] == 3 and e[4] in (0, 2) and e[1] < len(case["scripts"]) and case["kind"] != "pl"
                   for e in obs.get("log", []))

    def features(self, case, obs):
        fs = ["kind=%s" % (case["kind"] if case["kind"] not in ("lim", "wp") else case["obj"]), "n=%d" % case["n"],
              "threads=%d" % len(case["scripts"])]
        log = obs.get("log", [])
        if any(e[2] == 4 for e in log):
            fs.append("has_blocked")
        if case["kind"] != "pl" and any(e[2] == 3 and e[4] == 0 for e in log):
            fs.append("has_refused")
        if any(e[2] == 3 and e[4] == 2 for e in log) and case["kind"] == "lim":
            fs.append("has_timeout")
        if any(e[2] == 3 and e[4] == 3 for e in log) and case["kind"] == "lim":
            fs.append("has_handler_panic")
        if case["kind"] == "tr" and any(o[1] == 1 for s in case["scripts"] for o in s):
            fs.append("has_task_panic")
        if case["kind"] == "wp" and any(case["items"]):
            fs.append("has_worker_panic")
        if any(e[2] == 6 for e in log):
            fs.append("has_expiry_destroy")
        if any(s["skip"] for s in obs.get("steps", [])):
            fs.append("has_stutter")
        return fs

    def shrink_candidates(self, case):
        res = []
        sc, sched = case["scripts"], case["sched"]
        if case["kind"] == "wp" and len(case["items"]) > 1:
            c = dict(case)
            c["items"] = case["items"][:-1]
            res.append(c)
        nt = len(sc)
        for t in range(nt):
            if nt > 1 and case["kind"] != "tr":
                c = dict(case)
                c["scripts"] = sc[:t] + sc[t + 1:]
                c["sched"] = [x - (1 if x > t else 0) for x in sched if x != t]
                res.append(c)
            if len(sc[t]) > 1:
                c = dict(case)
                c["scripts"] = sc[:t] + [sc[t][:-1]] + sc[t + 1:]
                res.append(c)
        for i in range(len(sched)):
            c = dict(case)
            c["sched"] = sched[:i] + sched[i + 1:]
            res.append(c)
        return res[:150]

    def describe_failure(self, case, obs):
        if obs.get("err"):
            return "the implementation did not reach quiescence / hung under the forced schedule: %s" % obs["err"]
        return ("the observed event log violates C05: more holders than the cap, a request refused or blocked below "
                "the cap (leaked capacity), an extra Return not reported, a pooled resource handed to two users, "
                "a resource count above the limit, or an expired resource handed out")

    # ---- free-running -race monitors (thorough tier) ----------------------------------------------
    def extra(self, ctx):
        if ctx.tier != "thorough":
            return []
        import random
        ok, res = vlib.go_build("c05", overlay=OVERLAY, race=True)
        if not ok:
            raise ExecError("c05 -race build failed: %s" % res[-1500:])
        rng = random.Random(ctx.seed * 17 + 5)
        cases = []
        for i in range(300):
            c = self._random(rng)
            c["scripts"] = (c["scripts"] * 3)[:8]
            if c["kind"] == "lim" and c["obj"] != "maxconns":
                # balanced holders: every acquisition is followed by a Return
                ret = [2, 0] if c["obj"] == "limit" else [4, 0]
                acq = [[0, 0], [1, 0]] if c["obj"] == "limit" else [[3, 0], [1, 0]]
                c["scripts"] = [sum([[list(rng.choice(acq)), ret] for _ in range(rng.randint(1, 4))], []) for _ in c["scripts"]]
            c["sched"] = []
            c["free"] = True
            c["id"] = i
            cases.append(c)
        for n in (1, 2, 3, 4):
            cases.append({"kind": "mrfx", "n": n, "scripts": [], "sched": [], "free": True, "id": len(cases)})
        rc, out, rs = vlib.go_run(res, cases, tag="c05race", timeout=900)
        fails = []
        if "DATA RACE" in out:
            fails.append({"what": "data race reported by the Go race detector in the free-running C05 harness",
                          "replay": {"output": out[-4000:]}})
        if rc != 0 and not fails:
            raise ExecError("c05 race run rc=%s: %s" % (rc, out[-2000:]))
        for c, r in zip(cases, rs):
            if r.get("err") or r.get("monitor"):
                fails.append({"what": "free-running monitor: %s" % (r.get("err") or r["monitor"][:3]), "replay": {"case": c}})
        ctx.notes.append("free-running -race monitor: %d cases (incl. mr/fx worker gauges), %d failures" % (len(cases), len(fails)))
        return fails[:5]


PROPERTY = C05()
