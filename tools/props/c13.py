"""C13 — service discovery view equals the live registrations."""
import concurrent.futures
import copy
import os
import re

import vlib
from runner import Property, ExecError
from vlib import cz, clist, cbool

OV = os.path.join(vlib.HARNESS, "overlay", "discov")
FILES = {
    # two tiny shims ADDED to the packages at test-build time (no go-zero file is replaced)
    "core/discov/internal/verif_c13_export.go": os.path.join(OV, "internal", "verif_c13_export.go"),
    "core/discov/verif_c13_export.go": os.path.join(OV, "discov", "verif_c13_export.go"),
    # the fake etcd (implements the package's EtcdClient) and the driver of the "cluster" executor
    "core/discov/internal/verif_c13_fake.go": os.path.join(OV, "internal", "verif_c13_fake.go"),
    "core/discov/verif_c13_cluster.go": os.path.join(OV, "discov", "verif_c13_cluster.go"),
    # the three white-box executors
    "core/discov/verif_c13_test.go": os.path.join(OV, "discov", "verif_c13_test.go"),
    "zrpc/resolver/internal/verif_c13_test.go": os.path.join(OV, "resolver", "verif_c13_test.go"),
    "zrpc/resolver/internal/kube/verif_c13_test.go": os.path.join(OV, "kube", "verif_c13_test.go"),
}
PKG = {"container": "./core/discov", "discov": "./core/discov",
       "resolver": "./zrpc/resolver/internal", "subset": "./zrpc/resolver/internal",
       "kube": "./zrpc/resolver/internal/kube"}


def pkg_of(case):
    if case["kind"] == "cluster":
        # resolvers are built by discovBuilder / etcdBuilder: that executor lives in zrpc/resolver/internal
        return "./zrpc/resolver/internal" if any(o[0] == "sub" and o[3] == "res" for o in case["ops"]) else "./core/discov"
    return PKG[case["kind"]]


def go_strip(src):
    """Go source with comments removed and string / rune literals blanked (same length is not kept)."""
    out, i, n = [], 0, len(src)
    while i < n:
        c = src[i]
        if src.startswith("//", i):
            j = src.find("\n", i)
            i = n if j < 0 else j
        elif src.startswith("/*", i):
            j = src.find("*/", i + 2)
            i = n if j < 0 else j + 2
            out.append(" ")
        elif c == "`":
            j = src.find("`", i + 1)
            i = n if j < 0 else j + 1
            out.append("``")
        elif c in "\"'":
            j = i + 1
            while j < n and src[j] != c:
                j += 2 if src[j] == "\\" else 1
            i = j + 1
            out.append(c + c)
        else:
            out.append(c)
            i += 1
    return "".join(out)


def go_func(src, name, recv_type=None):
    """(receiver variable, parameter text, body) of the top-level function / method `name` of comment-free
    source, whatever its receiver name, signature and layout; None when absent."""
    for m in re.finditer(r"^func\s*(?:\(\s*(\w+)\s+\*?\s*(\w+)\s*\)\s*)?%s\s*\(" % re.escape(name), src, re.M):
        if recv_type and m.group(2) != recv_type:
            continue
        i, depth = m.end(), 1
        while i < len(src) and depth:
            depth += {"(": 1, ")": -1}.get(src[i], 0)
            i += 1
        params = src[m.end():i - 1]
        j, depth = i, 0                                  # results may be parenthesised; the body starts at the first { outside
        while j < len(src) and not (src[j] == "{" and depth == 0):
            depth += {"(": 1, ")": -1}.get(src[j], 0)
            j += 1
        k, depth = j + 1, 1
        while k < len(src) and depth:
            depth += {"{": 1, "}": -1}.get(src[k], 0)
            k += 1
        body = src[j + 1:k - 1]
        recv = m.group(1)
        if recv and recv != "c":
            # the receiver under one name (a local called c would be captured: none of the functions read here has one
            # unless it IS the cluster)
            body = re.sub(r"\b%s\b" % re.escape(recv), "c", body)
        return recv, params, body
    return None


def regen_constants():
    """subsetSize of zrpc/resolver/internal/resolver.go -> coq/gen/C13Consts.v (fails loudly).  The shape flags are read
    off comment-free source by function NAME (receiver names, signatures, result lists, local names of the listener /
    watcher / key variables, layout and comments are free)."""
    src = go_strip(open(os.path.join(vlib.REPO, "zrpc/resolver/internal/resolver.go")).read())
    m = re.search(r"^\s*subsetSize\s*(?:int\w*\s*)?=\s*([^\n/]+)", src, re.M)
    if not m:
        # moved into another file of the package
        for fn in sorted(os.listdir(os.path.join(vlib.REPO, "zrpc/resolver/internal"))):
            if fn.endswith(".go") and not fn.endswith("_test.go"):
                m = re.search(r"^\s*(?:const\s+)?subsetSize\s*(?:int\w*\s*)?=\s*([^\n/]+)",
                              go_strip(open(os.path.join(vlib.REPO, "zrpc/resolver/internal", fn)).read()), re.M)
                if m:
                    break
    if not m:
        raise RuntimeError("C13 constants translator: subsetSize not found in zrpc/resolver/internal")
    expr = m.group(1).strip()
    if not re.fullmatch(r"[0-9+\-*/()<\s]+", expr):
        raise RuntimeError("C13 constants translator: subsetSize is not an integer constant expression: %r" % expr)
    val = eval(expr.replace("/", "//"), {"__builtins__": {}})
    # does EventHandler.OnAdd union the object's addresses into the set (pinned code) or replace the set?
    ksrc = go_strip(open(os.path.join(vlib.REPO, "zrpc/resolver/internal/kube/eventhandler.go")).read())
    f = go_func(ksrc, "OnAdd", "EventHandler")
    if not f:
        raise RuntimeError("C13 constants translator: EventHandler.OnAdd not found in eventhandler.go")
    body = re.sub(r"\bc\b", "h", f[2]) if f[0] else f[2]
    unions = bool(re.search(r"h\.endpoints\[[^\]]+\]\s*=", body)) and "h.Update(" not in body
    replaces = bool(re.search(r"h\.Update\(\s*\w+\s*\)", body)) and "h.endpoints[" not in body
    if unions == replaces:
        raise RuntimeError("C13 constants translator: shape of EventHandler.OnAdd not recognised")
    # does cluster.reload wait for the previous watch goroutines while it holds cluster.lock (finding
    # C13/reload-waits-under-lock) or after releasing it (pending/C13-reload-deadlock.diff)?
    rsrc = go_strip(open(os.path.join(vlib.REPO, "core/discov/internal/registry.go")).read())
    f = go_func(rsrc, "reload", "cluster")
    if not f:
        raise RuntimeError("C13 constants translator: cluster.reload not found in registry.go")
    rb = f[2]
    il, iw = rb.find("c.lock.Lock()"), rb.find(".Wait()")
    deferred = re.search(r"defer\s+c\.lock\.Unlock\(\)", rb)
    iu = len(rb) if deferred else rb.find("c.lock.Unlock()")
    if min(il, iw, iu) < 0:
        raise RuntimeError("C13 constants translator: shape of cluster.reload not recognised")
    reload_outside = not (il < iw < iu)
    # is the done channel bound to the watch generation (watchStream gets it as a parameter) or re-read from
    # the field c.done on every iteration (finding C13/reload-during-load-orphans-watchers)?
    f = go_func(rsrc, "watchStream", "cluster")
    if not f:
        raise RuntimeError("C13 constants translator: cluster.watchStream not found in registry.go")
    reads_field = bool(re.search(r"<-\s*c\.done\b", f[2]))
    chans = [x for g in re.findall(r"((?:\w+\s*,\s*)*\w+)\s+<-\s*chan\b", f[1]) for x in re.split(r"\s*,\s*", g)]
    has_param = any(re.search(r"<-\s*%s\b" % re.escape(x), f[2]) for x in chans)
    if reads_field == has_param:
        raise RuntimeError("C13 constants translator: shape of cluster.watchStream not recognised")
    # does setupWatch create a watcher when the key has none (left over from a watch goroutine that outlived
    # Unmonitor: finding C13/unmonitor-during-load-leaves-zombie-watcher) or stop?
    f = go_func(rsrc, "setupWatch", "cluster")
    if not f:
        raise RuntimeError("C13 constants translator: cluster.setupWatch not found in registry.go")
    setup_creates = "newWatchValue()" in f[2] or bool(re.search(r"&\s*watchValue\s*\{", f[2]))
    # Registry.Monitor on a watched key: are the known values replayed to the joiner with the cluster lock held
    # (a join is atomic w.r.t. the dispatch of events) or after releasing it (getCurrent: finding
    # C13/join-replay-overtakes-event)?
    f = go_func(rsrc, "Monitor", "Registry")
    if not f:
        raise RuntimeError("C13 constants translator: Registry.Monitor not found in registry.go")
    mb = f[2]
    lm = re.search(r"(\w+)\s+UpdateListener\b", f[1])
    lname = lm.group(1) if lm else "l"
    onadd = re.search(r"\b%s\.OnAdd\(" % re.escape(lname), mb)
    unlock = re.search(r"\b\w+\.lock\.Unlock\(\)", mb)
    join_atomic = ("getCurrent(" not in mb and ".join(" not in mb and bool(onadd) and bool(unlock) and onadd.start() < unlock.start())
    # the KNOWN finding C13-join-replay-overtakes-event is about exactly this shape: attach under the lock, then
    # replay getCurrent() - any other shape of Monitor is judged strictly
    att = re.search(r"(\w+)\.listeners\s*=\s*append\(\s*\1\.listeners\s*,\s*%s\s*\)" % re.escape(lname), mb)
    cur = re.search(r"\b\w+\.getCurrent\(", mb)
    join_head = bool(att and unlock and cur) and att.start() < unlock.start() < cur.start() and ".join(" not in mb
    regen_constants.flags = {"reload_outside": reload_outside, "done_bound": has_param, "setup_creates": setup_creates,
                             "join_atomic": join_atomic, "join_head": join_head}
    text = "\n".join(["(* GENERATED by tools/props/c13.py from zrpc/resolver/internal/resolver.go,",
                      "   zrpc/resolver/internal/kube/eventhandler.go and core/discov/internal/registry.go of the checked",
                      "   tree at every run - do not edit. *)",
                      "From Coq Require Import ZArith.", "Open Scope Z_scope.",
                      "Definition gen_subsetSize : Z := %s." % cz(val),
                      "Definition gen_kubeOnAddReplaces : bool := %s." % cbool(replaces),
                      "(* cluster.reload waits for the previous watch goroutines AFTER releasing cluster.lock *)",
                      "Definition gen_reloadWaitsOutsideLock : bool := %s." % cbool(reload_outside),
                      "(* watchStream selects on the done channel of its own watch generation (a parameter), not on the field c.done *)",
                      "Definition gen_watchDoneBoundToGeneration : bool := %s." % cbool(has_param),
                      "(* setupWatch never creates a watcher for a key that is not monitored (any more) *)",
                      "Definition gen_setupWatchNeverCreatesWatcher : bool := %s." % cbool(not setup_creates),
                      "(* Registry.Monitor replays the known values to a joining listener with the cluster lock held *)",
                      "Definition gen_joinReplaysUnderLock : bool := %s." % cbool(join_atomic), ""])
    val = (val, replaces)
    path = os.path.join(vlib.COQ, "gen", "C13Consts.v")
    os.makedirs(os.path.dirname(path), exist_ok=True)
    old = open(path).read() if os.path.exists(path) else None
    if old != text:
        tmp = path + ".tmp%d" % os.getpid()
        with open(tmp, "w") as f:
            f.write(text)
        os.replace(tmp, path)
    return val, old != text


def num(s):
    """'k12' / 'v3' / '7' -> int; the empty string (a legal etcd value) -> 900"""
    return int(s.lstrip("kv")) if s else 900


def zl(l):
    return clist([cz(x) for x in l])


def zll(ll):
    return clist([zl(l) for l in ll])


def pairs(l):
    return clist(["(%s, %s)" % (cz(a), cz(b)) for a, b in l])


def nsorted(l):
    return sorted(num(x) for x in l)


# ---------------------------------------------------------------------- cluster cases
CL_KEYS = ["svc/k0", "svc/k1", "svc/k2", "svc/k3", "svc/a/k0", "svc/a/k1", "svcx/k0", "svc", "svc/"]
CL_WATCHERS = [("svc", False), ("svc/a", False), ("svc/k1", True), ("svc", True)]


def cl_in_range(key, wkey, exact):
    """the specification of "under the watched prefix": the key itself (exact match) or the
    keys that start with prefix + "/" """
    return key == wkey if exact else key.startswith(wkey + "/")


def cl_tag(wkey, exact):
    return wkey + ("|e" if exact else "/|p")


class ClusterView:
    """Turns the ops of a cluster case and the executor's observations into one thread per
    watcher epoch (etcd history inside the range, deliveries as logged by the fake, joins,
    leaves, quiescent points).  Key ids: index in the case's own key list."""

    JOIN_HEAD = False     # set by regen(): the tree's Registry.Monitor has the shape of the KNOWN finding C13-join-replay-overtakes-event

    def __init__(self, case, obs, exclude=()):
        obs = copy.deepcopy(obs)          # never touch the executor's observation
        drop_after_obs = []               # (watcher, sid): suspect joiners whose key -> value bindings deviate from the registry
        exclude = set(exclude)            # subscribers left out of the rendering (known(): everything ELSE must be right)
        self.keys = {}
        self.case = case
        self.threads = []
        self.feats = set()
        self.suspects = []                # joins that overlapped events in the way of C13-join-replay-overtakes-event
        W = [(w["key"], w["exact"]) for w in case["watchers"]]
        muts = []            # (rev, "put"/"del", key, val): etcd's history, mirrored from the ops
        store = {}
        rev = case.get("base") or 1
        paused = False
        cur = {}             # watcher index -> thread under construction
        members = {}         # watcher index -> list of sub ids (model conts order)
        submode = {}
        pubs, keylease, nlease = {}, {}, 7000
        armed = {}
        snapshot_before = {}     # watcher -> watchValue.values at the previous quiescent point
        for stepno, (op, st) in enumerate(zip(case["ops"], obs["steps"])):
            name = op[0]
            if name == "put":
                rev += 1
                store[op[1]] = op[2]
                muts.append((rev, "put", op[1], op[2]))
            elif name == "del":
                if op[1] in store:
                    rev += 1
                    del store[op[1]]
                    muts.append((rev, "del", op[1], ""))
            if name == "regen":
                for m in list(op[3]) + list(op[4]):
                    if m[0] == "put":
                        rev += 1
                        store[m[1]] = m[2]
                        muts.append((rev, "put", m[1], m[2]))
                    elif m[1] in store:
                        rev += 1
                        del store[m[1]]
                        muts.append((rev, "del", m[1], ""))
            if name in ("subj", "spyj"):
                # registrations made while the joiner is being handed the known values
                for m in (op[4] if name == "subj" else op[2]):
                    if m[0] == "put":
                        rev += 1
                        store[m[1]] = m[2]
                        muts.append((rev, "put", m[1], m[2]))
                    elif m[1] in store:
                        rev += 1
                        del store[m[1]]
                        muts.append((rev, "del", m[1], ""))
                if name == "spyj":
                    cur[op[1]] = {"w": op[1], "ops": []}
                    members[op[1]] = []
                self.feats.add("join_overlaps_event" if any(st.get("injected") or []) else "join_then_event")
            elif name in ("pub", "unpub", "expire", "ppause", "presume"):
                # registrations made by the real Publisher: Grant numbers the leases 7001, 7002, ...; the key is
                # <key>/<id>, or <key>/<lease> without WithId; a key belongs to the lease of its last Put; revoking
                # or expiring a lease deletes the keys that still belong to it
                def drop(lease):
                    nonlocal rev
                    for k in sorted(k for k, l in keylease.items() if l == lease):
                        del keylease[k]
                        if k in store:
                            rev += 1
                            del store[k]
                            muts.append((rev, "del", k, ""))

                def register(pid):
                    nonlocal rev, nlease
                    key, val, pubid = pubs[pid]["key"], pubs[pid]["val"], pubs[pid]["id"]
                    nlease += 1
                    pubs[pid]["lease"] = nlease
                    full = "%s/%d" % (key, pubid or nlease)
                    rev += 1
                    store[full] = val
                    keylease[full] = nlease
                    muts.append((rev, "put", full, val))
                if name == "pub":
                    pubs[op[1]] = {"key": op[2], "val": op[3], "id": op[4]}
                    register(op[1])
                elif name == "unpub":
                    drop(pubs.pop(op[1])["lease"])
                elif name == "ppause":
                    drop(pubs[op[1]]["lease"])
                elif name == "presume":
                    register(op[1])
                else:
                    drop(pubs[op[1]]["lease"])
                    register(op[1])
            elif name == "pause":
                paused = True
            elif name == "resume":
                paused = False
            elif name == "spy":
                cur[op[1]] = {"w": op[1], "ops": []}
                members[op[1]] = []
            if st.get("stuck"):
                self.feats.add("stuck")
            if len(st["log"]) >= 600:
                self.feats.add("runaway_log")        # a retry loop without progress: the log was cut by the fake
            # ---- the fake's log, per watcher (a watcher of one key lives in generations: spy entries carry the
            # generation they belong to, an "epoch" marker of the executor starts a new one)
            for th in cur.values():
                th["_state"], th["_pend"] = None, []
                th.setdefault("_partial", False)      # the last response was a partial catch-up batch (header ahead)
            late = {}            # (tag, generation) -> thread that ended in this step (regen)
            tagw = dict((cl_tag(*W[w]), w) for w in cur)
            for en in st["log"]:
                w = tagw.get(en["w"])
                if w is None:
                    continue          # an entry for a watcher that has no thread (cannot happen with the generator)
                tag = en["w"]
                th = cur[w]
                inr = lambda k: cl_in_range(k, *W[w])
                posle = lambda R: sum(1 for m in muts if m[0] <= R and inr(m[2]))
                t = en["t"]
                if th.get("_partial") and t in ("watch", "get", "compacted", "closed", "canceled"):
                    # the stream broke / was replaced right after a partial catch-up batch: events with revisions
                    # <= the header revision of that batch had not been delivered yet (class of seed C13-9)
                    self.feats.add("stream_replaced_after_partial_batch" if t in ("watch", "get") else "fault_after_partial_batch")
                    if t in ("watch", "get"):
                        th["_partial"] = False
                if t == "epoch":
                    if th.get("ep") is not None and th["ep"] != en["ep"]:
                        # the key is monitored again: the previous generation's watcher is gone
                        late[(tag, th["ep"])] = th
                        th = cur[w] = {"w": w, "ops": [], "_state": None, "_pend": [], "_partial": False}
                        members[w] = []
                        self.feats.add("regeneration")
                    th["ep"] = en["ep"]
                elif t == "get":
                    d = {"d": "load", "r": posle(en["rev"]), "snap": [(self.kid(k), num(v)) for k, v in en.get("kvs") or []],
                         "calls": []}
                    th["ops"].append(d)
                    th["_state"] = d
                    if en["rev"] < rev and not paused:
                        self.feats.add("stale_snapshot")
                elif t == "watch":
                    th["_state"] = None
                    p = posle(en["rev"] - 1) if en["rev"] else posle(rev)
                    th["ops"].append({"d": "restart", "p": p})
                elif t == "resp":
                    evs = en["evs"]
                    d = {"d": "resp", "i": posle(int(evs[0][0]) - 1),
                         "evs": [("put", self.kid(e[2]), num(e[3])) if e[1] == "put" else ("del", self.kid(e[2])) for e in evs],
                         "calls": [], "want": len(evs)}
                    th["ops"].append(d)
                    th["_pend"].append(d)
                    if len(evs) > 1:
                        self.feats.add("replay_or_backlog_batch")
                    th["_partial"] = bool(en.get("more"))
                    if en.get("more"):
                        self.feats.add("partial_batch_header_ahead")
                elif t in ("add", "del"):
                    call = ("add", self.kid(en["k"]), num(en.get("v", ""))) if t == "add" else ("del", self.kid(en["k"]))
                    ep = en.get("ep")
                    if ep is not None and th.get("ep") is not None and ep != th["ep"]:
                        th = late.get((tag, ep))      # a call made by a previous generation's goroutine to ITS listeners
                        if th is None:
                            continue
                        self.feats.add("old_generation_call_after_regeneration")
                    if th["_state"] is not None:
                        th["_state"]["calls"].append(call)
                    else:
                        q = [d for d in th["_pend"] if len(d["calls"]) < d["want"]]
                        if q:
                            q[0]["calls"].append(call)
                        else:             # a call nobody asked for: its own (empty) delivery, agrees will object
                            th["ops"].append({"d": "resp", "i": 0, "evs": [], "calls": [call], "want": 0})
                elif t in ("geterr", "compacted", "closed", "canceled"):
                    self.feats.add("fault_" + t)
            for th in late.values():
                self.finish(th, W, muts)
            # ---- listeners
            def believed(calls):
                """key -> value a non-exclusive listener holds after these calls"""
                m = {}
                for r in calls:
                    if r[0] == "add":
                        m[r[1]] = r[2]
                    else:
                        m.pop(r[1], None)
                return m

            def deviates(sid, w):
                """a suspect joiner (known-finding family, HEAD's Monitor shape only) whose key -> value bindings - computed from
                the calls it received - differ from the registry's copy at the end of the join step.  The difference may be
                invisible in Values() (another key carries the same value): the model, given the intended atomic join, cannot
                reproduce what such a joiner does LATER (its notification views), so it is judged at the join step - where a
                visible deviation fails prop_ok and goes through known() - and left out of the thread afterwards."""
                so = st["subs"].get(str(sid))
                if not self.JOIN_HEAD or so is None or sid in exclude:
                    return False
                reg = dict((k, v) for k, v in (st["state"].get(cl_tag(*W[w])) or {}).get("values") or [])
                return believed(so.get("rec") or []) != reg

            def join(sid, w, mode, excl, normalise=False, atomic=False):
                if sid in exclude:
                    return
                th = cur[w]
                so = st["subs"][str(sid)]
                if atomic:
                    # a join that overlapped events about keys it was being handed (suspect of the KNOWN finding): the
                    # model gets the intended, atomic join - the registry's values; the implementation's deviation, if
                    # any, shows in the joiner's Values() (prop_ok / known()), not as a disagreement about map order
                    vals = (st["state"].get(cl_tag(*W[w])) or {}).get("values") or []
                    order = [(self.kid(k), num(v)) for k, v in vals]
                elif mode == "rec" and normalise and not excl:
                    # a join that overlapped events: what the joiner holds after the calls it received
                    order = [(self.kid(k), num(v)) for k, v in believed(so["rec"]).items()]
                elif mode == "rec":
                    order = [(self.kid(r[1]), num(r[2])) for r in so["rec"] if r[0] == "add"]
                else:
                    vals = (st["state"].get(cl_tag(*W[w])) or {}).get("values") or []
                    order = [(self.kid(k), num(v)) for k, v in vals]
                th["ops"].append({"d": "join", "x": excl, "order": order, "jn": {"rec": 0, "api": 1, "res": 2}[mode]})
                members[w].append(sid)
                submode[sid] = mode

            def leave(sid):
                for w, l in members.items():
                    if sid in l:
                        cur[w]["ops"].append({"d": "leave", "i": l.index(sid)})
                        l.remove(sid)

            # subscribers closed / created WHILE this step's change was being dispatched (hooks): the watcher
            # dispatches over a snapshot of its listeners taken at the start, so every listener that stays gets the
            # change exactly once and the membership change takes effect afterwards (ProofsH.dispatch_copy_*)
            for f in st.get("fired") or []:
                self.feats.add("hook_%s_%s" % (f["act"], armed.get(f["trig"], {}).get("how", "?")))
                if f["act"] == "unsub":
                    leave(f["sid"])
                elif str(f["sid"]) in st["subs"] and f["trig"] in armed:
                    a = armed[f["trig"]]
                    w = [w for w, l in members.items() if f["trig"] in l]
                    if w:
                        nev = sum(len(en.get("evs") or []) for en in st["log"] if en["t"] == "resp" and en["w"] == cl_tag(*W[w[0]]))
                        sus = nev >= 2 and a["mode"] == "rec" and not a["excl"]
                        if sus:
                            # created during a multi-event watch response
                            evs = [e for en in st["log"] if en["t"] == "resp" and en["w"] == cl_tag(*W[w[0]]) for e in en["evs"]]
                            self.suspects.append({"sid": f["sid"], "w": w[0], "step": stepno, "kind": "hook",
                                                  "before": dict(snapshot_before.get(w[0], {})),
                                                  "evs": [(e[1], e[2], e[3]) for e in evs],
                                                  "keys": sorted(set(e[2] for e in evs))})
                        join(f["sid"], w[0], a["mode"], a["excl"], normalise=True, atomic=sus)
                        if sus and deviates(f["sid"], w[0]):
                            drop_after_obs.append((w[0], f["sid"]))
                        if sus and f["sid"] not in exclude and str(f["sid"]) in st["subs"]:
                            # its notifications of this step follow the real replay order: not compared
                            st["subs"][str(f["sid"])]["notes"] = []
                            cur[w[0]]["ops"][-1]["jn"] = 1
            if name == "hook":
                armed[op[1]] = ({"how": op[4]} if op[2] == "unsub" else {"mode": op[4], "excl": op[5], "how": op[6]})
            if name == "sub" and not st.get("err"):
                join(op[1], op[2], op[3], op[4])
            elif name == "regen":
                if str(op[5]) in st["subs"]:
                    join(op[5], op[1], op[6], op[7])
            elif name == "subj" and not st.get("err"):
                # the events of this step were delivered while the joiner was being replayed to: HEAD attaches the
                # joiner first, so it receives them as well.  Rendered as "the events, then the join" with the calls
                # the joiner actually received as the join's order (ProofsI.join_overlapping_new_registrations); its
                # notifications of this step (an interleaving of replay and events) are not compared.
                so = st["subs"].get(str(op[1]))
                if so is not None and op[1] not in exclude:
                    so["notes"] = []
                    touched = [m[1] for m in op[4] if m[1] in snapshot_before.get(op[2], {})]
                    sus = bool(touched) and not op[3] and any(st.get("injected") or [])
                    if sus:
                        # events about keys of the snapshot were handled while it was being replayed
                        self.suspects.append({"sid": op[1], "w": op[2], "step": stepno, "keys": sorted(touched), "kind": "subj",
                                              "before": dict((k, snapshot_before[op[2]][k]) for k in touched)})
                    join(op[1], op[2], "rec", op[3], normalise=True, atomic=sus)
                    cur[op[2]]["ops"][-1]["jn"] = 1
                    if sus and deviates(op[1], op[2]):
                        drop_after_obs.append((op[2], op[1]))
            elif name == "unsub":
                leave(op[1])
            elif name == "unspy":
                th = cur.pop(op[1])
                self.finish(th, W, muts)
            # ---- quiescent point
            for w, th in cur.items():
                tag = cl_tag(*W[w])
                inr = lambda k: cl_in_range(k, *W[w])
                n = sum(1 for m in muts if inr(m[2]))
                ws = st["state"].get(tag) or {}
                rv = sorted((self.kid(k), num(v)) for k, v in ws.get("values") or [])
                cs = []
                snapshot_before[w] = dict((k, v) for k, v in ws.get("values") or [])
                for sid in members[w]:
                    so = st["subs"].get(str(sid)) or {"vals": [], "notes": []}
                    cs.append((nsorted(so["vals"]), [nsorted(x) for x in so["notes"]]))
                if st.get("stuck") and not paused and not (st.get("live") or {}).get(tag):
                    # the watchdog's observation: the key is monitored, etcd is reachable, yet the watcher has no live
                    # stream and nobody is setting one up (e.g. a reload that did not restart this key)
                    th["ops"].append({"d": "nostream"})
                    self.feats.add("watched_key_without_stream")
                th["ops"].append({"d": "obs", "n": n, "lag": bool(paused), "rv": rv, "cs": cs,
                                  "nl": ws.get("listeners"), "want_nl": len(members[w]) + 1})
                for dw, dsid in [x for x in drop_after_obs if x[0] == w]:
                    if dsid in members[w]:
                        th["ops"].append({"d": "leave", "i": members[w].index(dsid)})
                        members[w].remove(dsid)
                        self.feats.add("deviating_suspect_joiner_left_out_after_join_step")
                    drop_after_obs.remove((dw, dsid))
        for w, th in list(cur.items()):
            self.finish(th, W, muts)
        self.nmuts = len(muts)

    def kid(self, k):
        if k not in self.keys:
            self.keys[k] = len(self.keys)
        return self.keys[k]

    def finish(self, th, W, muts):
        th["range"] = W[th["w"]]
        th["muts"] = muts          # shared list: complete only at the end of the case (rendered lazily)
        self.threads.append(th)

    def render(self):
        out = []
        for th in self.threads:
            wkey, exact = th["range"]
            h = [("BPut %s %s" % (cz(self.kid(m[2])), cz(num(m[3]))) if m[1] == "put" else "BDel %s" % cz(self.kid(m[2])))
                 for m in th["muts"] if cl_in_range(m[2], wkey, exact)]
            ops = []
            lv = lambda c: "LAdd %s %s" % (cz(c[1]), cz(c[2])) if c[0] == "add" else "LDel %s" % cz(c[1])
            bv = lambda e: "BPut %s %s" % (cz(e[1]), cz(e[2])) if e[0] == "put" else "BDel %s" % cz(e[1])
            for d in th["ops"]:
                k = d["d"]
                if k == "load":
                    ops.append("WD (GLoad %d %s %s)" % (d["r"], pairs(d["snap"]), clist([lv(c) for c in d["calls"]])))
                elif k == "restart":
                    ops.append("WD (GRestart %d)" % d["p"])
                elif k == "resp":
                    ops.append("WD (GResp %d %s)" % (d["i"], clist([bv(e) for e in d["evs"]])))
                    ops.append("WRespCalls %s" % clist([lv(c) for c in d["calls"]]))
                elif k == "join":
                    ops.append("WD (GJoin %s %s)" % (cbool(d["x"]), pairs(d["order"])))
                    ops.append("WJoinNotes %s" % cz(d["jn"]))
                elif k == "leave":
                    ops.append("WLeave %d" % d["i"])
                elif k == "nostream":
                    ops.append("WNoStream")
                elif k == "obs":
                    ops.append("WObs %d %s %s %s" % (d["n"], cbool(d["lag"]), pairs(d["rv"]),
                                                     clist(["(%s, %s)" % (zl(v), zll(n)) for v, n in d["cs"]])))
            out.append("(%s, %s)" % (clist(h), clist(ops)))
        return "CCluster %s" % clist(out)


class C13(Property):
    id = "C13"
    title = "Service discovery view equals the live registrations"
    quick_cases = 700
    thorough_cases = 9000
    design_ref = "DESIGN.md §6/C13, §5/F3"
    level_text = ("Unbounded Rocq theorems over all histories of PUT/DELETE watch events, reload snapshots (with every "
                  "possible call order of the map iteration) and late-joining listeners: a subscriber's Values() is exactly "
                  "the set of values of the registered keys (exclusive: exactly the values whose most recent registrant is "
                  "still registered with it, and never a stale value), every listener call happens after the state change and "
                  "every view change is notified, the resolver publishes a permutation of the view when it has at most 32 "
                  "values and a 32-element sub-multiset otherwise, and the kube EventHandler publishes exactly the current "
                  "endpoint IPs. The model is tied to subscriber.go / registry.go / subset.go / discovbuilder.go / "
                  "eventhandler.go by white-box differential execution (go test -overlay) of generated histories; the cluster's own "
                  "machinery (Monitor / load / watch / watchStream / setupWatch / reload / Unmonitor) runs on a fake etcd client "
                  "under closed, cancelled and compacted streams, failing and stale Gets and reconnects, and what it obtained is "
                  "checked to be a consistent delivery in the sense of the theorem view_equals_etcd_after_any_consistent_delivery.")
    level_note = ("Trusted: Coq kernel + vm_compute; hand-written model (Go maps as association lists, map order and "
                  "rand.Shuffle as checked oracles); correspondence on generated histories only; the goroutines of one "
                  "cluster are modelled sequentially per watched key - three schedules of reload / Unmonitor against a watch "
                  "goroutine are replayed by monitors, two free-running -race monitors watch the locking discipline, other interleavings "
                  "are not explored; the etcd client is a hand-made fake (catch-up batches stamped with the current revision, honest "
                  "progress headers); the Publisher is executed (its effect enters the model as etcd's history) but not modelled; "
                  "the Kubernetes informer is the real one against an API-server stub in two monitors.")
    rule = ("six kinds of cases: container (direct OnAdd/OnDelete), discov (handleWatchEvents/handleChanges + several containers, "
            "exclusive or not, late joins, reloads), cluster (real Registry/cluster/Subscriber/discovBuilder on a fake etcd: 1..3 "
            "watched keys incl. nested prefixes and exact match, subscribers in three modes coming and going, 8..90 ops with stream "
            "faults, compaction, failing/stale Gets, reconnects, catch-up batches whose header revision is ahead + faults after any "
            "batch, joins overlapping events, watcher generations, Publishers), resolver (discovBuilder.Build end to end), subset, kube; 1..9 keys "
            "over 1..5 values (resolver: up to 45 values), 5..60 events; non-trivial = a key changes its value and (discov/resolver) "
            "a reload snapshot occurs, (cluster) a subscriber exists and a fault occurs, (subset) the set is larger than the bound, "
            "(kube) an update changes the IP set; distinct = canonical JSON hash of the case")
    trusted_base = [
        "model theories/C13/Model.v is hand-written; tie = white-box correspondence runs (harness/overlay/discov/*) on generated histories",
        "four files are ADDED (none replaced) to core/discov and core/discov/internal at test-build time: two shims to reach cluster.handleWatchEvents/handleChanges, the fake etcd (EtcdClient) and the driver of the cluster kind",
        "cluster kind: the etcd client is a hand-made fake (revisions, history replay from WithRev, compaction error); quiescence is detected from channel lengths and goroutine stacks; the projection of etcd's history on a watched range is done in tools/props/c13.py",
        "map iteration order and rand.Shuffle enter the model as oracles observed on the implementation and validated by the model",
        "interleavings of the cluster's goroutines are not modelled (four schedules replayed by monitors, two free-running -race monitors); the Publisher is executed but not modelled",
    ]
    assumptions = ["keys/values/IPs are compared with Go string == (model: Z)",
                   "listener calls of one watcher are sequential (one watch goroutine per key; handleChanges and handleWatchEvents do not overlap) - guaranteed by reload waiting for the previous generation, see F26/F28",
                   "kube: events concern the one Endpoints object selected by name, delivered in informer order (OnAdd/OnDelete carry an object covering the current IP set)"]

    def regen(self, ctx):
        (val, replaces), changed = regen_constants()
        self.subset_size = val
        self.kube_replaces = replaces
        self.flags = dict(regen_constants.flags)
        ClusterView.JOIN_HEAD = bool(self.flags.get("join_head"))
        return ["C13Consts.v %s: subsetSize=%s kubeOnAddReplaces=%s reloadWaitsOutsideLock=%s watchDoneBoundToGeneration=%s "
                "setupWatchNeverCreatesWatcher=%s joinReplaysUnderLock=%s" % ("rewritten" if changed else "unchanged", val, replaces,
                                                      self.flags["reload_outside"], self.flags["done_bound"], not self.flags["setup_creates"],
                                                      self.flags["join_atomic"])]

    def extra(self, ctx):
        with concurrent.futures.ThreadPoolExecutor(max_workers=4) as ex:
            a = ex.submit(self._extra_reload, ctx)
            b = ex.submit(self._extra_kube, ctx)
            c = ex.submit(self._extra_kubebuild, ctx)
            d = ex.submit(self._extra_race, ctx)
            return a.result() + b.result() + c.result() + d.result()

    def _extra_race(self, ctx):
        """Free-running monitors built with -race (a few seconds each):
        1. the public discov API on the real cluster over the fake etcd: registrations come and go (update in place,
           shared values, deletes, closed / cancelled streams, reconnect reloads, partial catch-up batches) while three
           goroutines read Values() of an exclusive and a non-exclusive Subscriber, change listeners read Values() from
           inside the notification and subscribers of the same key are created and closed; at the end both views must
           be the registrations;
        2. the kube EventHandler used from two goroutines, as kubeBuilder.Build does (its own Get + Update next to the
           informer's OnAdd / OnUpdate / OnDelete).
        A data race report (a lock released too early, a missing lock) is a failure: the sequential families cannot
        see the locking discipline."""
        files = dict(FILES)
        files["core/discov/verif_c13_race_test.go"] = os.path.join(OV, "discov", "verif_c13_race_test.go")
        files["zrpc/resolver/internal/kube/verif_c13_race_test.go"] = os.path.join(OV, "kube", "verif_c13_race_test.go")
        fails = []

        def report(out):
            i = out.find("WARNING: DATA RACE")
            return out[i:i + 2500]

        rc, out, rs = vlib.go_test_overlay("./core/discov", files, "TestVerifC13Race$", [], tag="c13rc1", timeout=300, race=True)
        if "WARNING: DATA RACE" in out:
            fails.append({"what": "data race in core/discov while Values() is read next to registry events (go test -race, "
                                  "free-running readers / subscribers coming and going on the real cluster over the fake etcd)",
                          "replay": {"race": report(out), "result": rs}})
        elif rc != 0 or len(rs) != 1:
            raise ExecError("c13 race monitor (discov) rc=%s: %s" % (rc, out[-1500:]))
        else:
            r = rs[0]
            if not (r.get("quiet") and r.get("valuesA") == r.get("want") and set(r.get("valuesB") or []) <= set(r.get("want") or [])
                    and r.get("valuesA")):
                fails.append({"what": "free-running use of the public discov API: at the end Values() is not the set of registered "
                                      "values (expected %s)" % r.get("want"), "replay": r})
            else:
                ctx.notes.append("race monitor (discov): no data race, Values()=%s after %d notifications" % (r["valuesA"], r["notes"]))
        rc, out, rs = vlib.go_test_overlay("./zrpc/resolver/internal/kube", files, "TestVerifC13KubeRaceDetector$", [], tag="c13rc2",
                                           timeout=300, race=True)
        if "WARNING: DATA RACE" in out:
            fails.append({"what": "data race in the kube EventHandler used from two goroutines (Build's Update next to the "
                                  "informer's events; go test -race)", "replay": {"race": report(out), "result": rs}})
        elif rc != 0 or len(rs) != 1:
            raise ExecError("c13 race monitor (kube) rc=%s: %s" % (rc, out[-1500:]))
        elif rs[0].get("last") != ["7", "8"]:
            fails.append({"what": "kube EventHandler used from two goroutines: the last publication is not the last update "
                                  "(expected [7 8])", "replay": rs[0]})
        else:
            ctx.notes.append("race monitor (kube): no data race, %d publications" % rs[0]["pubs"])
        return fails

    KUBE_EXPECT = [["10.0.0.1", "10.0.0.2"], ["10.0.0.2", "10.0.0.3"], ["10.0.0.3"], [], ["10.0.0.4", "10.0.0.5"]]

    def _extra_kubebuild(self, ctx):
        """The real kubeBuilder.Build (ParseTarget: namespace / name / port, port taken from the Endpoints object
        when the target has none; informer with the name selector; EventHandler; subset; "ip:port") against a
        minimal HTTPS API server: initial Get+Update, informer List/Watch, MODIFIED (addresses replaced, then
        shrunk), DELETED, ADDED.  After every step the last cc.UpdateState must carry exactly the current
        addresses with the right port.  Needs to write a token and the test server's certificate to the
        service-account directory that rest.InClusterConfig reads; skipped (noted) where that is not possible."""
        files = dict(FILES)
        files["zrpc/resolver/internal/verif_c13_kubebuild_test.go"] = os.path.join(OV, "resolver", "verif_c13_kubebuild_test.go")
        rc, out, rs = vlib.go_test_overlay("./zrpc/resolver/internal", files, "TestVerifC13KubeBuild$", [], tag="c13kb", timeout=300)
        if rc != 0 or len(rs) != 1:
            raise ExecError("c13 kubeBuilder monitor rc=%s: %s" % (rc, out[-1500:]))
        r = rs[0]
        if r.get("skipped"):
            ctx.notes.append("kubeBuilder.Build monitor skipped: %s" % r["skipped"])
            return []
        if r.get("error") or len(r.get("runs") or []) != 2:
            return [{"what": "kubeBuilder.Build failed against the API server stub", "replay": r}]
        fails = []
        for run, port in zip(r["runs"], ["8080", "8081"]):
            got = [st["got"] for st in run["steps"]]
            want = [",".join(sorted("%s:%s" % (ip, port) for ip in ips)) for ips in self.KUBE_EXPECT]
            if got != want:
                fails.append({"what": "kubeBuilder.Build %s: the addresses given to cc.UpdateState are not the current endpoint "
                                      "addresses (expected %s)" % (run["target"], want), "replay": run})
        if not fails:
            ctx.notes.append("kubeBuilder.Build monitor: 2 targets x 5 steps published exactly the current ip:port sets")
        return fails

    def _extra_reload(self, ctx):
        """Two deterministic schedules of cluster.reload (what the connection-state listener runs on reconnect) on
        the real cluster over the fake etcd (harness/overlay/discov/discov/verif_c13_reload_test.go):
        1. reload while a watch goroutine is in the middle of a two-event watch response (listener held at a
           gate).  F26: with `c.watchGroup.Wait()` under c.lock both blocked forever; repaired by a5553bd.
        2. reload while a watch goroutine of the previous generation is inside load() (its Get fails once: the
           code's own 1 s cool-down).  With `<-c.done` re-read from the field that goroutine goes on watching on
           the next generation's channel, reload waits for it forever and the other watchers are never
           restarted (F28, repaired by 6727477)."""
        files = dict(FILES)
        files["core/discov/verif_c13_reload_test.go"] = os.path.join(OV, "discov", "verif_c13_reload_test.go")
        fails = []
        rc, out, rs = vlib.go_test_overlay("./core/discov", files, "TestVerifC13Reload$", [], tag="c13rl", timeout=120)
        if rc != 0 or len(rs) != 1:
            raise ExecError("c13 reload monitor rc=%s: %s" % (rc, out[-1500:]))
        r = rs[0]
        if not (r.get("reloadReturned") and r.get("quiet1") and r.get("quiet2") and r.get("values") == ["v1", "v2", "v3"]):
            fails.append({"what": "cluster.reload during a two-event watch response: reload did not return / the subscriber was not "
                                  "brought up to date (expected Values() = [v1 v2 v3])", "replay": r})
        else:
            ctx.notes.append("reload monitor 1 (reload during a watch response): reload returned, Values()=%s" % r["values"])
        rc, out, rs = vlib.go_test_overlay("./core/discov", files, "TestVerifC13ReloadDuringLoad$", [], tag="c13rl2", timeout=120)
        if rc != 0 or len(rs) != 1:
            raise ExecError("c13 reload monitor 2 rc=%s: %s" % (rc, out[-1500:]))
        r = rs[0]
        if not (r.get("loading") and r.get("reloadReturned") and r.get("quiet1") and r.get("valuesB") == ["v2"]
                and r.get("valuesA") == ["v0", "v1", "v2"]):
            fails.append({"what": "cluster.reload while a watch goroutine is loading: reload did not return / a watcher was left "
                                  "without a stream (expected Values() of the svc/a subscriber = [v2])", "replay": r})
        else:
            ctx.notes.append("reload monitor 2 (reload during load): reload returned, live=%s" % r.get("live"))
        # 3. the last subscriber of a key closes while the key's watch goroutine is inside load(): with a setupWatch
        #    that creates a missing watcher, a watcher without listeners and without the loaded values stays behind
        #    and the next subscriber joins it (F32, repaired by aaae2e8)
        rc, out, rs = vlib.go_test_overlay("./core/discov", files, "TestVerifC13UnmonitorDuringLoad$", [], tag="c13rl3", timeout=120)
        if rc != 0 or len(rs) != 1:
            raise ExecError("c13 unmonitor monitor rc=%s: %s" % (rc, out[-1500:]))
        r = rs[0]
        if not (r.get("loading") and r.get("valuesB") == ["v1", "v2", "v3"] and r.get("valuesB2") == ["v1", "v2", "v3", "v4"]):
            fails.append({"what": "the last subscriber of a key closed while its watch goroutine was loading: the next subscriber "
                                  "of the key does not see the registered values (expected [v1 v2 v3], then [v1 v2 v3 v4])", "replay": r})
        else:
            ctx.notes.append("unmonitor monitor (Close during load): the next subscriber sees %s" % r["valuesB2"])
        # 4. a second subscriber joins a watched key while the watch goroutine handles an event about a known key
        #    that has not been replayed to it yet (delete / new value): with the replay outside the cluster lock the
        #    older replayed value overwrites the event: KNOWN finding C13-join-replay-overtakes-event (repair candidate
        #    pending/C13-join-atomic.diff not applied: it calls the joiner's OnAdd under the cluster lock)
        rc, out, rs = vlib.go_test_overlay("./core/discov", files, "TestVerifC13JoinDuringEvent$", [], tag="c13rl4", timeout=120)
        if rc != 0 or len(rs) != 1:
            raise ExecError("c13 join monitor rc=%s: %s" % (rc, out[-1500:]))
        r = rs[0]
        bad = [v for v in ("delete", "change") if not (r.get(v, {}).get("quiet") and r[v]["joiner"] == r[v]["first"] ==
                                                        sorted(x[1] for x in r[v]["state"]["svc/|p"]["values"]))]
        if bad:
            f = {"what": "a subscriber joined a watched key while an event about a known key was handled: its Values() "
                         "differs from the registrations at the quiescent point (%s)" % ", ".join(bad), "replay": r}
            # KNOWN finding C13-join-replay-overtakes-event: exactly the shape of the unchanged tree (committed table: the
            # joiner keeps the two values it joined with; the first subscriber and the registry are right about the key
            # that was deleted / changed), and only on a tree whose Monitor replays outside the lock
            if getattr(self, "flags", {}).get("join_head") and all(
                    r[v].get("quiet") and r[v]["joiner"] == ["v1", "v2"] and
                    r[v]["first"] == sorted(x[1] for x in r[v]["state"]["svc/|p"]["values"]) ==
                    self.KNOWN_JOIN_SHAPE[v].get(r[v].get("touched")) for v in bad):
                f["known"] = self.KNOWN_JOIN
            fails.append(f)
        else:
            ctx.notes.append("join monitor (event during the replay of a join): joiner = first subscriber = registry in both variants")
        return fails

    def _extra_kube(self, ctx):
        """API-level replay of kubeBuilder.Build's statement sequence against a minimal HTTP API server, an
        address vanishing between Build's Get and the informer's first List (finding C13/kube-add-after-update).
        With OnAdd = union the stale address stays published (reported finding; the monitor is then skipped and
        noted); once OnAdd replaces the set the monitor guards against the regression."""
        if not getattr(self, "kube_replaces", False):
            ctx.notes.append("kube race monitor skipped: EventHandler.OnAdd unions (finding kube-add-after-update, pending/C13-kube-onadd-replace.diff)")
            return []
        files = dict(FILES)
        files["zrpc/resolver/internal/verif_c13_kuberace_test.go"] = os.path.join(OV, "resolver", "verif_c13_kuberace_test.go")
        rc, out, rs = vlib.go_test_overlay("./zrpc/resolver/internal", files, "TestVerifC13KubeRace$", [], tag="c13kr", timeout=300)
        if rc != 0 or len(rs) != 1:
            raise ExecError("c13 kube race monitor rc=%s: %s" % (rc, out[-1500:]))
        if rs[0]["published"] != ["10.0.0.1"]:
            return [{"what": "kubeBuilder.Build sequence: an address that vanished between Get and the informer's List stays published",
                     "replay": rs[0]}]
        ctx.notes.append("kube race monitor: published=%s" % rs[0]["published"])
        return []

    # ------------------------------------------------------------------ corpus
    def corpus(self):
        K = lambda i: "k%d" % i
        V = lambda i: "v%d" % i
        return [
            # F3: key changes its value, then is deleted
            {"kind": "container", "excl": False, "ops": [["add", K(1), V(1)], ["add", K(1), V(2)], ["del", K(1)]]},
            {"kind": "container", "excl": True, "ops": [["add", K(1), V(1)], ["add", K(1), V(2)], ["del", K(1)]]},
            # F3: value changed across a reload
            {"kind": "discov", "xs": [False, True], "ops": [["put", K(1), V(1)], ["reload", [[K(1), V(2)]]], ["del", K(1)]]},
            # exclusive: the later registrant owns the value
            {"kind": "container", "excl": True,
             "ops": [["add", K(1), V(1)], ["add", K(2), V(1)], ["del", K(1)], ["add", K(1), V(1)], ["del", K(2)], ["del", K(1)]]},
            # several keys share a value; delete of an absent key; replayed reload; empty reload; join
            {"kind": "discov", "xs": [False], "ops": [["put", K(1), V(1)], ["put", K(2), V(1)], ["del", K(1)], ["del", K(9)],
                                                       ["reload", [[K(2), V(1)]]], ["join", True], ["reload", []],
                                                       ["reload", [[K(3), V(2)], [K(3), V(3)]]]]},
            {"kind": "resolver", "pre": [["put", K(i), V(i)] for i in range(31)],
             "ops": [["put", K(31), V(31)], ["put", K(32), V(32)], ["reload", [[K(i), V(i + 1)] for i in range(34)]],
                     ["del", K(0)], ["del", K(1)], ["del", K(2)]]},
            # one watch response with several events: PUT+DELETE of one key, both orders; update twice
            {"kind": "discov", "xs": [False, True], "ops": [
                ["batch", [["put", K(1), V(1)], ["del", K(1), ""]]], ["batch", [["del", K(1), ""], ["put", K(1), V(1)]]],
                ["batch", [["put", K(1), V(2)], ["put", K(2), V(2)], ["put", K(1), V(3)], ["del", K(2), ""]]], ["batch", []]]},
            # seeded regression 1: a key moves to a value that is already served (snapshot cache)
            {"kind": "container", "excl": False, "ops": [["add", K(1), V(1)], ["add", K(2), V(2)], ["add", K(1), V(2)]]},
            # seeded regression 2 (resolver remembers published addresses): a same-size swap v1 -> v2, then the given-up
            # address comes back under another key; delete + put forming the swap; shrink and regrow
            {"kind": "resolver", "pre": [["put", K(0), V(0)], ["put", K(1), V(1)]],
             "ops": [["put", K(1), V(2)], ["put", K(2), V(1)], ["del", K(2)], ["del", K(1)], ["put", K(3), V(3)],
                     ["put", K(1), V(2)], ["put", K(2), V(1)], ["put", K(0), V(1)], ["put", K(4), V(0)],
                     ["reload", [[K(0), V(3)], [K(1), V(0)], [K(2), V(2)]]], ["put", K(5), V(1)]]},
            # seeded regression 3 (identical re-put swallowed): for an exclusive subscriber the ORDER of registrations is
            # state - put k1=v; put k2=v; put k1=v again; delete k2 leaves v registered by k1 (watch events and one batch)
            {"kind": "discov", "xs": [True, False, True],
             "ops": [["put", K(1), V(1)], ["put", K(2), V(1)], ["put", K(1), V(1)], ["del", K(2)],
                     ["batch", [["put", K(3), V(2)], ["put", K(4), V(2)], ["put", K(3), V(2)]]], ["del", K(4)],
                     ["put", K(5), V(1)], ["reload", [[K(1), V(1)], [K(5), V(1)], [K(3), V(2)]]], ["put", K(1), V(1)], ["del", K(5)]]},
            # the public API on the real cluster (fake etcd): Exclusive() / not, a second key takes a value over and goes away
            {"kind": "cluster", "watchers": [{"key": "svc", "exact": False}, {"key": "svc/k1", "exact": True}], "base": 1, "eps": 1,
             "ops": [["spy", 0], ["put", "svc/k1", "v1"], ["sub", 0, 0, "api", True], ["sub", 1, 0, "api", False],
                     ["spy", 1], ["sub", 2, 1, "api", True], ["put", "svc/k2", "v1"], ["del", "svc/k2"], ["put", "svc/k1", "v2"],
                     ["closewatch"], ["pause"], ["put", "svc/k3", "v2"], ["del", "svc/k1"], ["compact"], ["resume"], ["reconnect"],
                     ["unsub", 0], ["unsub", 1], ["unsub", 2], ["unspy", 0], ["unspy", 1], ["spy", 0], ["sub", 3, 0, "api", False]]},
            # the same re-registration history through the public API on the real cluster: an identical re-put makes
            # its key the most recent registrant of the value again
            {"kind": "cluster", "base": 1, "eps": 1, "watchers": [{"key": "svc", "exact": False}],
             "ops": [["spy", 0], ["sub", 0, 0, "api", True], ["sub", 1, 0, "rec", True], ["sub", 2, 0, "api", False],
                     ["put", "svc/k1", "v1"], ["put", "svc/k2", "v1"], ["put", "svc/k1", "v1"], ["del", "svc/k2"],
                     ["put", "svc/k3", "v1"], ["pause"], ["put", "svc/k1", "v1"], ["resume"], ["del", "svc/k3"]]},
            # a reconnect reload (cluster.reload) with SEVERAL watched keys on one cluster: registrations of every watched
            # range change during the outage; after the reload every key must be snapshotted and watched again - the views
            # of ALL keys are compared with etcd, and every key gets further events afterwards
            {"kind": "cluster", "base": 1, "eps": 1,
             "watchers": [{"key": "svc", "exact": False}, {"key": "svc/a", "exact": False}, {"key": "svc/k1", "exact": True},
                          {"key": "svc", "exact": True}],
             "ops": [["put", "svc/k1", "v1"], ["put", "svc/a/k0", "v2"], ["put", "svc", "v3"],
                     ["spy", 0], ["sub", 0, 0, "api", False], ["spy", 1], ["sub", 1, 1, "rec", False], ["spy", 2], ["sub", 2, 2, "api", True],
                     ["spy", 3], ["sub", 3, 3, "rec", True],
                     ["pause"], ["put", "svc/k1", "v4"], ["put", "svc/a/k1", "v5"], ["del", "svc/a/k0"], ["put", "svc", "v6"],
                     ["put", "svc/k2", "v7"], ["reconnect"], ["resume"],
                     ["put", "svc/k1", "v8"], ["put", "svc/a/k0", "v9"], ["put", "svc", "v10"], ["del", "svc/k2"],
                     ["reconnect"], ["del", "svc/k1"], ["put", "svc/a/k1", "v11"], ["del", "svc"]]},
            # ... with keys monitored / unmonitored around the reload, and two reloads in a row
            {"kind": "cluster", "base": 2, "eps": 2, "watchers": [{"key": "svc", "exact": False}, {"key": "svc/a", "exact": False},
                                                               {"key": "svc/k1", "exact": True}],
             "ops": [["spy", 0], ["sub", 0, 0, "rec", False], ["spy", 1], ["sub", 1, 1, "api", False], ["put", "svc/a/k0", "v1"],
                     ["pause"], ["put", "svc/k0", "v2"], ["put", "svc/a/k1", "v3"], ["reconnect"], ["resume"],
                     ["spy", 2], ["sub", 2, 2, "rec", False], ["put", "svc/k1", "v4"], ["reconnect"], ["reconnect"],
                     ["put", "svc/k1", "v5"], ["put", "svc/a/k0", "v6"], ["unsub", 1], ["unspy", 1],
                     ["pause"], ["del", "svc/k0"], ["put", "svc/k1", "v7"], ["reconnect"], ["resume"],
                     ["spy", 1], ["sub", 3, 1, "rec", True], ["put", "svc/a/k1", "v8"], ["reconnect"], ["del", "svc/a/k0"],
                     ["put", "svc/k3", "v9"], ["del", "svc/k1"]]},
            # registrations through the real Publisher: KeepAlive, WithId, Pause / Resume, a lease that expires, Stop
            # (Resume and the re-registration after an expiry cost the Publisher's own 1 s tick each)
            {"kind": "cluster", "base": 1, "eps": 1, "watchers": [{"key": "svc", "exact": False}],
             "ops": [["spy", 0], ["sub", 0, 0, "api", False], ["sub", 1, 0, "rec", True], ["pub", 1, "svc", "v1", 0],
                     ["pub", 2, "svc", "v2", 7], ["ppause", 1], ["put", "svc/k0", "v0"], ["presume", 1], ["expire", 2],
                     ["unpub", 1], ["closewatch"], ["unpub", 2]]},
            # the listener set changes WHILE a change is dispatched: closed from inside its own callback / from another
            # goroutine while the callback is held / a subscriber created from inside a callback; watch event and reload diff
            {"kind": "cluster", "base": 1, "eps": 1, "watchers": [{"key": "svc", "exact": False}],
             "ops": [["spy", 0], ["sub", 0, 0, "rec", False], ["sub", 1, 0, "api", False], ["sub", 2, 0, "rec", True],
                     ["put", "svc/k1", "v1"], ["put", "svc/k2", "v2"], ["hook", 0, "unsub", 0, "in"], ["del", "svc/k1"],
                     ["put", "svc/k3", "v3"], ["hook", 1, "unsub", 1, "out"], ["put", "svc/k2", "v4"],
                     ["hook", 2, "sub", 3, "rec", False, "in"], ["put", "svc/k5", "v5"], ["sub", 4, 0, "rec", False],
                     ["pause"], ["put", "svc/k6", "v6"], ["del", "svc/k2"], ["hook", 2, "unsub", 2, "in"], ["reconnect"], ["resume"],
                     ["put", "svc/k7", "v7"]]},
            # joins that overlap registrations: from inside the joiner's first replayed OnAdd new keys are registered
            # (a further listener of a watched key, exclusive or not, and the first listener of a key)
            {"kind": "cluster", "base": 1, "eps": 1, "watchers": [{"key": "svc", "exact": False}, {"key": "svc/a", "exact": False}],
             "ops": [["put", "svc/k0", "v0"], ["put", "svc/a/k0", "v1"], ["spy", 0], ["sub", 0, 0, "rec", False],
                     ["subj", 1, 0, False, [["put", "svc/k1", "v2"]]],
                     ["subj", 2, 0, True, [["put", "svc/k2", "v3"], ["put", "svc/k3", "v2"]]],
                     ["spyj", 1, [["put", "svc/a/k1", "v5"]]], ["subj", 3, 1, False, [["put", "svc/a/k2", "v6"]]],
                     ["put", "svc/k1", "v7"], ["del", "svc/k2"]]},
            # generations of a watcher: every subscriber of the key closed and the key monitored again while a listener is
            # held in the middle of a multi-event watch response, the store moving on in between
            {"kind": "cluster", "base": 1, "eps": 1, "watchers": [{"key": "svc", "exact": False}],
             "ops": [["spy", 0], ["sub", 0, 0, "api", False],
                     ["regen", 0, 0, [["put", "svc/k1", "v1"], ["put", "svc/k2", "v2"]], [["del", "svc/k2"]], 1, "api", False, "out"],
                     ["put", "svc/k3", "v3"],
                     ["regen", 0, 0, [["del", "svc/k1"], ["put", "svc/k4", "v4"], ["put", "svc/k3", "v5"]],
                      [["put", "svc/k1", "v6"], ["del", "svc/k4"]], 2, "rec", False, "in"],
                     ["put", "svc/k0", "v0"]]},
            # etcd catches a watcher that is behind up in BATCHES stamped with the current store revision (the header
            # revision of a partial batch is ahead of the events delivered so far); the stream breaks (closed channel,
            # Canceled response, compaction, reconnect) after a partial batch: nothing between the last delivered event
            # and that header revision may be skipped.  Two watched ranges, recorded / API / exclusive subscribers.
            {"kind": "cluster", "base": 1, "eps": 1, "watchers": [{"key": "svc", "exact": False}, {"key": "svc/a", "exact": False}],
             "ops": [["spy", 0], ["sub", 0, 0, "rec", False], ["sub", 1, 0, "api", False], ["sub", 2, 0, "rec", True],
                     ["spy", 1], ["sub", 3, 1, "rec", False], ["put", "svc/k0", "v0"], ["put", "svc/a/k0", "v1"],
                     ["batchsize", 2],
                     ["pause"], ["put", "svc/k1", "v1"], ["put", "svc/k2", "v2"], ["del", "svc/k0"], ["put", "svc/k3", "v3"],
                     ["put", "svc/a/k1", "v4"], ["put", "svcx/k0", "v9"], ["trickle", 1], ["closewatch"], ["resume"],
                     ["put", "svc/k1", "v5"],
                     ["pause"], ["del", "svc/k2"], ["put", "svc/k0", "v6"], ["put", "svc/k2", "v7"], ["del", "svc/a/k0"],
                     ["trickle", 1], ["cancelwatch"], ["resume"],
                     ["pause"], ["put", "svc/k3", "v8"], ["del", "svc/k1"], ["put", "svc/a/k0", "v10"], ["trickle", 1],
                     ["compact"], ["resume"],
                     ["pause"], ["put", "svc/k1", "v11"], ["del", "svc/k3"], ["put", "svc/k3", "v12"], ["del", "svc/k0"],
                     ["trickle", 1], ["reconnect"], ["put", "svc/k0", "v13"], ["del", "svc/k2"], ["put", "svc/a/k2", "v14"],
                     ["trickle", 1], ["closewatch"], ["trickle", 1], ["resume"],
                     ["batchsize", 1], ["pause"], ["put", "svc/k2", "v15"], ["del", "svc/k1"], ["put", "svc/k1", "v16"],
                     ["trickle", 2], ["cancelwatch"], ["trickle", 1], ["closewatch"], ["resume"], ["put", "svc/k0", "v17"]]},
            # the same through the gRPC resolver (discovBuilder on the real cluster): the published addresses
            {"kind": "cluster", "base": 2, "eps": 1, "watchers": [{"key": "svc", "exact": False}],
             "ops": [["spy", 0], ["sub", 0, 0, "res", False], ["put", "svc/k0", "v0"], ["batchsize", 1],
                     ["pause"], ["put", "svc/k1", "v1"], ["del", "svc/k0"], ["put", "svc/k2", "v2"], ["trickle", 1],
                     ["closewatch"], ["resume"], ["put", "svc/k3", "v3"],
                     ["pause"], ["del", "svc/k1"], ["put", "svc/k0", "v4"], ["del", "svc/k3"], ["trickle", 2],
                     ["cancelwatch"], ["resume"]]},
        ] + ([
            # a subscriber created from inside a callback during a TWO-event watch response must get the second event
            # (on a tree whose Monitor replays outside the lock: an instance of the KNOWN finding)
            {"kind": "cluster", "base": 1, "eps": 1, "watchers": [{"key": "svc", "exact": False}],
             "ops": [["put", "svc/k0", "v0"], ["spy", 0], ["sub", 0, 0, "rec", False], ["sub", 1, 0, "rec", False], ["pause"],
                     ["put", "svc/k1", "v1"], ["put", "svc/k2", "v2"], ["hook", 0, "sub", 2, "rec", False, "in"], ["resume"],
                     ["put", "svc/k3", "v3"]]},
        ]) + [
            {"kind": "subset", "set": [V(i) for i in range(32)], "sub": 32},
            {"kind": "subset", "set": [V(i) for i in range(33)], "sub": 32},
            {"kind": "kube", "ops": [
                {"op": "update", "obj": {"rv": "1", "subsets": [["1", "2"]]}},
                {"op": "add", "obj": {"rv": "1", "subsets": [["1", "2"]]}},
                {"op": "onupdate", "old": {"rv": "1", "subsets": [["1", "2"]]}, "obj": {"rv": "2", "subsets": [["2"], ["3", "2"]]}},
                {"op": "onupdate", "old": {"rv": "2", "subsets": [["2"], ["3", "2"]]}, "obj": {"rv": "2", "subsets": [["2"], ["3", "2"]]}},
                {"op": "delete", "obj": {"rv": "2", "subsets": [["2"], ["3", "2"]]}},
                {"op": "add", "obj": {"rv": "3", "subsets": [["4"]]}},
                {"op": "other_add"}, {"op": "other_delete"}, {"op": "other_update_old", "obj": {"rv": "4", "subsets": [["5"]]}},
                {"op": "other_update_new", "obj": {"rv": "3", "subsets": [["4"]]}},
                {"op": "tombstone", "obj": {"rv": "3", "subsets": [["4"]]}}]},
            # seeded regression 7 (address ENTRIES counted instead of distinct IPs): the same IP in several subsets / twice
            # in one subset, the update shrinks the set and the number of entries equals the size of the published set
            {"kind": "kube", "ops": [
                {"op": "update", "obj": {"rv": "1", "subsets": [["1", "2", "3", "4"]]}},
                {"op": "onupdate", "old": {"rv": "1", "subsets": [["1", "2", "3", "4"]]}, "obj": {"rv": "2", "subsets": [["1", "2"], ["1", "2"]]}},
                {"op": "onupdate", "old": {"rv": "2", "subsets": [["1", "2"], ["1", "2"]]}, "obj": {"rv": "3", "subsets": [["1"], ["1"]]}},
                {"op": "update", "obj": {"rv": "4", "subsets": [["5", "6", "7"]]}},
                {"op": "add", "obj": {"rv": "5", "subsets": [["6", "6", "6"]]}},
                {"op": "update", "obj": {"rv": "6", "subsets": [["6", "7"], ["8"]]}},
                {"op": "onupdate", "old": {"rv": "6", "subsets": [["6", "7"], ["8"]]}, "obj": {"rv": "7", "subsets": [["8", "7"], ["7"]]}},
                {"op": "delete", "obj": {"rv": "7", "subsets": [["8", "7"], ["7"]]}},
                {"op": "add", "obj": {"rv": "8", "subsets": [[], ["9", "9"]]}}]},
        ]

    # ------------------------------------------------------------------ generators
    def _events(self, rng, n, nk, nv, joins):
        truth = {}
        ops = []
        for _ in range(n):
            r = rng.random()
            k = "k%d" % rng.randrange(nk)
            if r < 0.42:
                if truth and rng.random() < 0.3:           # update in place / same value again
                    k = rng.choice(sorted(truth))
                v = "v%d" % rng.randrange(nv)
                truth[k] = v
                ops.append(["put", k, v])
            elif r < 0.58:
                if rng.random() < 0.2:
                    k = "k%d" % (nk + rng.randrange(3))    # never registered
                truth.pop(k, None)
                ops.append(["del", k])
            elif r < 0.68:
                b = []
                for _ in range(rng.choice([0, 1, 2, 2, 3, 4, 6])):
                    kk = "k%d" % rng.randrange(nk)
                    if b and rng.random() < 0.4:
                        kk = rng.choice(b)[1]              # same key again in the same response
                    if rng.random() < 0.6:
                        vv = "v%d" % rng.randrange(nv)
                        truth[kk] = vv
                        b.append(["put", kk, vv])
                    else:
                        truth.pop(kk, None)
                        b.append(["del", kk, ""])
                ops.append(["batch", b])
            elif r < 0.92 or not joins:
                snap = {}
                mode = rng.random()
                for kk, vv in sorted(truth.items()):
                    q = rng.random()
                    if mode < 0.15 or q < 0.5:
                        snap[kk] = vv                     # replayed unchanged
                    elif q < 0.75:
                        snap[kk] = "v%d" % rng.randrange(nv)   # value changed while disconnected
                    # else: vanished
                if mode >= 0.15:
                    for _ in range(rng.randrange(3)):
                        snap["k%d" % rng.randrange(nk)] = "v%d" % rng.randrange(nv)
                if mode > 0.95:
                    snap = {}
                kvs = [[a, b] for a, b in snap.items()]
                rng.shuffle(kvs)
                if kvs and rng.random() < 0.1:             # malformed response: duplicate key, last wins
                    a, b = rng.choice(kvs)
                    kvs.insert(0, [a, "v%d" % rng.randrange(nv)])
                truth = dict(snap)
                ops.append(["reload", kvs])
            else:
                ops.append(["join", rng.random() < 0.5])
        return ops

    def gen(self, rng, n, tier):
        cases = []
        for i in range(n):
            r = rng.random()
            if r < 0.17:
                cases.append(self._cluster(rng))
            elif r < 0.35:
                nk, nv = rng.randint(1, 5), rng.randint(1, 4)
                ops = []
                for _ in range(rng.randint(5, 60)):
                    k = "k%d" % rng.randrange(nk if rng.random() < 0.9 else nk + 2)
                    if rng.random() < 0.6:
                        ops.append(["add", k, "v%d" % rng.randrange(nv)])
                    else:
                        ops.append(["del", k])
                cases.append({"kind": "container", "excl": rng.random() < 0.5, "ops": ops})
            elif r < 0.66:
                xs = [rng.random() < 0.45 for _ in range(rng.randint(1, 3))]
                ops = self._events(rng, rng.randint(5, 40), rng.randint(1, 6), rng.randint(1, 5), True)
                cases.append({"kind": "discov", "xs": xs, "ops": ops})
            elif r < 0.76:
                big = rng.random() < 0.5
                nk, nv = (rng.randint(30, 45), rng.randint(30, 45)) if big else (rng.randint(1, 6), rng.randint(1, 5))
                pre = self._events(rng, rng.randint(0, 40 if big else 8), nk, nv, False)
                ops = self._events(rng, rng.randint(4, 25), nk, nv, False)
                if big and rng.random() < 0.7:
                    m = rng.choice([31, 32, 33, 40])
                    ops.insert(rng.randrange(len(ops) + 1), ["reload", [["k%d" % j, "v%d" % j] for j in range(m)]])
                cases.append({"kind": "resolver", "pre": pre, "ops": ops})
            elif r < 0.83:
                m = rng.choice([0, 1, 2, 5, 31, 32, 33, 34, 50, 70])
                st = ["v%d" % (j if rng.random() < 0.9 else rng.randrange(max(1, m))) for j in range(m)]
                rng.shuffle(st)
                cases.append({"kind": "subset", "set": st, "sub": rng.choice([0, 1, 3, 31, 32, 32, 32, 33, 64])})
            else:
                cases.append({"kind": "kube", "ops": self._kube(rng)})
        return cases

    # ---- cluster: the real Registry / cluster / Subscriber on the fake etcd
    def _cluster(self, rng):
        inj = rng.random() < 0.4                  # every key has values of its own (then exclusive = non-exclusive)
        widx = sorted(rng.sample(range(len(CL_WATCHERS)), rng.randint(1, 3)))
        if 0 not in widx and rng.random() < 0.7:
            widx = [0] + widx[:2]
        watchers = [{"key": CL_WATCHERS[i][0], "exact": CL_WATCHERS[i][1]} for i in widx]
        nw = len(watchers)
        use_res = rng.random() < 0.3
        use_pub = rng.random() < 0.4
        use_hooks = rng.random() < 0.5
        use_joins = rng.random() < 0.5
        use_regen = rng.random() < 0.5
        # etcd catches watchers that are behind up in batches stamped with the CURRENT revision (header ahead of the
        # events delivered so far); stream errors after any batch
        use_batch = rng.random() < 0.4
        nv = rng.randint(1, 4)
        keys = CL_KEYS if rng.random() < 0.6 else CL_KEYS[:4]
        neps = 2 if rng.random() < 0.3 else 1          # endpoints of the etcd cluster; subscribers may list them in either order
        base = rng.choice([1, 1, 1, 2, 1 << 31, (1 << 40) + 7])   # revision of the empty store
        ops = [["batchsize", rng.choice([1, 1, 2, 2, 3])]] if use_batch else []
        spied, members, store, pubs, modes = set(), {}, {}, set(), {}
        st = {"sid": 0, "rev": base, "geterr": 1 if rng.random() < 0.15 else 0}

        def val(k):
            if not inj and rng.random() < 0.04:
                return ""                              # the empty string is a value like any other
            return "v%d" % (10 * (CL_KEYS.index(k) + 1) + rng.randrange(2)) if inj else "v%d" % rng.randrange(nv)

        def mut():
            if store and rng.random() < 0.3:
                k = rng.choice(sorted(store))
                if rng.random() < 0.55:
                    del store[k]
                    st["rev"] += 1
                    ops.append(["del", k])
                    return
            else:
                k = rng.choice(keys)
            if rng.random() < 0.08:
                ops.append(["del", k])            # possibly absent: etcd makes no revision then
                if k in store:
                    del store[k]
                    st["rev"] += 1
                return
            v = val(k)
            store[k] = v
            st["rev"] += 1
            ops.append(["put", k, v])

        def sub():
            w = rng.randrange(nw)
            if w not in spied:
                ops.append(["spy", w])
                spied.add(w)
                members[w] = []
                if rng.random() < 0.3:
                    return
            r = rng.random()
            if use_res and not watchers[w]["exact"] and r < 0.4:
                mode, excl = "res", False
            elif r < 0.7:
                mode, excl = "rec", rng.random() < 0.45
            else:
                # discov.NewSubscriber(..., Exclusive()): the order in which Monitor replays the current values to
                # it cannot be observed, so it joins only when that order cannot matter (no two keys of the range
                # share a value at that moment and etcd is not withholding deliveries)
                wk = watchers[w]
                inr = [v for k, v in store.items() if cl_in_range(k, wk["key"], wk["exact"])]
                # (registrations made by Publishers are not in the generator's own picture of the store: then only
                # when every key has values of its own)
                mode, excl = "api", (inj or (not use_pub and not st.get("paused") and len(set(inr)) == len(inr))) and rng.random() < 0.45
            ops.append(["sub", st["sid"], w, mode, excl] + ([True] if neps > 1 and rng.random() < 0.5 else []))
            modes[st["sid"]] = mode
            members[w].append(st["sid"])
            st["sid"] += 1

        def lag_block():
            ops.append(["pause"])
            st["paused"] = True
            for _ in range(rng.randint(1, 4) + (rng.randint(1, 3) if use_batch else 0)):
                mut()
            if use_batch and spied and rng.random() < 0.8:
                # part of the backlog arrives (partial catch-up batches, header revision = the current one), then the
                # stream breaks / is compacted away / the connection is re-established / nothing happens, and again
                for _ in range(rng.choice([1, 1, 2])):
                    ops.append(["trickle", rng.choice([1, 1, 2])])
                    r = rng.random()
                    if r < 0.35:
                        ops.append(["closewatch"])
                    elif r < 0.6:
                        ops.append(["cancelwatch"])
                    elif r < 0.7:
                        ops.append(["reconnect"])
                    elif r < 0.8:
                        mut()
                if rng.random() < 0.25:
                    ops.append(["compact"])
            elif rng.random() < 0.65:
                ops.append(["compact"])
            if spied and rng.random() < 0.2:
                ops.append([rng.choice(["closewatch", "cancelwatch"])])
            if rng.random() < 0.25:
                sub()
            if rng.random() < 0.3:
                mut()
            ops.append(["resume"])
            st["paused"] = False

        def publish():
            # registrations through the real discov.Publisher (KeepAlive / Stop; a lease that expires costs the
            # Publisher's own 1 s tick: it shares the budget of the failing Get)
            r = rng.random()
            if pubs and r < 0.35:
                pid = rng.choice(sorted(pubs))
                pubs.remove(pid)
                ops.append(["unpub", pid])
            elif pubs and r < 0.45 and st["geterr"] and not st.get("paused"):
                st["geterr"] -= 1
                pid = rng.choice(sorted(pubs))
                if rng.random() < 0.5:
                    ops.append(["expire", pid])
                else:
                    ops.append(["ppause", pid])
                    for _ in range(rng.randrange(3)):
                        mut()
                    ops.append(["presume", pid])
            else:
                key = rng.choice(["svc", "svc", "svc/a", "svcx"])
                pid = st["pid"] = st.get("pid", 0) + 1
                v = "v%d" % (200 + 10 * pid + rng.randrange(2)) if inj else "v%d" % rng.randrange(nv)
                ops.append(["pub", pid, key, v, rng.choice([0, 0, 1, 2])])
                pubs.add(pid)
                st["rev"] += 1       # a lower bound of etcd's revision is enough (it only bounds "stale")

        def during_dispatch():
            # the listener set of a watcher changes WHILE the watcher is dispatching a change to it: a subscriber is
            # closed / created from inside a listener callback (re-entrantly) or from another goroutine while the
            # callback is held - during a watch event and during the diff of a reload
            cand = [w for w in spied if len([x for x in members[w] if modes[x] != "res"]) >= 1 and len(members[w]) >= 3]
            if not cand or st.get("paused"):
                return sub()
            w = rng.choice(sorted(cand))
            inr = [k for k in keys if cl_in_range(k, watchers[w]["key"], watchers[w]["exact"])]
            if not inr:
                return mut()
            trigs = [x for x in members[w] if modes[x] != "res"]
            trig = rng.choice(trigs[:-1] or trigs) if rng.random() < 0.7 else rng.choice(trigs)
            how = rng.choice(["in", "in", "out"])
            if rng.random() < 0.7:
                # mostly a listener registered before others (itself or an earlier one): those after it must not lose the change
                early = members[w][:members[w].index(trig) + 1]
                target = rng.choice(early) if rng.random() < 0.7 else rng.choice(members[w])
                hook = ["hook", trig, "unsub", target, how]
            else:
                target = None
                mode = rng.choice(["rec", "rec", "api"])
                hook = ["hook", trig, "sub", st["sid"], mode, mode == "rec" and rng.random() < 0.4, how]
            if target is None and hook[4] == "rec" and not hook[5] and rng.random() < 0.35:
                # a subscriber created during a watch response with two events (KNOWN finding on this tree)
                ops.append(["pause"])
                for k in rng.sample(inr, min(2, len(inr))):
                    store[k] = val(k)
                    st["rev"] += 1
                    ops.append(["put", k, store[k]])
                ops.extend([hook, ["resume"]])
            elif rng.random() < 0.6:
                k = rng.choice(inr)                      # a watch event: exactly one PUT is dispatched
                v = val(k)
                for _ in range(6):                       # preferably one that changes the views
                    if store.get(k) != v and (inj or v not in store.values()):
                        break
                    k = rng.choice(inr)
                    v = val(k)
                ops.append(hook)
                store[k] = v
                st["rev"] += 1
                ops.append(["put", k, v])
            else:
                ops.append(["pause"])                   # a reload diff with at least one call
                absent = [k for k in inr if k not in store]
                if absent:
                    k = rng.choice(absent)
                    store[k] = val(k)
                    ops.append(["put", k, store[k]])
                else:
                    k = rng.choice(inr)
                    del store[k]
                    ops.append(["del", k])
                st["rev"] += 1
                ops.extend([hook, ["reconnect"], ["resume"]])
            if target is None:
                members[w].append(st["sid"])
                modes[st["sid"]] = hook[4]
                st["sid"] += 1
            else:
                members[w].remove(target)

        def join_overlap():
            # a subscriber joins WHILE registrations are made: from inside the joiner's first replayed OnAdd (Monitor's
            # replay for a further listener, monitor's load for the first listener of a key) new keys are registered
            # and the watch goroutine handles them before the join goes on
            if st.get("paused"):
                return mut()
            w = rng.randrange(nw)
            wk = watchers[w]
            absent = [k for k in keys if cl_in_range(k, wk["key"], wk["exact"]) and k not in store]
            if not absent:
                return mut()
            ms = []
            for k in rng.sample(absent, min(len(absent), rng.choice([1, 1, 2]))):
                v = val(k)
                store[k] = v
                st["rev"] += 1
                ms.append(["put", k, v])
            excl = rng.random() < 0.4
            present = [k for k in keys if cl_in_range(k, wk["key"], wk["exact"]) and k in store and k not in [m[1] for m in ms]]
            if w in spied and not excl and present and rng.random() < 0.4:
                # ... and an event about a key the joiner is about to be handed (KNOWN finding on this tree when the
                # key has not been replayed yet)
                k = rng.choice(present)
                if rng.random() < 0.5:
                    del store[k]
                    ms.append(["del", k])
                else:
                    store[k] = val(k)
                    ms.append(["put", k, store[k]])
                st["rev"] += 1
            if w in spied:
                ops.append(["subj", st["sid"], w, excl, ms])
                modes[st["sid"]] = "rec"
                members[w].append(st["sid"])
                st["sid"] += 1
            else:
                ops.append(["spyj", w, ms])
                spied.add(w)
                members[w] = []

        def regeneration():
            # the lifecycle of a watcher identity: while a listener is being called for an event of a MULTI-event watch
            # response, every subscriber of the key is closed (the watcher goes away), the store moves on - superseding
            # the rest of that response -, and the key is monitored again (a new generation: new watcher, load, watch);
            # then the old generation's goroutine goes on with the rest of its response
            cand = [w for w in spied]
            if not cand or st.get("paused"):
                return sub()
            w = rng.choice(sorted(cand))
            wk = watchers[w]
            inr = [k for k in keys if cl_in_range(k, wk["key"], wk["exact"])]
            if not inr:
                return mut()
            batch, tmp = [], dict(store)
            for _ in range(rng.choice([2, 2, 3, 4])):
                k = rng.choice(inr)
                if k in tmp and rng.random() < 0.35:
                    del tmp[k]
                    batch.append(["del", k])
                else:
                    tmp[k] = val(k)
                    batch.append(["put", k, tmp[k]])
            hold = rng.randrange(len(batch) - 1)
            between = []
            for m in batch[hold + 1:]:                       # what supersedes the rest of the response
                if rng.random() < 0.75:
                    if m[0] == "put" and rng.random() < 0.6:
                        if m[1] in tmp:
                            del tmp[m[1]]
                            between.append(["del", m[1]])
                    else:
                        tmp[m[1]] = val(m[1])
                        between.append(["put", m[1], tmp[m[1]]])
            if rng.random() < 0.3:
                k = rng.choice(keys)
                tmp[k] = val(k)
                between.append(["put", k, tmp[k]])
            mode = rng.choice(["api", "rec", "rec"])
            ops.append(["regen", w, hold, batch, between, st["sid"], mode, mode == "rec" and rng.random() < 0.3,
                        rng.choice(["in", "out"])])
            store.clear()
            store.update(tmp)
            st["rev"] += len(batch)
            modes[st["sid"]] = mode
            members[w] = [st["sid"]]
            st["sid"] += 1

        def takeover():
            # what "exclusive" is about: a second key registers a value that is already served, then goes away
            cand = [o[2] for o in ops if o[0] == "sub" and o[4] and o[3] == "api" and any(o[1] in l for l in members.values())]
            cand = cand or [o[2] for o in ops if o[0] == "sub" and o[4] and any(o[1] in l for l in members.values())]
            w = rng.choice(cand) if cand else rng.randrange(nw)
            inr = [k for k in keys if cl_in_range(k, watchers[w]["key"], watchers[w]["exact"])]
            if len(inr) < 2 or inj:
                return mut()
            k1, k2 = rng.sample(inr, 2)
            v = val(k1)
            for o in ([["put", k1, v]] if store.get(k1) != v or rng.random() < 0.3 else []) + [["put", k2, v]]:
                store[o[1]] = v
                st["rev"] += 1
                ops.append(o)
            if rng.random() < 0.3:
                mut()
            if k2 in store and rng.random() < 0.85:
                del store[k2]
                st["rev"] += 1
                ops.append(["del", k2])

        for _ in range(rng.randint(8, 34)):
            r = rng.random()
            if r < 0.12 and any(o[0] == "sub" and o[4] for o in ops):
                takeover()
            elif r >= 0.20 and r < 0.34 and use_hooks:
                during_dispatch()
            elif r >= 0.34 and r < 0.42 and use_joins:
                join_overlap()
            elif r >= 0.42 and r < 0.47 and use_regen:
                regeneration()
            elif r < 0.20 and use_pub:
                publish()
            elif r < 0.36:
                mut()
            elif r < 0.50:
                sub()
            elif r < 0.56:
                live = [s for l in members.values() for s in l]
                if live:
                    sid = rng.choice(live)
                    for l in members.values():
                        if sid in l:
                            l.remove(sid)
                    ops.append(["unsub", sid])
            elif r < 0.62 and spied:
                ops.append(["closewatch"])
            elif r < 0.66 and spied:
                ops.append(["cancelwatch"])
            elif r < 0.74:
                lag_block()
            elif r < 0.82 and spied:
                if rng.random() < 0.2 and st["rev"] - base > 1:
                    ops.append(["stale", rng.randint(1, min(4, st["rev"] - base))])
                ops.append(["reconnect"])
            elif r < 0.86 and spied and st["geterr"]:
                st["geterr"] -= 1
                ops.append(["geterr", 1])
                if rng.random() < 0.5:
                    ops.append(["reconnect"])
                else:
                    ops += [["pause"]]
                    mut()
                    ops += [["compact"], ["resume"]]
            elif r < 0.92 and spied:
                w = rng.choice(sorted(spied))          # tear the watcher down; a later sub builds it again
                for sid in members[w]:
                    ops.append(["unsub", sid])
                members[w] = []
                ops.append(["unspy", w])
                spied.discard(w)
            elif r < 0.94:
                ops.append(["compact"])
            elif use_pub:
                publish()
            else:
                mut()
        return {"kind": "cluster", "watchers": watchers, "ops": ops, "base": base, "eps": neps}

    @staticmethod
    def _cl_valid(case):
        spied, members, sids = set(), {}, set()
        pubs, pids, ppaused = set(), set(), set()
        base = case.get("base") or 1
        paused, rev, store = False, base, {}
        nw = len(case["watchers"])
        modes = {}
        for idx, o in enumerate(case["ops"]):
            n = o[0]
            if n == "spy":
                if o[1] in spied or not 0 <= o[1] < nw:
                    return False
                spied.add(o[1])
                members[o[1]] = []
            elif n == "unspy":
                if o[1] not in spied or members[o[1]]:
                    return False
                spied.discard(o[1])
            elif n == "regen":
                if o[1] not in spied or paused or o[5] in sids or not 0 <= o[2] < len(o[3]):
                    return False
                for m in list(o[3]) + list(o[4]):
                    if m[0] == "put":
                        rev += 1
                        store[m[1]] = m[2]
                    elif m[1] in store:
                        rev += 1
                        del store[m[1]]
                sids.add(o[5])
                modes[o[5]] = o[6]
                members[o[1]] = [o[5]]
            elif n == "spyj":
                if o[1] in spied or not 0 <= o[1] < nw or paused:
                    return False
                spied.add(o[1])
                members[o[1]] = []
                for m in o[2]:
                    rev += 1
                    store[m[1]] = m[2]
            elif n == "subj":
                if o[2] not in spied or o[1] in sids or paused:
                    return False
                sids.add(o[1])
                modes[o[1]] = "rec"
                members[o[2]].append(o[1])
                for m in o[4]:
                    if m[0] == "put":
                        rev += 1
                        store[m[1]] = m[2]
                    elif m[1] in store:
                        rev += 1
                        del store[m[1]]
            elif n == "sub":
                if o[2] not in spied or o[1] in sids or (o[3] == "res" and case["watchers"][o[2]]["exact"]):
                    return False
                sids.add(o[1])
                modes[o[1]] = o[3]
                members[o[2]].append(o[1])
            elif n == "unsub":
                ws = [w for w, l in members.items() if o[1] in l]
                if not ws:
                    return False
                members[ws[0]].remove(o[1])
            elif n == "hook":
                ws = [w for w, l in members.items() if o[1] in l]
                nxt = case["ops"][idx + 1][0] if idx + 1 < len(case["ops"]) else ""
                if not ws or modes.get(o[1]) == "res" or paused and nxt not in ("reconnect", "resume") or nxt not in ("put", "del", "reconnect", "resume"):
                    return False
                if o[2] == "unsub":
                    if o[3] not in members[ws[0]]:
                        return False
                    members[ws[0]].remove(o[3])
                else:
                    if o[3] in sids:
                        return False
                    sids.add(o[3])
                    modes[o[3]] = o[4]
                    members[ws[0]].append(o[3])
            elif n == "pub":
                if o[1] in pids:
                    return False
                pids.add(o[1])
                pubs.add(o[1])
                rev += 1
            elif n in ("unpub", "expire", "ppause", "presume"):
                if o[1] not in pubs or (n != "unpub" and paused):
                    return False
                if (n == "presume") != (o[1] in ppaused) and n != "unpub":
                    return False
                if n == "unpub":
                    pubs.discard(o[1])
                    ppaused.discard(o[1])
                elif n == "ppause":
                    ppaused.add(o[1])
                elif n == "presume":
                    ppaused.discard(o[1])
            elif n == "pause":
                if paused:
                    return False
                paused = True
            elif n == "resume":
                if not paused:
                    return False
                paused = False
            elif n == "put":
                rev += 1
                store[o[1]] = o[2]
            elif n == "del":
                if o[1] in store:
                    rev += 1
                    del store[o[1]]
            elif n == "stale":
                if paused or o[1] > rev - base:
                    return False
            elif n == "batchsize":
                if not 0 <= o[1] <= 64:
                    return False
            elif n == "trickle":
                if not paused or not 1 <= o[1] <= 64:
                    return False
            elif n in ("reconnect", "closewatch", "cancelwatch", "geterr"):
                if not spied:
                    return False
        return not paused and not ppaused

    def _kobj(self, rng, rv, nip):
        subs = []
        for _ in range(rng.choice([0, 1, 1, 1, 2, 3])):
            subs.append([str(rng.randrange(nip)) for _ in range(rng.randint(0, 4))])
        return {"rv": str(rv), "subsets": subs}

    def _kube(self, rng):
        nip = rng.randint(2, 8)
        cur = None
        rv = 1
        ops = []
        wild = rng.random() < 0.12     # also histories outside the informer discipline (compared with the model only)
        for _ in range(rng.randint(4, 30)):
            r = rng.random()
            if wild and rng.random() < 0.3:
                rv += 1
                o = self._kobj(rng, rv, nip)
                ops.append({"op": rng.choice(["add", "delete"]), "obj": o})
                continue
            if rng.random() < 0.08:
                ops.append({"op": rng.choice(["other_add", "other_delete", "other_update_old", "other_update_new"]),
                            "obj": cur or self._kobj(rng, rv, nip)})
                continue
            if cur is not None and rng.random() < 0.03:
                ops.append({"op": "tombstone", "obj": cur})      # the handler ignores it: outside the alphabet from here
                cur = None
                continue
            if cur is None:
                rv += 1
                cur = self._kobj(rng, rv, nip)
                ops.append({"op": "add" if r < 0.75 else "update", "obj": cur})
            elif r < 0.5:
                rv += 1
                new = self._kobj(rng, rv, nip)
                if rng.random() < 0.2:
                    new = {"rv": str(rv), "subsets": [list(reversed(s)) for s in reversed(cur["subsets"])]}
                ops.append({"op": "onupdate", "old": cur, "obj": new})
                cur = new
            elif r < 0.6:
                ops.append({"op": "onupdate", "old": cur, "obj": cur})      # resync: same resource version
            elif r < 0.75:
                rv += 1
                cur = self._kobj(rng, rv, nip)
                ops.append({"op": "update", "obj": cur})
            elif r < 0.85:
                ops.append({"op": "add", "obj": cur})                        # re-list after the explicit Update
            else:
                ops.append({"op": "delete", "obj": cur})
                cur = None
        return ops

    # ------------------------------------------------------------------ execution
    CHUNK = 1500

    def execute(self, cases, ctx):
        """One pass over the executors, then every observation on which the model disagrees or the property fails
        is taken again ONCE in a fresh executor process and kept only if it persists (props.c19.confirm_in_fresh_process):
        the generations / `regen` family waits with bounded timeouts, and a starved goroutine on a loaded machine
        produced one agrees-only disagreement in about ten runs that no re-evaluation of the same case reproduced."""
        res = self._execute_once(cases, ctx)
        from props.c19 import confirm_in_fresh_process
        return confirm_in_fresh_process(self, ctx, cases, res, lambda cs: self._execute_once(cs, ctx))

    def _execute_once(self, cases, ctx):
        groups = {}
        for i, c in enumerate(cases):
            groups.setdefault(pkg_of(c), []).append((i, c))
        res = [None] * len(cases)

        def work(pkg):
            idx = [i for i, _ in groups[pkg]]
            sub = []
            for j, (_, c) in enumerate(groups[pkg]):
                d = dict(c)
                d["id"] = j
                e = dict(c)
                e.pop("id", None)
                d["seed"] = int(vlib.canon_hash(e), 16) % (1 << 31)   # rand.Shuffle depends on the case only
                sub.append(d)
            # at most CHUNK cases per go test: thorough and search volumes never come near the go-test timeout
            rs = []
            for lo in range(0, len(sub), self.CHUNK):
                part = sub[lo:lo + self.CHUNK]
                rc, out, prs = vlib.go_test_overlay(pkg, FILES, "TestVerifC13$", part,
                                                    tag="c13" + pkg.replace("/", "_").replace(".", ""), timeout=900)
                if rc != 0 or len(prs) != len(part):
                    raise ExecError("c13 executor %s rc=%s (%d/%d results of chunk %d): %s"
                                    % (pkg, rc, len(prs), len(part), lo // self.CHUNK, out[-2500:]))
                rs += prs
            for i, r in zip(idx, rs):
                r.pop("id", None)
                res[i] = r
            return True

        with concurrent.futures.ThreadPoolExecutor(max_workers=3) as ex:
            list(ex.map(work, sorted(groups)))
        return res

    # ------------------------------------------------------------------ rendering
    def _ev(self, op, rec):
        if op[0] == "put":
            return "EPut %s %s" % (cz(num(op[1])), cz(num(op[2])))
        if op[0] == "del":
            return "EDelete %s" % cz(num(op[1]))
        if op[0] == "batch":
            return "EBatch %s" % clist(["BPut %s %s" % (cz(num(e[1])), cz(num(e[2]))) if e[0] == "put"
                                        else "BDel %s" % cz(num(e[1])) for e in op[1]])
        adds = [(num(r[1]), num(r[2])) for r in rec if r[0] == "add"]
        if op[0] == "reload":
            snap = [(num(a), num(b)) for a, b in op[1]]
            # the calls exactly as the listeners received them (any interleaving is allowed)
            calls = ["LAdd %s %s" % (cz(num(r[1])), cz(num(r[2]))) if r[0] == "add" else "LDel %s" % cz(num(r[1]))
                     for r in rec]
            return "EReload %s %s" % (pairs(snap), clist(calls))
        if op[0] == "join":
            return "EJoin %s %s" % (cbool(op[1]), pairs(adds))
        raise ValueError(op)

    def _cobs(self, o):
        return "(%s, %s)" % (zl(nsorted(o["vals"])), zll([nsorted(v) for v in o["notes"]]))

    def coq_case(self, case, obs):
        k = case["kind"]
        if obs.get("panic"):
            return "CSubset [] 0 [1] [1]"    # the implementation panicked: neither agrees nor prop_ok
        if k == "cluster":
            return ClusterView(case, obs).render()
        if k == "container":
            levs = ["LAdd %s %s" % (cz(num(o[1])), cz(num(o[2]))) if o[0] == "add" else "LDel %s" % cz(num(o[1]))
                    for o in case["ops"]]
            return "CContainer %s %s %s" % (cbool(case["excl"]), clist(levs), clist([self._cobs(s) for s in obs["steps"]]))
        if k == "discov":
            evs = [self._ev(o, s["rec"]) for o, s in zip(case["ops"], obs["steps"])]
            ob = ["(%s, %s)" % (pairs(sorted((num(a), num(b)) for a, b in s["rvals"])),
                                clist([self._cobs(c) for c in s["conts"]])) for s in obs["steps"]]
            return "CDiscov %s %s %s" % (clist([cbool(x) for x in case["xs"]]), clist(evs), clist(ob))
        if k == "resolver":
            pre = [self._ev(o, s["rec"]) for o, s in zip(case["pre"], obs["pre"] or [])]
            evs = [self._ev(o, s["rec"]) for o, s in zip(case["ops"], obs["steps"] or [])]
            rob = lambda s: "(%s, %s)" % (zll([[num(x) for x in p] for p in s["pubs"]]), zl(nsorted(s["vals"])))
            return "CResolver %s %s %s %s %s" % (cz(obs["subsetSize"]), clist(pre), clist(evs), rob(obs["build"]),
                                                 clist([rob(s) for s in obs["steps"] or []]))
        if k == "subset":
            st = [num(x) for x in case["set"]]
            out = [num(x) for x in obs["out"]]
            rest = list(st)
            okc = True
            for x in out:
                if x in rest:
                    rest.remove(x)
                else:
                    okc = False
            sh = out + sorted(rest) if okc else out + st
            return "CSubset %s %s %s %s" % (zl(st), cz(case["sub"]), zl(sh), zl(out))
        if k == "kube":
            def ko(o):
                return "(mkObj %s %s)" % (cz(int(o["rv"])), zll([[num(x) for x in s] for s in o["subsets"]]))
            evs = []
            for o in case["ops"]:
                if o["op"] == "add":
                    evs.append("KAdd %s" % ko(o["obj"]))
                elif o["op"] == "delete":
                    evs.append("KDelete %s" % ko(o["obj"]))
                elif o["op"] == "onupdate":
                    evs.append("KOnUpdate %s %s" % (ko(o["old"]), ko(o["obj"])))
                elif o["op"].startswith("other"):
                    evs.append("KOther")
                elif o["op"] == "tombstone":
                    evs.append("KTombstone %s" % ko(o["obj"]))
                else:
                    evs.append("KUpdate %s" % ko(o["obj"]))
            ob = ["(%s, %s)" % (zll([nsorted(p) for p in s["pubs"]]), zl(nsorted(s["eps"]))) for s in obs["steps"]]
            return "CKube %s %s" % (clist(evs), clist(ob))
        raise ValueError(k)

    # ------------------------------------------------------------------ evidence
    def _value_change(self, ops):
        seen = {}
        ch = False
        for o in ops:
            if o[0] in ("put", "add"):
                if o[1] in seen and seen[o[1]] != o[2]:
                    ch = True
                seen[o[1]] = o[2]
            elif o[0] == "del":
                seen.pop(o[1], None)
            elif o[0] == "reload":
                new = dict((a, b) for a, b in o[1])
                if any(a in seen and seen[a] != b for a, b in new.items()):
                    ch = True
                seen = new
            elif o[0] == "batch":
                for e in o[1]:
                    if e[0] == "put":
                        if e[1] in seen and seen[e[1]] != e[2]:
                            ch = True
                        seen[e[1]] = e[2]
                    else:
                        seen.pop(e[1], None)
        return ch

    def nontrivial(self, case, obs):
        k = case["kind"]
        if obs.get("panic"):
            return False
        if k == "container":
            return self._value_change(case["ops"])
        if k == "cluster":
            names = set(o[0] for o in case["ops"])
            return (self._value_change(case["ops"]) and bool(names & {"sub", "subj", "regen"}) and
                    bool(names & {"closewatch", "cancelwatch", "compact", "reconnect", "geterr", "hook", "subj", "spyj", "regen", "trickle"}))
        if k in ("discov", "resolver"):
            ops = (case.get("pre") or []) + case["ops"]
            return self._value_change(ops) and any(o[0] == "reload" for o in ops)
        if k == "subset":
            return len(case["set"]) > case["sub"] > 0
        if k == "kube":
            return any(o["op"] == "onupdate" and o["old"] and o["old"]["rv"] != o["obj"]["rv"] and
                       set(sum(o["old"]["subsets"], [])) != set(sum(o["obj"]["subsets"], [])) for o in case["ops"])
        return False

    def features(self, case, obs):
        k = case["kind"]
        fs = ["kind=" + k]
        if obs.get("panic"):
            return fs + ["panic"]
        if k in ("container", "discov", "resolver", "kube", "cluster"):
            fs.append("%s_ops<=%d" % (k, 10 * (1 + len(case["ops"]) // 10)))
        if k == "cluster":
            fs += ["cluster_op_" + x for x in sorted(set(o[0] for o in case["ops"]))]
            fs += ["cluster_sub_%s%s" % (o[3], "_excl" if o[4] else "") for o in case["ops"] if o[0] == "sub"]
            fs += ["cluster_subj%s" % ("_excl" if o[3] else "") for o in case["ops"] if o[0] == "subj"]
            fs.append("cluster_watchers=%d" % len(case["watchers"]))
            fs.append("cluster_endpoints=%d" % (case.get("eps") or 1))
            fs.append("cluster_base_rev=%s" % ("1" if (case.get("base") or 1) == 1 else "2" if case["base"] == 2 else "large"))
            if any(o[0] == "put" and o[2] == "" for o in case["ops"]):
                fs.append("cluster_empty_value")
            if any(o[0] == "sub" and len(o) > 5 and o[5] for o in case["ops"]):
                fs.append("cluster_endpoints_other_order")
            fs += ["cluster_watch_%s%s" % (w["key"], "_exact" if w["exact"] else "") for w in case["watchers"]]
            try:
                fs += ["cluster_" + f for f in sorted(ClusterView(case, obs).feats)]
            except Exception:
                fs.append("cluster_view_error")
        if k == "container":
            fs.append("container_excl=%s" % case["excl"])
        if k in ("discov", "resolver"):
            ops = (case.get("pre") or []) + case["ops"]
            fs += ["has_" + x for x in sorted(set(o[0] for o in ops))]
            if self._value_change(ops):
                fs.append("key_changes_value")
            if any(o[0] == "reload" and len(set(a for a, _ in o[1])) < len(o[1]) for o in ops):
                fs.append("reload_dup_key")
        if k == "discov":
            fs.append("listeners_excl=%d_nonexcl=%d" % (sum(case["xs"]), len(case["xs"]) - sum(case["xs"])))
        if k == "resolver":
            fs.append("max_view>32" if any(len(s["vals"]) > 32 for s in obs["steps"] or []) else "max_view<=32")
        if k == "subset":
            fs.append("subset_len%ssub" % (">" if len(case["set"]) > case["sub"] else "<="))
        return fs

    KNOWN_JOIN = "C13-join-replay-overtakes-event"
    # variant -> key touched during the replay -> Values() of the first subscriber (= the registry) afterwards
    KNOWN_JOIN_SHAPE = {"delete": {"svc/k1": ["v2"], "svc/k2": ["v1"]},
                        "change": {"svc/k1": ["v2", "v9"], "svc/k2": ["v1", "v9"]}}

    # the two-event corpus case (a subscriber created from inside a callback during a two-event watch response):
    # Values() of every subscriber after each step ON THE UNCHANGED TREE - the committed table the corpus instance of the
    # known finding is compared with (the joiner, sid 2, was handed [v0 v1] and never gets svc/k2=v2)
    KNOWN_JOIN_CORPUS_OPS = [["put", "svc/k0", "v0"], ["spy", 0], ["sub", 0, 0, "rec", False], ["sub", 1, 0, "rec", False], ["pause"],
                             ["put", "svc/k1", "v1"], ["put", "svc/k2", "v2"], ["hook", 0, "sub", 2, "rec", False, "in"], ["resume"],
                             ["put", "svc/k3", "v3"]]
    KNOWN_JOIN_CORPUS = [{}, {}, {"0": ["v0"]}, {"0": ["v0"], "1": ["v0"]}, {"0": ["v0"], "1": ["v0"]}, {"0": ["v0"], "1": ["v0"]},
                         {"0": ["v0"], "1": ["v0"]}, {"0": ["v0"], "1": ["v0"]},
                         {"0": ["v0", "v1", "v2"], "1": ["v0", "v1", "v2"], "2": ["v0", "v1"]},
                         {"0": ["v0", "v1", "v2", "v3"], "1": ["v0", "v1", "v2", "v3"], "2": ["v0", "v1", "v3"]}]

    def known(self, case, obs):
        """C13-join-replay-overtakes-event, narrowly.  Only on a tree whose Registry.Monitor replays outside the cluster
        lock in exactly the shape of the unchanged tree (regenerated flag join_head: attach, unlock, replay getCurrent();
        a tree with pending/C13-join-atomic.diff or any other Monitor is judged strictly), only for cluster cases,
        and only when
        (i)  some non-exclusive recorded subscriber J joined in a step that overlapped events in the known way: a `subj`
             whose registrations concern keys that were in watchValue.values at the previous quiescent point and that were
             injected during the replay, or a subscriber created by a hook during a watch response with >= 2 events;
        (ii) with those joiners left out, the case satisfies prop_ok (the registry's copy, every other subscriber, their
             notifications: all right), and each J is consistent with the calls it received and agrees with the
             registry's copy on every key EXCEPT the keys of those events, and differs on at least one of them;
        (iii) the deviation has EXACTLY the shape the unchanged tree produces, computed from the case alone: a `subj` joiner
             holds, for each such key, the value the key had before the step (the older replayed value won); a hook-created
             joiner holds, on the keys of the response, the state after a proper prefix of its events (it was handed that
             state and missed the rest); afterwards the deviation may only persist unchanged or heal.
        The corpus instance and the monitor are pinned by committed tables (KNOWN_JOIN_CORPUS, KNOWN_JOIN_SHAPE)."""
        if case.get("kind") != "cluster" or obs.get("panic") or not getattr(self, "flags", {}).get("join_head"):
            return None
        try:
            if case.get("ops") == self.KNOWN_JOIN_CORPUS_OPS and len(case.get("watchers") or []) == 1:
                # the corpus instance: exactly the committed observation, nothing else
                got = [dict((k, v["vals"]) for k, v in st["subs"].items()) for st in obs["steps"]]
                if got != self.KNOWN_JOIN_CORPUS:
                    return None
            cv = ClusterView(case, obs)
            if not cv.suspects:
                return None
            W = [(w["key"], w["exact"]) for w in case["watchers"]]
            differs = False
            for sp in cv.suspects:
                sid, w, keys = str(sp["sid"]), sp["w"], set(sp["keys"])
                tag = cl_tag(*W[w])
                held, wrong = {}, {}
                for i in range(sp["step"], len(obs["steps"])):
                    st = obs["steps"][i]
                    so = st["subs"].get(sid)
                    if so is None:
                        break
                    for r in so.get("rec") or []:
                        if r[0] == "add":
                            held[r[1]] = r[2]
                        else:
                            held.pop(r[1], None)
                    reg = dict((k, v) for k, v in (st["state"].get(tag) or {}).get("values") or [])
                    if sorted(set(held.values())) != sorted(set(so["vals"])):
                        return None               # the container does not even reflect its own calls: something else
                    now = {}
                    for k in set(held) | set(reg):
                        if held.get(k) != reg.get(k):
                            if k not in keys:
                                return None       # wrong about a key no overlapped event was about
                            now[k] = held.get(k)
                            differs = True
                    if i == sp["step"]:
                        # the EXACT shape of the unchanged tree, computed from the case alone (never from the tree under test):
                        if sp["kind"] == "subj":
                            # the older replayed value overwrote the event: the joiner holds what the key had before the step
                            if any(v != sp["before"].get(k) for k, v in now.items()):
                                return None
                        else:
                            # created during event j of the response: handed the registry's values after the first j events,
                            # it misses the remaining ones - on the keys of the response it holds exactly that prefix state
                            shapes, cur = [], dict(sp["before"])
                            for t, k, v in sp["evs"][:-1]:
                                if t == "put":
                                    cur[k] = v
                                else:
                                    cur.pop(k, None)
                                shapes.append(dict((k2, cur.get(k2)) for k2 in keys))
                            if now and dict((k2, held.get(k2)) for k2 in keys) not in shapes:
                                return None
                    elif any(k not in wrong or wrong[k] != v for k, v in now.items()):
                        return None               # a deviation that appeared or changed later is not this finding
                    wrong = now
            if not differs:
                return None
            term = ClusterView(case, obs, exclude=[sp["sid"] for sp in cv.suspects]).render()
            (a, pok), = vlib.coq_eval_cases(self.id, self.check_module, [term], preamble=self.coq_preamble())
            return self.KNOWN_JOIN if pok else None
        except Exception:
            return None

    def shrink_candidates(self, case):
        res = Property.shrink_candidates(self, case)
        if case["kind"] == "cluster":
            return [c for c in res if self._cl_valid(c)][:300]
        if case.get("pre"):
            for c in Property.shrink_candidates(self, {"ops": case["pre"]}):
                d = dict(case)
                d["pre"] = c["ops"]
                res.append(d)
            d = dict(case)
            d["pre"] = []
            res.append(d)
        if case["kind"] == "discov" and len(case["xs"]) > 1:
            for i in range(len(case["xs"])):
                d = dict(case)
                d["xs"] = case["xs"][:i] + case["xs"][i + 1:]
                res.append(d)
        if case["kind"] == "subset" and len(case["set"]) > 1:
            for i in range(len(case["set"])):
                d = dict(case)
                d["set"] = case["set"][:i] + case["set"][i + 1:]
                res.append(d)
        return res[:300]

    def describe_failure(self, case, obs):
        if obs.get("panic"):
            return "the implementation panicked: %s" % obs["panic"][:300]
        return {
            "cluster": "the real cluster on a fake etcd (watch streams closed / cancelled / compacted, failed Gets, reloads over several watched keys, listeners coming and going): at a quiescent point a subscriber's Values() is not the set of values registered in etcd under its key, a view change was not notified / published, or a monitored key is left without a watch (no load / watch issued for it)",
            "container": "Values() of a container differs from the set of values of the keys registered by the OnAdd/OnDelete calls, or a call did not notify the listeners with the new view",
            "discov": "after a watch event / reload / join, a subscriber's Values() differs from the values of the registered keys, a stale value is shown, or a view change was not notified",
            "resolver": "the addresses given to cc.UpdateState are not the registered values (all of them when <= 32, else 32 of them)",
            "subset": "subset() did not return a permutation (len <= sub) / a sub-element sub-multiset of its input",
            "kube": "the kube EventHandler published something other than the current endpoint IPs, or did not publish a change",
        }[case["kind"]]


PROPERTY = C13()
