"""C13 — service discovery view equals the live registrations."""
import concurrent.futures
import os

import vlib
from runner import Property, ExecError
from vlib import cz, clist, cbool

OV = os.path.join(vlib.HARNESS, "overlay", "discov")
FILES = {
    # two tiny shims ADDED to the packages at test-build time (no go-zero file is replaced)
    "core/discov/internal/verif_c13_export.go": os.path.join(OV, "internal", "verif_c13_export.go"),
    "core/discov/verif_c13_export.go": os.path.join(OV, "discov", "verif_c13_export.go"),
    # the three white-box executors
    "core/discov/verif_c13_test.go": os.path.join(OV, "discov", "verif_c13_test.go"),
    "zrpc/resolver/internal/verif_c13_test.go": os.path.join(OV, "resolver", "verif_c13_test.go"),
    "zrpc/resolver/internal/kube/verif_c13_test.go": os.path.join(OV, "kube", "verif_c13_test.go"),
}
PKG = {"container": "./core/discov", "discov": "./core/discov",
       "resolver": "./zrpc/resolver/internal", "subset": "./zrpc/resolver/internal",
       "kube": "./zrpc/resolver/internal/kube"}


def num(s):
    """'k12' / 'v3' / '7' -> int"""
    return int(s.lstrip("kv"))


def zl(l):
    return clist([cz(x) for x in l])


def zll(ll):
    return clist([zl(l) for l in ll])


def pairs(l):
    return clist(["(%s, %s)" % (cz(a), cz(b)) for a, b in l])


def nsorted(l):
    return sorted(num(x) for x in l)


class C13(Property):
    id = "C13"
    title = "Service discovery view equals the live registrations"
    quick_cases = 800
    thorough_cases = 9000
    design_ref = "DESIGN.md §6/C13, §5/F3"
    level_text = ("Unbounded Rocq theorems over all histories of PUT/DELETE watch events, reload snapshots (with every "
                  "possible call order of the map iteration) and late-joining listeners: a subscriber's Values() is exactly "
                  "the set of values of the registered keys (exclusive: exactly the values whose most recent registrant is "
                  "still registered with it, and never a stale value), every listener call happens after the state change and "
                  "every view change is notified, the resolver publishes a permutation of the view when it has at most 32 "
                  "values and a 32-element sub-multiset otherwise, and the kube EventHandler publishes exactly the current "
                  "endpoint IPs. The model is tied to subscriber.go / registry.go / subset.go / discovbuilder.go / "
                  "eventhandler.go by white-box differential execution (go test -overlay) of generated histories.")
    level_note = ("Trusted: Coq kernel + vm_compute; hand-written model (Go maps as association lists, map order and "
                  "rand.Shuffle as checked oracles, getValues' snapshot cache not modelled); correspondence on generated "
                  "histories only; etcd client / watch streams / reconnect logic / the Kubernetes informer are not modelled "
                  "(events are fed to handleWatchEvents, handleChanges, Registry.Monitor and the handler methods directly).")
    rule = ("five kinds of cases: container (direct OnAdd/OnDelete), discov (cluster + several containers, exclusive or not, "
            "late joins, reloads), resolver (discovBuilder.Build end to end), subset, kube; 1..6 keys over 1..5 values (resolver: "
            "up to 45 values), 5..60 events; non-trivial = a key changes its value and (discov/resolver) a reload snapshot "
            "occurs, (subset) the set is larger than the bound, (kube) an update changes the IP set; distinct = canonical JSON "
            "hash of the case")
    trusted_base = [
        "model theories/C13/Model.v is hand-written; tie = white-box correspondence runs (harness/overlay/discov/*) on generated histories",
        "two shim files are ADDED (not replaced) to core/discov and core/discov/internal at test-build time to reach cluster.handleWatchEvents/handleChanges from the executors",
        "map iteration order and rand.Shuffle enter the model as oracles observed on the implementation and validated by the model",
        "etcd client, watch streams, reload/reconnect goroutines, Kubernetes informer and kubeBuilder's closure are not modelled",
    ]
    assumptions = ["keys/values/IPs are compared with Go string == (model: Z)",
                   "listener calls of one watcher are sequential (one watch goroutine per key; handleChanges and handleWatchEvents do not overlap)",
                   "kube: events concern the one Endpoints object selected by name, delivered in informer order (OnAdd/OnDelete carry an object covering the current IP set)"]

    # ------------------------------------------------------------------ corpus
    def corpus(self):
        K = lambda i: "k%d" % i
        V = lambda i: "v%d" % i
        return [
            # F3: key changes its value, then is deleted
            {"kind": "container", "excl": False, "ops": [["add", K(1), V(1)], ["add", K(1), V(2)], ["del", K(1)]]},
            {"kind": "container", "excl": True, "ops": [["add", K(1), V(1)], ["add", K(1), V(2)], ["del", K(1)]]},
            # F3: value changed across a reload
            {"kind": "discov", "xs": [False, True], "ops": [["put", K(1), V(1)], ["reload", [[K(1), V(2)]]], ["del", K(1)]]},
            # exclusive: the later registrant owns the value
            {"kind": "container", "excl": True,
             "ops": [["add", K(1), V(1)], ["add", K(2), V(1)], ["del", K(1)], ["add", K(1), V(1)], ["del", K(2)], ["del", K(1)]]},
            # several keys share a value; delete of an absent key; replayed reload; empty reload; join
            {"kind": "discov", "xs": [False], "ops": [["put", K(1), V(1)], ["put", K(2), V(1)], ["del", K(1)], ["del", K(9)],
                                                       ["reload", [[K(2), V(1)]]], ["join", True], ["reload", []],
                                                       ["reload", [[K(3), V(2)], [K(3), V(3)]]]]},
            {"kind": "resolver", "pre": [["put", K(i), V(i)] for i in range(31)],
             "ops": [["put", K(31), V(31)], ["put", K(32), V(32)], ["reload", [[K(i), V(i + 1)] for i in range(34)]],
                     ["del", K(0)], ["del", K(1)], ["del", K(2)]]},
            {"kind": "subset", "set": [V(i) for i in range(32)], "sub": 32},
            {"kind": "subset", "set": [V(i) for i in range(33)], "sub": 32},
            {"kind": "kube", "ops": [
                {"op": "update", "obj": {"rv": "1", "subsets": [["1", "2"]]}},
                {"op": "add", "obj": {"rv": "1", "subsets": [["1", "2"]]}},
                {"op": "onupdate", "old": {"rv": "1", "subsets": [["1", "2"]]}, "obj": {"rv": "2", "subsets": [["2"], ["3", "2"]]}},
                {"op": "onupdate", "old": {"rv": "2", "subsets": [["2"], ["3", "2"]]}, "obj": {"rv": "2", "subsets": [["2"], ["3", "2"]]}},
                {"op": "delete", "obj": {"rv": "2", "subsets": [["2"], ["3", "2"]]}},
                {"op": "add", "obj": {"rv": "3", "subsets": [["4"]]}}]},
        ]

    # ------------------------------------------------------------------ generators
    def _events(self, rng, n, nk, nv, joins):
        truth = {}
        ops = []
        for _ in range(n):
            r = rng.random()
            k = "k%d" % rng.randrange(nk)
            if r < 0.42:
                if truth and rng.random() < 0.3:           # update in place / same value again
                    k = rng.choice(sorted(truth))
                v = "v%d" % rng.randrange(nv)
                truth[k] = v
                ops.append(["put", k, v])
            elif r < 0.64:
                if rng.random() < 0.2:
                    k = "k%d" % (nk + rng.randrange(3))    # never registered
                truth.pop(k, None)
                ops.append(["del", k])
            elif r < 0.92 or not joins:
                snap = {}
                mode = rng.random()
                for kk, vv in sorted(truth.items()):
                    q = rng.random()
                    if mode < 0.15 or q < 0.5:
                        snap[kk] = vv                     # replayed unchanged
                    elif q < 0.75:
                        snap[kk] = "v%d" % rng.randrange(nv)   # value changed while disconnected
                    # else: vanished
                if mode >= 0.15:
                    for _ in range(rng.randrange(3)):
                        snap["k%d" % rng.randrange(nk)] = "v%d" % rng.randrange(nv)
                if mode > 0.95:
                    snap = {}
                kvs = [[a, b] for a, b in snap.items()]
                rng.shuffle(kvs)
                if kvs and rng.random() < 0.1:             # malformed response: duplicate key, last wins
                    a, b = rng.choice(kvs)
                    kvs.insert(0, [a, "v%d" % rng.randrange(nv)])
                truth = dict(snap)
                ops.append(["reload", kvs])
            else:
                ops.append(["join", rng.random() < 0.5])
        return ops

    def gen(self, rng, n, tier):
        cases = []
        for i in range(n):
            r = rng.random()
            if r < 0.22:
                nk, nv = rng.randint(1, 5), rng.randint(1, 4)
                ops = []
                for _ in range(rng.randint(5, 60)):
                    k = "k%d" % rng.randrange(nk if rng.random() < 0.9 else nk + 2)
                    if rng.random() < 0.6:
                        ops.append(["add", k, "v%d" % rng.randrange(nv)])
                    else:
                        ops.append(["del", k])
                cases.append({"kind": "container", "excl": rng.random() < 0.5, "ops": ops})
            elif r < 0.62:
                xs = [rng.random() < 0.45 for _ in range(rng.randint(1, 3))]
                ops = self._events(rng, rng.randint(5, 40), rng.randint(1, 6), rng.randint(1, 5), True)
                cases.append({"kind": "discov", "xs": xs, "ops": ops})
            elif r < 0.74:
                big = rng.random() < 0.5
                nk, nv = (rng.randint(30, 45), rng.randint(30, 45)) if big else (rng.randint(1, 6), rng.randint(1, 5))
                pre = self._events(rng, rng.randint(0, 40 if big else 8), nk, nv, False)
                ops = self._events(rng, rng.randint(4, 25), nk, nv, False)
                if big and rng.random() < 0.7:
                    m = rng.choice([31, 32, 33, 40])
                    ops.insert(rng.randrange(len(ops) + 1), ["reload", [["k%d" % j, "v%d" % j] for j in range(m)]])
                cases.append({"kind": "resolver", "pre": pre, "ops": ops})
            elif r < 0.82:
                m = rng.choice([0, 1, 2, 5, 31, 32, 33, 34, 50, 70])
                st = ["v%d" % (j if rng.random() < 0.9 else rng.randrange(max(1, m))) for j in range(m)]
                rng.shuffle(st)
                cases.append({"kind": "subset", "set": st, "sub": rng.choice([0, 1, 3, 31, 32, 32, 32, 33, 64])})
            else:
                cases.append({"kind": "kube", "ops": self._kube(rng)})
        return cases

    def _kobj(self, rng, rv, nip):
        subs = []
        for _ in range(rng.choice([0, 1, 1, 1, 2, 3])):
            subs.append([str(rng.randrange(nip)) for _ in range(rng.randint(0, 4))])
        return {"rv": str(rv), "subsets": subs}

    def _kube(self, rng):
        nip = rng.randint(2, 8)
        cur = None
        rv = 1
        ops = []
        wild = rng.random() < 0.12     # also histories outside the informer discipline (compared with the model only)
        for _ in range(rng.randint(4, 30)):
            r = rng.random()
            if wild and rng.random() < 0.3:
                rv += 1
                o = self._kobj(rng, rv, nip)
                ops.append({"op": rng.choice(["add", "delete"]), "obj": o})
                continue
            if cur is None:
                rv += 1
                cur = self._kobj(rng, rv, nip)
                ops.append({"op": "add" if r < 0.75 else "update", "obj": cur})
            elif r < 0.5:
                rv += 1
                new = self._kobj(rng, rv, nip)
                if rng.random() < 0.2:
                    new = {"rv": str(rv), "subsets": [list(reversed(s)) for s in reversed(cur["subsets"])]}
                ops.append({"op": "onupdate", "old": cur, "obj": new})
                cur = new
            elif r < 0.6:
                ops.append({"op": "onupdate", "old": cur, "obj": cur})      # resync: same resource version
            elif r < 0.75:
                rv += 1
                cur = self._kobj(rng, rv, nip)
                ops.append({"op": "update", "obj": cur})
            elif r < 0.85:
                ops.append({"op": "add", "obj": cur})                        # re-list after the explicit Update
            else:
                ops.append({"op": "delete", "obj": cur})
                cur = None
        return ops

    # ------------------------------------------------------------------ execution
    def execute(self, cases, ctx):
        groups = {}
        for i, c in enumerate(cases):
            groups.setdefault(PKG[c["kind"]], []).append((i, c))
        res = [None] * len(cases)

        def work(pkg):
            idx = [i for i, _ in groups[pkg]]
            sub = []
            for j, (_, c) in enumerate(groups[pkg]):
                d = dict(c)
                d["id"] = j
                e = dict(c)
                e.pop("id", None)
                d["seed"] = int(vlib.canon_hash(e), 16) % (1 << 31)   # rand.Shuffle depends on the case only
                sub.append(d)
            rc, out, rs = vlib.go_test_overlay(pkg, FILES, "TestVerifC13$", sub,
                                               tag="c13" + pkg.replace("/", "_").replace(".", ""), timeout=900)
            if rc != 0 or len(rs) != len(sub):
                raise ExecError("c13 executor %s rc=%s (%d/%d results): %s" % (pkg, rc, len(rs), len(sub), out[-2500:]))
            for i, r in zip(idx, rs):
                r.pop("id", None)
                res[i] = r
            return True

        with concurrent.futures.ThreadPoolExecutor(max_workers=3) as ex:
            list(ex.map(work, sorted(groups)))
        return res

    # ------------------------------------------------------------------ rendering
    def _ev(self, op, rec):
        if op[0] == "put":
            return "EPut %s %s" % (cz(num(op[1])), cz(num(op[2])))
        if op[0] == "del":
            return "EDelete %s" % cz(num(op[1]))
        adds = [(num(r[1]), num(r[2])) for r in rec if r[0] == "add"]
        if op[0] == "reload":
            snap = [(num(a), num(b)) for a, b in op[1]]
            # the calls exactly as the listeners received them (any interleaving is allowed)
            calls = ["LAdd %s %s" % (cz(num(r[1])), cz(num(r[2]))) if r[0] == "add" else "LDel %s" % cz(num(r[1]))
                     for r in rec]
            return "EReload %s %s" % (pairs(snap), clist(calls))
        if op[0] == "join":
            return "EJoin %s %s" % (cbool(op[1]), pairs(adds))
        raise ValueError(op)

    def _cobs(self, o):
        return "(%s, %s)" % (zl(nsorted(o["vals"])), zll([nsorted(v) for v in o["notes"]]))

    def coq_case(self, case, obs):
        k = case["kind"]
        if obs.get("panic"):
            return "CSubset [] 0 [1] [1]"    # the implementation panicked: neither agrees nor prop_ok
        if k == "container":
            levs = ["LAdd %s %s" % (cz(num(o[1])), cz(num(o[2]))) if o[0] == "add" else "LDel %s" % cz(num(o[1]))
                    for o in case["ops"]]
            return "CContainer %s %s %s" % (cbool(case["excl"]), clist(levs), clist([self._cobs(s) for s in obs["steps"]]))
        if k == "discov":
            evs = [self._ev(o, s["rec"]) for o, s in zip(case["ops"], obs["steps"])]
            ob = ["(%s, %s)" % (pairs(sorted((num(a), num(b)) for a, b in s["rvals"])),
                                clist([self._cobs(c) for c in s["conts"]])) for s in obs["steps"]]
            return "CDiscov %s %s %s" % (clist([cbool(x) for x in case["xs"]]), clist(evs), clist(ob))
        if k == "resolver":
            pre = [self._ev(o, s["rec"]) for o, s in zip(case["pre"], obs["pre"] or [])]
            evs = [self._ev(o, s["rec"]) for o, s in zip(case["ops"], obs["steps"] or [])]
            rob = lambda s: "(%s, %s)" % (zll([[num(x) for x in p] for p in s["pubs"]]), zl(nsorted(s["vals"])))
            return "CResolver %s %s %s %s %s" % (cz(obs["subsetSize"]), clist(pre), clist(evs), rob(obs["build"]),
                                                 clist([rob(s) for s in obs["steps"] or []]))
        if k == "subset":
            st = [num(x) for x in case["set"]]
            out = [num(x) for x in obs["out"]]
            rest = list(st)
            okc = True
            for x in out:
                if x in rest:
                    rest.remove(x)
                else:
                    okc = False
            sh = out + sorted(rest) if okc else out + st
            return "CSubset %s %s %s %s" % (zl(st), cz(case["sub"]), zl(sh), zl(out))
        if k == "kube":
            def ko(o):
                return "(mkObj %s %s)" % (cz(int(o["rv"])), zll([[num(x) for x in s] for s in o["subsets"]]))
            evs = []
            for o in case["ops"]:
                if o["op"] == "add":
                    evs.append("KAdd %s" % ko(o["obj"]))
                elif o["op"] == "delete":
                    evs.append("KDelete %s" % ko(o["obj"]))
                elif o["op"] == "onupdate":
                    evs.append("KOnUpdate %s %s" % (ko(o["old"]), ko(o["obj"])))
                else:
                    evs.append("KUpdate %s" % ko(o["obj"]))
            ob = ["(%s, %s)" % (zll([nsorted(p) for p in s["pubs"]]), zl(nsorted(s["eps"]))) for s in obs["steps"]]
            return "CKube %s %s" % (clist(evs), clist(ob))
        raise ValueError(k)

    # ------------------------------------------------------------------ evidence
    def _value_change(self, ops):
        seen = {}
        ch = False
        for o in ops:
            if o[0] in ("put", "add"):
                if o[1] in seen and seen[o[1]] != o[2]:
                    ch = True
                seen[o[1]] = o[2]
            elif o[0] == "del":
                seen.pop(o[1], None)
            elif o[0] == "reload":
                new = dict((a, b) for a, b in o[1])
                if any(a in seen and seen[a] != b for a, b in new.items()):
                    ch = True
                seen = new
        return ch

    def nontrivial(self, case, obs):
        k = case["kind"]
        if obs.get("panic"):
            return False
        if k == "container":
            return self._value_change(case["ops"])
        if k in ("discov", "resolver"):
            ops = (case.get("pre") or []) + case["ops"]
            return self._value_change(ops) and any(o[0] == "reload" for o in ops)
        if k == "subset":
            return len(case["set"]) > case["sub"] > 0
        if k == "kube":
            return any(o["op"] == "onupdate" and o["old"]["rv"] != o["obj"]["rv"] and
                       set(sum(o["old"]["subsets"], [])) != set(sum(o["obj"]["subsets"], [])) for o in case["ops"])
        return False

    def features(self, case, obs):
        k = case["kind"]
        fs = ["kind=" + k]
        if obs.get("panic"):
            return fs + ["panic"]
        if k in ("container", "discov", "resolver", "kube"):
            fs.append("%s_ops<=%d" % (k, 10 * (1 + len(case["ops"]) // 10)))
        if k == "container":
            fs.append("container_excl=%s" % case["excl"])
        if k in ("discov", "resolver"):
            ops = (case.get("pre") or []) + case["ops"]
            fs += ["has_" + x for x in sorted(set(o[0] for o in ops))]
            if self._value_change(ops):
                fs.append("key_changes_value")
            if any(o[0] == "reload" and len(set(a for a, _ in o[1])) < len(o[1]) for o in ops):
                fs.append("reload_dup_key")
        if k == "discov":
            fs.append("listeners_excl=%d_nonexcl=%d" % (sum(case["xs"]), len(case["xs"]) - sum(case["xs"])))
        if k == "resolver":
            fs.append("max_view>32" if any(len(s["vals"]) > 32 for s in obs["steps"] or []) else "max_view<=32")
        if k == "subset":
            fs.append("subset_len%ssub" % (">" if len(case["set"]) > case["sub"] else "<="))
        return fs

    def shrink_candidates(self, case):
        res = Property.shrink_candidates(self, case)
        if case.get("pre"):
            for c in Property.shrink_candidates(self, {"ops": case["pre"]}):
                d = dict(case)
                d["pre"] = c["ops"]
                res.append(d)
            d = dict(case)
            d["pre"] = []
            res.append(d)
        if case["kind"] == "discov" and len(case["xs"]) > 1:
            for i in range(len(case["xs"])):
                d = dict(case)
                d["xs"] = case["xs"][:i] + case["xs"][i + 1:]
                res.append(d)
        if case["kind"] == "subset" and len(case["set"]) > 1:
            for i in range(len(case["set"])):
                d = dict(case)
                d["set"] = case["set"][:i] + case["set"][i + 1:]
                res.append(d)
        return res[:300]

    def describe_failure(self, case, obs):
        if obs.get("panic"):
            return "the implementation panicked: %s" % obs["panic"][:300]
        return {
            "container": "Values() of a container differs from the set of values of the keys registered by the OnAdd/OnDelete calls, or a call did not notify the listeners with the new view",
            "discov": "after a watch event / reload / join, a subscriber's Values() differs from the values of the registered keys, a stale value is shown, or a view change was not notified",
            "resolver": "the addresses given to cc.UpdateState are not the registered values (all of them when <= 32, else 32 of them)",
            "subset": "subset() did not return a permutation (len <= sub) / a sub-element sub-multiset of its input",
            "kube": "the kube EventHandler published something other than the current endpoint IPs, or did not publish a change",
        }[case["kind"]]


PROPERTY = C13()
