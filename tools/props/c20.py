"""C20 — goctl .api formatter preserves meaning and is idempotent."""
import json
import os
import random
import re

import vlib
import c20consts
import c20gaps
import c20gen
import c20lib
from runner import Property, ExecError

KIND = {"IDENT": "KIdent", "INT": "KInt", "DURATION": "KDur", "STRING": "KStr", "RAW_STRING": "KRaw",
        "-": "KSub", "*": "KMul", "/": "KQuo", "=": "KAssign", "(": "KLParen", "[": "KLBrack", "{": "KLBrace",
        ",": "KComma", ".": "KDot", ")": "KRParen", "}": "KRBrace", "]": "KRBrack", ";": "KSemi", ":": "KColon",
        "...": "KEllipsis", "AT_DOC": "KAtDoc", "AT_HANDLER": "KAtHandler", "AT_SERVER": "KAtServer",
        "ANY": "KAny", "ILLEGAL": "KIllegal"}

F10 = "F10-format-not-idempotent-comment-after-route-path"
F15 = "C20-empty-doc-leaves-blank-line"
F16 = "C20-comment-in-empty-service-body"
F17 = "C20-multiline-comment-loses-indent-per-pass"
F18 = "C20-percent-in-text-mangled"
F19 = "C20-parser-panics-on-route-without-path"
F20 = "C20-format-panics-on-doc-without-handler"
F21 = "C20-deleted-statement-after-import-changes-blank-lines"
F22 = "C20-comment-with-line-break-inside-one-line-construct"
F23 = "C20-comment-dropped"
F24 = "C20-whitespace-inside-string-literal-rewritten"
F25 = "C20-blanks-inside-comment-rewritten-per-pass"
F26 = "C20-formfeed-inside-literal-or-comment"

SCAN_MAX = 1200

class Unrenderable(Exception):
    pass


_CTRL = re.compile(r"([\x00-\x08\x0b\x0c\x0e-\x1f\x7f])")


def q(s):
    """a Gallina string; control characters (NUL, form feed, vertical tab, DEL ...) are written as
    String "ddd"%char so that the model scanner sees every character the Go scanner saw"""
    parts = _CTRL.split(s)
    acc = '"' + parts[-1].replace('"', '""') + '"'
    for k in range(len(parts) - 2, 0, -2):
        acc = '(String "%03d"%%char %s)' % (ord(parts[k]), acc)
        if parts[k - 1]:
            acc = '(String.append "%s" %s)' % (parts[k - 1].replace('"', '""'), acc)
    return acc


def b(x):
    return "true" if x else "false"


def lst(xs):
    return "[" + "; ".join(xs) + "]"


def opt(x):
    return "None" if x is None else "(Some %s)" % x


def r_tok(t):
    k = KIND.get(t[0])
    if k is None:
        raise Unrenderable("token kind %r" % t[0])
    return "T %s %s %s" % (k, q(t[1]), b(t[2]))


def r_toks(ts):
    return lst([r_tok(t) for t in ts])


def clean(s):
    """comment texts: control characters other than line break / tab / CR cannot be written in a
    Gallina string literal here; they are dropped on both sides of the comparison"""
    return "".join(ch for ch in s if ord(ch) >= 32 or ch in "\n\t\r")


def r_cmts(cs):
    return lst(["(%d%%nat, %s)" % (c[0] + 1, q(clean(c[2]))) for c in cs])


def r_lit(v):
    return "(Lit %s %s)" % (b(v.startswith("`")), q(v))


def r_kvs(kvs):
    return lst(["(%s, %s)" % (q(k), r_lit(v)) for k, v in kvs])


def r_dt(d):
    k = d[0]
    if k == "base":
        return "(DBase %s)" % q(d[1])
    if k == "any":
        return "DAny"
    if k == "iface":
        return "DIface"
    if k == "struct":
        return "(DStruct %s)" % lst(["(%s, %s, %s)" % (lst([q(n) for n in e[0]]), r_dt(e[1]),
                                                      opt(None if e[2] is None else q(e[2]))) for e in d[1]])
    if k == "array":
        return "(DArray %s %s)" % ("ALDots" if d[1] == "..." else "(ALInt %s)" % q(d[1]), r_dt(d[2]))
    if k == "slice":
        return "(DSlice %s)" % r_dt(d[1])
    if k == "map":
        return "(DMap %s %s)" % (r_dt(d[1]), r_dt(d[2]))
    if k == "ptr":
        return "(DPtr %s)" % r_dt(d[1])
    raise Unrenderable("data type %r" % k)


def r_texpr(e):
    return "(%s, %s, %s)" % (q(e[0]), b(e[1]), r_dt(e[2]))


IDRE = r"[A-Za-z_][A-Za-z_0-9]*"
SEGTOK = re.compile(r":|%s|[0-9]+|-" % IDRE)


def r_path(text):
    if not text.startswith("/"):
        raise Unrenderable("path %r" % text)
    parts = text.split("/")[1:]
    trail = False
    segs = []
    for i, seg in enumerate(parts):
        if seg == "":
            if i != len(parts) - 1:
                raise Unrenderable("path %r" % text)
            trail = True
            continue
        toks = SEGTOK.findall(seg)
        if "".join(toks) != seg or not toks:
            raise Unrenderable("path %r" % text)
        colon = toks[0] == ":"
        if colon:
            toks = toks[1:]
        if not toks or toks[0] in (":", "-"):
            raise Unrenderable("path %r" % text)
        head = "(PInt %s)" % q(toks[0]) if toks[0][0].isdigit() else "(PId %s)" % q(toks[0])
        tail = []
        j = 1
        while j < len(toks):
            if toks[j] == "-":
                if j + 1 >= len(toks) or not re.fullmatch(IDRE, toks[j + 1]):
                    raise Unrenderable("path %r" % text)
                tail.append("(SepSub, %s)" % q(toks[j + 1]))
                j += 2
            elif re.fullmatch(IDRE, toks[j]):
                tail.append("(SepNone, %s)" % q(toks[j]))
                j += 1
            else:
                raise Unrenderable("path %r" % text)
        segs.append("(PSeg %s %s %s)" % (b(colon), head, lst(tail)))
    return "(Path %s %s)" % (lst(segs), b(trail))


def r_body(x):
    if x is None:
        return "None"
    if x[1] is None:
        return "(Some None)"
    a, s, v = x[1]
    return "(Some (Some (Body %s %s %s)))" % (b(a), b(s), q(v))


def r_sval(text, kind):
    if kind == "DURATION":
        return "(SVDur %s)" % q(text)
    if kind == "INT":
        return "(SVInt %s)" % q(text)
    if kind == "STRING":
        return "(SVStr %s)" % q(text)
    if kind != "PATH":
        raise Unrenderable("@server value kind %r" % kind)

    def segs(parts):
        res = []
        for p in parts:
            xs = p.split("-")
            if len(xs) > 2 or not all(re.fullmatch(IDRE, x) for x in xs):
                raise Unrenderable("@server value %r" % text)
            res.append("(%s, %s)" % (q(xs[0]), opt(q(xs[1]) if len(xs) == 2 else None)))
        return lst(res)

    if text.startswith("/"):
        return "(SVPath None %s)" % segs(text.split("/")[1:])
    if "," in text:
        xs = text.split(",")
        if not all(re.fullmatch(IDRE, x) for x in xs):
            raise Unrenderable("@server value %r" % text)
        return "(SVList %s %s)" % (q(xs[0]), lst([q(x) for x in xs[1:]]))
    if "/" in text:
        xs = text.split("/")
        if not re.fullmatch(IDRE, xs[0]):
            raise Unrenderable("@server value %r" % text)
        return "(SVPath (Some %s) %s)" % (q(xs[0]), segs(xs[1:]))
    if "-" in text:
        xs = text.split("-")
        if not all(re.fullmatch(IDRE, x) for x in xs):
            raise Unrenderable("@server value %r" % text)
        return "(SVSubs %s %s)" % (q(xs[0]), lst([q(x) for x in xs[1:]]))
    if not re.fullmatch(IDRE, text):
        raise Unrenderable("@server value %r" % text)
    return "(SVPath (Some %s) [])" % q(text)


def r_stmt(s):
    k = s[0]
    if k == "syntax":
        return "SSyntax %s" % q(s[1])
    if k == "info":
        return "SInfo %s" % r_kvs(s[1])
    if k == "import":
        return "SImport %s" % q(s[1])
    if k == "imports":
        return "SImports %s" % lst([q(v) for v in s[1]])
    if k == "type":
        return "SType %s" % r_texpr(s[1])
    if k == "types":
        return "STypes %s" % lst([r_texpr(e) for e in s[1]])
    if k == "service":
        at = None if s[1] is None else lst(["(%s, %s)" % (q(x[0]), r_sval(x[1], x[2])) for x in s[1]])
        name = s[2]
        api = False
        if "-" in name:
            name, sfx = name.split("-", 1)
            if sfx != "api":
                raise Unrenderable("service name %r" % s[2])
            api = True
        items = []
        for d, h, r in s[3]:
            if h is None or r is None:
                raise Unrenderable("service item without @handler/route")
            if d is None:
                doc = "None"
            elif d[0] == "lit":
                doc = "(Some (DocLit %s))" % q(d[1])
            else:
                doc = "(Some (DocGroup %s))" % r_kvs(d[1])
            items.append("(Item %s %s (Route %s %s %s %s))" % (doc, q(h), q(r[0]), r_path(r[1]), r_body(r[2]), r_body(r[3])))
        return "SService %s %s %s %s" % (opt(at), q(name), b(api), lst(items))
    raise Unrenderable("statement %r" % k)


def r_api(a):
    if a is None:
        return "None"
    return "(Some %s)" % lst([r_stmt(s) for s in a])


def outc(s):
    return {"ok": "OOk", "err": "OErr", "skipped-empty": "OOk"}.get(s, "OCrash")


# ---- shapes -----------------------------------------------------------------------------

def edit_comments(src, cmts, edits):
    """replace the comments cmts[i] by edits[i] (i in edits) in src.  The scanner's line numbers
    cannot be used (it does not count the line breaks inside block comments and raw strings), so
    the comments are located in order of appearance."""
    cur = 0
    spans = []
    for i, c in enumerate(cmts):
        off = src.find(c[2], cur)
        if off < 0:
            return None
        if i in edits:
            spans.append((off, off + len(c[2]), edits[i]))
        cur = off + len(c[2])
    for a, e, t in sorted(spans, reverse=True):
        src = src[:a] + t + src[e:]
    return src


def delete_comments(src, cmts, idxs):
    return edit_comments(src, cmts, {i: " " for i in idxs})


def failure_modes(o):
    """how does a valid program fail the property, as far as the executor's observation shows?
    (Python twin used only to decide whether a failure is a registered known one)"""
    ms = set()
    if o["fout"] != "ok":
        return {"ferr"}
    if o["fast"] is None:
        ms.add("noparse")
    elif c20_norm(o["ast"]) != o["fast"]:
        ms.add("meaning")
    elif [(t[0], t[1]) for t in o["ftoks"]] != kept_tokens(o):
        ms.add("meaning")
    if not o["idem"]:
        ms.add("idem")
    return ms


def kept_tokens(o):
    """(kind, text) of the source tokens that survive formatting when nothing but ';' is deleted;
    the formatted tokens themselves when the formatter deletes an empty construct (then the
    comparison is left to Coq)"""
    if c20_norm(o["ast"]) != o["ast"]:
        return [(t[0], t[1]) for t in o["ftoks"]]
    return [(t[0], t[1]) for t in o["toks"] if t[0] != ";"]


def nws(s):
    """Python twin of Check.nws: white space inside a comment is layout"""
    lines = clean(s).split("\n")
    return "\n".join(" ".join(x for x in re.split(r"[ \t\r]+", ln) if x) for ln in lines)


def lost_comments(o):
    """indexes of the source comments missing from the formatted text (greedy, in order)"""
    out = [nws(c[2]) for c in o["fcmts"]]
    j = 0
    lost = []
    for i, c in enumerate(o["cmts"]):
        if j < len(out) and out[j] == nws(c[2]):
            j += 1
        else:
            lost.append(i)
    return lost


def mutant_shape(m):
    """shapes of invalid sources known to crash the pinned parser/formatter (F19, F20)"""
    toks = [x for x in c20gen.TOKEN_RE.findall(m) if not x.startswith("//") and not x.startswith("/*")]
    shapes = set()
    for i, t in enumerate(toks):
        nxt = toks[i + 1] if i + 1 < len(toks) else None
        if t in c20gen.HTTP and i >= 2 and toks[i - 2] == "@handler" and nxt in ("(", "returns", "@doc", "@handler", ";", "}"):
            shapes.add(F19)
        if t == "}" and i >= 1 and toks[i - 1] == "@handler":
            shapes.add(F20)      # '@handler }' : accepted as an item without handler/route
        if t == "}" and i >= 1:
            # '@doc "x" }'  or  '@doc ( ... ) }'
            if i >= 2 and toks[i - 2] == "@doc" and toks[i - 1].startswith('"'):
                shapes.add(F20)
            if toks[i - 1] == ")":
                j = i - 2
                while j >= 0 and toks[j] != "(":
                    j -= 1
                if j >= 1 and toks[j - 1] == "@doc":
                    shapes.add(F20)
    return shapes


class C20(Property):
    id = "C20"
    title = "goctl API formatter preserves meaning and is idempotent"
    quick_cases = 200
    thorough_cases = 5000
    level = "proof"
    design_ref = "DESIGN.md §6/C20"
    technique = ("Rocq proof of the .api language model (scanner: scan∘render = id; grammar: parse∘print = id, hence "
                 "idempotence and meaning preservation of print∘norm∘parse) + translation validation of the Go "
                 "scanner/parser/formatter against it on generated programs, character by character and token by token")
    level_text = ("Unbounded Rocq theorems about a Gallina model of the .api language: a scanner following scanner.go "
                  "(characters -> tokens, with its line counter and its quirks) that inverts the rendering of every stream of "
                  "lexically well-formed tokens; tokens, AST, a recursive-descent parser following parser.go, the canonical "
                  "printer with the formatter's line structure, the formatter's normalisation of empty constructs: "
                  "parse (print a) = Some a for every well-formed AST, hence the model formatter is idempotent and preserves "
                  "meaning, also from characters (text_roundtrip). The 7000 lines of Go are NOT proved: they are validated "
                  "against the model per generated program (model scanner = Go scanner on the source and on the formatted text; "
                  "Go scanner tokens -> model parser = Go parser's AST; tokens AND line structure of format.Source(p) = print "
                  "(norm AST); comments kept in order; byte idempotence; format.File = format.Source; no panic/hang on mutated "
                  "invalid sources; for comment-free programs with struct declarations the formatted TEXT = the text model of "
                  "the Format methods and the tabwriter, character for character). The lexical tables are dumped by the "
                  "compiled token/scanner packages on every run and GenProofs.v proves that the model scanner answers 4442 "
                  "enumerated probes as scanner.go does. checked_case_satisfies_property ties the boolean check to the model "
                  "statement; the model scanner is proved total without help from its fuel.")
    level_note = ("partial: proof of the language model + translation validation of the Go code. Comments are outside the "
                  "grammar model (judged as an ordered list of texts with positions). Known findings are suppressed only for "
                  "comments whose grammar position and form is a key of the committed table tools/props/c20_known_gaps.json "
                  "with the failure mode observed; no probe of the tree under test decides what is generated or suppressed.")
    rule = ("fixed in every run: corpus files, 430 EMPTY forms of every grouping construct in every position, white space "
            "as/inside every string literal position (90), every deletable statement x every neighbourhood (240); drawn from "
            "the seed: a third of the lexeme matrix, 1/48 of the 20895 per-position single-character mutations of 7 small "
            "programs (each a case of its own), sets of files importing one another, and "
            "programs: 1..9 statements of every kind (syntax/info/import single+group/type single+group with nested structs, "
            "arrays, slices, maps (also as map keys), pointers, any, interface{}, embedded fields, tags/@server with every value "
            "shape and every duration unit/service blocks (often several with one name) with @doc/@handler/routes with and "
            "without request/response/empty bodies), comments (line/block/doc, own line, end of line, inline, inside route "
            "paths, @server values and name-api), odd spacing, DOS line ends, form feeds, very long lines, unicode, files "
            "holding only comments; 4 mutants each (token edits, truncation, garbage, BOM/NUL, comment inside a path); "
            "non-trivial = the Go parser accepted it, it has >= 12 tokens and the formatter changed its text; distinct = hash "
            "of the source")
    trusted_base = [
        "models theories/C20/{Scanner,Model,Text}.v are hand-written from scanner.go/parser.go/ast/*.go (Text.v also models "
        "text/tabwriter and covers comment-free programs with struct declarations only); tie = per-program translation "
        "validation (harness/goctlh/cmd/c20): model scanner vs Go scanner on every source and formatted text; Go scanner "
        "tokens -> model parse = Go parser AST dump; Go formatter tokens and line bits = model print",
        "the executor's canonical AST dump (dumpStmt/dumpDT) and tools/props/c20.py's rendering of it as Gallina terms",
        "comments are not part of the grammar model: compared as texts (white space normalised) with their token positions; "
        "columns/alignment are not modelled",
        "tools/props/c20_known_gaps.json (committed table of the comment positions the pinned formatter mishandles) and "
        "tools/c20gaps.py (gap keys) decide which failures are reported as KNOWN-FINDING",
        "stand-in modules harness/stubs/{color,structtag} replace two third-party imports the formatter never calls",
    ]
    assumptions = ["a source is 'syntactically valid' iff goctl's own parser accepts it",
                   "empty input is excluded (parser.New calls log.Fatalln on it)"]

    def __init__(self):
        self.bin = None
        self._valid = {}
        self._kcache = {}       # source of a failing program -> known-finding id or None
        self._last = []         # (case, obs) of the last executor run
        self._monitor = {}      # source -> obs of the valid programs of the main run (comment monitor)

    # ---- build ------------------------------------------------------------------
    def regen(self, ctx):
        return c20consts.regen()

    def prepare(self, ctx):
        # thorough tier: the executor is built with the race detector (its concurrent pass formats
        # every program by 8 goroutines at once); a reported race ends the executor with an error
        ok, res = c20lib.build(race=(getattr(ctx, "tier", "") == "thorough"))
        if not ok:
            return False, res
        self.bin = res
        return True, ""

    def _on(self, fid):
        """generate the shape of finding fid?  Decided by the committed KNOWN_FINDINGS.jsonl only
        (never by probing the tree under test: a changed tree must not be able to switch a shape
        off): yes when the finding is registered as known (then it is reported as KNOWN-FINDING,
        narrowly, see known()) or as fixed (then re-introducing the defect is a VIOLATION), or
        when forced with C20_FORCE=id,id (self-test)."""
        for e in vlib.load_known():
            if e.get("property") == self.id and e.get("kind") in ("known", "fixed") and e.get("id") == fid:
                return True
        return fid in os.environ.get("C20_FORCE", "").split(",")

    # ---- cases ------------------------------------------------------------------
    def corpus(self):
        res = []
        d = os.path.join(vlib.ROOT, "corpus", "C20")
        if os.path.isdir(d):
            for f in sorted(os.listdir(d)):
                if f.endswith(".json"):
                    c = json.load(open(os.path.join(d, f)))
                    need = c.get("needs")
                    if need and not all(self._on(x) for x in need):
                        continue
                    res.append({"src": c["src"], "muts": c.get("muts", [])})
        # fixed classes, the same programs in every run and before anything random (a seeded change
        # must be caught by construction, not by the luck of VERIF_SEED): EMPTY forms of every
        # grouping construct in every position; white space as / inside every string literal
        seen = {c["src"] for c in res}
        fixed = c20gen.layout_core() + c20gen.empty_matrix() + c20gen.lexeme_core(ff=self._on(F26))
        # every statement kind the formatter deletes x what stands before it x what stands behind it
        # (240 small programs; seed C20-6)
        if all(self._on(f) for f in (F15, F21)):
            fixed += c20gen.deletion_matrix()
        for src in fixed:
            if src not in seen:
                seen.add(src)
                res.append({"src": src, "muts": []})
        return res

    def gen(self, rng, n, tier):
        cases = []
        # (the fixed classes -- corpus files, EMPTY forms, white space in literals, deleted statements
        # in every neighbourhood -- are in corpus(); what follows is drawn from VERIF_SEED)
        # sets of files importing one another (analyzer-level description before/after format.File)
        if tier != "search":
            for _ in range(25 if tier == "quick" else 400):
                cases.append(c20gen.multi_file_set(rng))
        # names and lexemes as inputs, enumerated (keyword-like identifiers in every identifier
        # position, every string/raw-string form in every literal position, route paths, @server
        # values, white-space and encoding variants of one program): all ~1150 tiny programs in the
        # thorough tier, a random third of them per quick run
        if tier != "search":
            core = set(c20gen.lexeme_core(ff=True))
            lm = [x for x in c20gen.lexeme_matrix() if x not in core]
            for src in (lm if tier == "thorough" else rng.sample(lm, len(lm) // 3)):
                cases.append({"src": src, "muts": []})
        # invalid sources, enumerated: per-position single-character mutations of a small corpus that
        # uses every construct (each one a case of its own: model scanner / model parser must agree
        # with goctl on where and whether it is rejected; rejected = an error, not a crash).  One slice
        # of them per quick run (which one depends on VERIF_SEED), an eighth in the thorough tier.
        if tier != "search":
            parts = 48 if tier == "quick" else 8
            for src in c20gen.char_mutations(rng.randrange(parts), parts):
                cases.append({"src": src, "muts": [], "enum": True})
        on = {f: self._on(f) for f in (F10, F15, F16, F17, F18, F19, F20, F21, F24, F25, F26)}
        for i in range(n):
            opts = {"percent": on[F18] and rng.random() < 0.3,
                    "f10": on[F10],
                    "strws": on[F24] and rng.random() < 0.3,
                    "cmt_tab": on[F25] and rng.random() < 0.3,
                    "ff": on[F26] and rng.random() < 0.2,
                    "emptydoc": on[F15],
                    "svc_comment": on[F16],
                    "multi_indent": on[F17],
                    "empty_after_import": on[F21],
                    "maxstmts": rng.choice([2, 2, 4, 4, 7, 9])}
            # "every legal position": line comments / comments followed by a line break also inside
            # constructs the formatter prints on one line (finding family F22)
            inl = 2 if (self._on(F22) and rng.random() < 0.35) else 1
            if inl == 2:
                src = c20gen.generate(rng, opts, odd=rng.choice([0.15, 0.3, 0.5]), pc=rng.choice([0.15, 0.3, 0.45]), inline=2)
            elif rng.random() < 0.2:
                # no comments at all: the formatted text is a function of the description there and is
                # compared character by character with the text model (Text.v), in any source layout
                opts["maxstmts"] = rng.choice([2, 4])
                src = c20gen.generate(rng, opts, odd=rng.choice([0.0, 0.15, 0.4]), pc=0.0, inline=0)
            else:
                src = c20gen.generate(rng, opts, inline=1)
            muts = []
            for m in c20gen.mutants(rng, src, 4 if tier != "search" else 2):
                sh = mutant_shape(m)
                if all(on[s] for s in sh):
                    muts.append(m)
            cases.append({"src": src, "muts": muts})
        return cases

    def execute(self, cases, ctx, remember=True):
        rc, out, res = c20lib.run(self.bin, cases)
        if rc != 0 or len(res) != len(cases):
            raise ExecError("c20 executor rc=%s: %s" % (rc, out[-2000:]))
        for r in res:
            if r.get("err"):
                raise ExecError("c20 executor: case %s: %s" % (r.get("id"), r["err"]))
            r.pop("id", None)
        if remember:
            self._last = list(zip(cases, res))
            if len(self._monitor) < 6000 and not any(c.get("expect_valid") for c in cases):
                for c, r in zip(cases, res):
                    self._monitor.setdefault(c["src"], r)
        return res

    def coq_preamble(self):
        return "From Coq Require Import Ascii.\nOpen Scope string_scope.\nOpen Scope list_scope.\n"

    def coq_case(self, case, obs):
        self._valid[case["src"]] = (obs["pout"] == "ok")
        if case.get("expect_valid") and obs["pout"] != "ok":
            # a shrink candidate of a valid failing program that is no longer valid: not a
            # smaller instance of the same failure (it would drift to the parser-crash findings)
            obs["skipped"] = "shrink candidate no longer valid"
            return "mkCase None None true [] [] [] (Some []) OOk OOk [] [] (Some []) true true true true false []"
        if (case.get("expect_valid") or case.get("enum")) and obs["pout"] == "ok" and obs["fout"] == "ok":
            # deleting lines / one character can glue two route lines into one path with adjacent
            # identifiers ("/a b", which goctl reads as "/ab"): outside the model's [wf], not a smaller
            # instance / not an instance of the enumerated class
            cls, _ = c20gaps.classify(obs["toks"])
            if any(a == "P:id" and b2 == "P:id" for a, b2 in zip(cls, cls[1:])):
                obs["skipped"] = "shrink candidate with adjacent identifiers in a path"
                return "mkCase None None true [] [] [] (Some []) OOk OOk [] [] (Some []) true true true true false []"
        try:
            ast = r_api(obs["ast"])
        except Unrenderable as e:
            obs["unrenderable"] = str(e)
            ast = "None"
        try:
            fast = r_api(obs["fast"])
        except Unrenderable as e:
            obs["unrenderable_f"] = str(e)
            fast = "None"
        try:
            toks = r_toks(obs["toks"])
            ftoks = r_toks(obs["ftoks"])
        except Unrenderable as e:
            obs["unrenderable_t"] = str(e)
            toks, ftoks = "[]", "[]"
        def src_term(text):
            try:
                return "(Some %s)" % q(text)
            except Unrenderable:
                return "None"
        # the character-level tie costs Coq front-end time (long string literals): every source up
        # to SCAN_MAX characters, every formatted text up to SCAN_MAX/2
        cm_ok = all(clean(c[2]) == c[2] for c in obs["cmts"] + obs["fcmts"]) and "unrenderable_t" not in obs
        return "mkCase %s %s %s %s %s %s %s %s %s %s %s %s %s %s %s %s %s %s" % (
            src_term(case["src"]) if cm_ok and len(case["src"]) <= SCAN_MAX else "None",
            src_term(obs["fmt1"]) if cm_ok and len(obs["fmt1"]) <= SCAN_MAX // 2 else "None",
            b(not obs.get("serr") and "unrenderable_t" not in obs), toks, r_cmts(obs["cmts"]),
            lst([b(c[0] >= 0 and c[3]) for c in obs["cmts"]]), ast, outc(obs["pout"]),
            outc(obs["fout"]), ftoks, r_cmts(obs["fcmts"]), fast, b(obs["idem"]), b(obs.get("file") == "same"),
            b(obs.get("conc", "same") == "same"), b(obs.get("multi", "same") == "same"), b(os.environ.get("C20_STRICT") == "1"), lst([outc(m) for m in obs["muts"]]))

    # ---- classification ---------------------------------------------------------
    def known(self, case, obs):
        """Id of the registered known finding that explains this failing case, or None.

        Nothing here looks at how the case was generated, and nothing is learnt from the tree under
        test: a comment can only be blamed when its grammar position and form (c20gaps.comment_keys,
        computed from the Go scanner's token stream) is a key of the COMMITTED table
        tools/props/c20_known_gaps.json with exactly the failure modes observed; the program with
        exactly the blamed comments removed/repaired must then satisfy the WHOLE check -- it is
        re-executed on the implementation and re-judged by Coq (agrees and prop_ok), so a second,
        unrelated failure in the same program (layout, tokens, File ...) is not absorbed.  A failure
        the Python side cannot classify is never suppressed."""
        key = case["src"]
        if key not in self._kcache:
            todo = [(case, obs)]
            seen = {key}
            for c, o in self._last:
                if c["src"] not in seen and c["src"] not in self._kcache and o.get("pout") == "ok" and failure_modes(o):
                    seen.add(c["src"])
                    todo.append((c, o))
            self._fill_kcache(todo)
        return self._kcache.get(key)

    def _fill_kcache(self, todo):
        kids = vlib.known_ids(self.id)
        plans = []          # (source of the failing program, combo, repaired source)
        for case, obs in todo:
            self._kcache[case["src"]] = None
            if any(o not in ("ok", "err", "skipped-empty") for o in obs["muts"]):
                continue
            if obs.get("file") != "same" or obs["pout"] != "ok" or obs.get("serr") or obs["fout"] != "ok":
                continue
            for combo, src2 in self._variants(case, obs, kids):
                plans.append((case["src"], obs["ast"], combo, src2))
        if not plans:
            return
        cases2 = [{"src": p[3], "muts": []} for p in plans]
        try:
            res = self.execute(cases2, None, remember=False)
            terms = [self.coq_case(c, o) for c, o in zip(cases2, res)]
            verdicts = vlib.coq_eval_cases(self.id, self.check_module, terms, preamble=self.coq_preamble())
        except Exception:
            return
        for (src, ast, combo, src2), o2, (ag, ok) in zip(plans, res, verdicts):
            if self._kcache.get(src) is not None:
                continue
            if ag and ok and o2["pout"] == "ok" and o2["ast"] == ast:
                if all(i in kids for i in combo):
                    self._kcache[src] = sorted(combo)[0]

    @staticmethod
    def _main_ok(obs):
        if obs["pout"] != "ok":
            return obs["pout"] == "err" and obs["fout"] == "err"
        return obs["fout"] == "ok" and obs["idem"] and c20_norm(obs["ast"]) == obs["fast"] \
            and obs.get("file", "same") == "same" and obs.get("conc", "same") == "same" \
            and obs.get("multi", "same") == "same"

    def _variants(self, case, obs, kids):
        """Candidate explanations of a failing valid program: (ids, repaired source).
          F22  comment carrying a line break in a gap (ctx|prev|next) for which the committed table
               records a failure of the pinned tree (only idempotence may fail), or with the exact
               key recorded with mode noparse/meaning (then that mode too)    -> comment removed
        (the former families F17 / F24 / F25 -- white space inside comments and string literals
        rewritten by the layout pass -- are repaired in go-zero (96e6290): their shapes stay in the
        generator and a regression is a VIOLATION)
        (lost comments, F23, are judged by the monitor in extra(): they never excuse anything here)"""
        cmts = obs["cmts"]
        ms = failure_modes(obs)
        if not ms or "ferr" in ms:
            return []
        keys = c20gaps.comment_keys(obs["toks"], cmts)
        fam = {}
        if F22 in kids:
            # the registered family, pinned by the committed table: a comment that carries a line
            # break in one of the gaps (ctx|prev|next) for which a failure is RECORDED for the pinned
            # tree.  Idempotence-only failures are excused for every form of comment in such a gap
            # (their exact form depends on the surrounding layout); "does not parse" / "meaning
            # changed" only for the exact key recorded with that mode.  A gap in which the pinned
            # tree handles comments correctly (e.g. between the '}' of an inline struct and the tag
            # of the member) excuses nothing.
            ix = [i for i, k in enumerate(keys)
                  if c20gaps.modes(k) & {"idem", "noparse", "meaning"} or
                  (c20gaps.carries_break(k) and c20gaps.one_line(k) and c20gaps.gap_modes(k))]
            if ix:
                fam[F22] = {i: " " for i in ix}
        if not fam:
            return []
        # the failure modes observed must be recorded for what is blamed
        allowed = set()
        for i in fam[F22]:
            allowed |= c20gaps.modes(keys[i]) & {"idem", "noparse", "meaning"}
            if c20gaps.gap_modes(keys[i]):
                allowed.add("idem")
        if not ms <= allowed:
            return []
        src2 = edit_comments(case["src"], cmts, fam[F22])
        if src2 is None or src2 == case["src"]:
            return []
        return [([F22], src2)]

    # ---- direct monitor: comments must not disappear -------------------------------
    def extra(self, ctx):
        """`only whitespace and comment placement may differ`: every comment of the source should
        be in the formatted text.  Which losses are the registered finding C20-comment-dropped is
        decided by prop_ok in Coq, from the model printer's line structure (tree independent): a
        comment standing where the canonical layout breaks the line must survive (else the case
        fails prop_ok and is a VIOLATION); comments between two tokens printed on one line, next to
        a deleted ';' or in a program with deleted empty constructs may be lost -- those losses are
        counted here and reported as KNOWN-FINDING once the finding is registered."""
        if not self._on(F23):
            return []
        res = []
        for src, obs in self._monitor.items():
            if obs["pout"] != "ok" or obs["fout"] != "ok" or obs.get("serr"):
                continue
            if lost_comments(obs):
                res.append({"what": "comments dropped", "known": F23, "replay": {"src": src}})
        return res[:400]

    # ---- evidence ---------------------------------------------------------------
    def nontrivial(self, case, obs):
        return obs["pout"] == "ok" and len(obs["toks"]) >= 12 and obs["fmt1"] != case["src"]

    def features(self, case, obs):
        fs = []
        if obs["pout"] != "ok":
            # where an invalid source is rejected: by an error of the scanner, by an ILLEGAL token the
            # scanner hands to the parser, or by the grammar (every token legal)
            how = "scanner_error" if obs.get("serr") else \
                "illegal_token" if (obs["toks"] and obs["toks"][-1][0] == "ILLEGAL") else "grammar"
            return ["rejected_by_go_parser", "invalid_rejected_by_" + how] + \
                   ["mutant_rejected_by_" + k for k in obs.get("mutk", []) if k not in ("ok", "crash")]
        for s in obs["ast"] or []:
            fs.append("stmt_" + s[0])
            if s[0] == "service":
                if s[1] is not None:
                    fs.append("has_@server")
                for d, h, r in s[3]:
                    if d:
                        fs.append("has_@doc_" + d[0])
                    if r and r[2] is not None:
                        fs.append("route_req")
                    if r and r[3] is not None:
                        fs.append("route_resp")
        txt = json.dumps(obs["ast"])
        for k in ("struct", "array", "slice", "map", "ptr", "iface", "any"):
            if '["%s"' % k in txt:
                fs.append("type_" + k)
        if '[[], [' in txt:
            fs.append("embedded_field")
        fs.append("tokens<=%d" % (50 * (1 + len(obs["toks"]) // 50)))
        nc = len(obs["cmts"])
        fs.append("comments=%s" % (nc if nc < 3 else "3-9" if nc < 10 else "10+"))
        toks = obs["toks"]
        for c in obs["cmts"]:
            prev = toks[c[0]][0] if c[0] >= 0 else "BOF"
            nxt = toks[c[0] + 1][0] if c[0] + 1 < len(toks) else "EOF"
            nl_after = c[0] + 1 < len(toks) and toks[c[0] + 1][2] == 1
            fs.append("cmt_%s_%s" % ("eol" if c[3] else "own", "line" if c[1] == "COMMENT" else "block"))
            fs.append("cmt_after_%s" % prev)
            fs.append("cmt_before_%s" % nxt)
            if not nl_after and nxt != "EOF":
                fs.append("cmt_inline")
        lost = len(obs["cmts"]) - len(obs["fcmts"])
        if lost > 0:
            fs.append("comments_dropped_by_formatter")
        if c20_norm(obs["ast"]) != obs["ast"]:
            fs.append("empty_construct_removed")
        if in_l0(obs) and len(obs["fmt1"]) <= SCAN_MAX // 2 and len(case["src"]) <= SCAN_MAX:
            fs.append("formatted_text_compared_with_text_model")
        fs.append("mutants=%d" % len(obs["muts"]))
        fs += ["mutant_" + (m if m in ("ok", "err") else "crash") for m in obs["muts"]]
        fs += ["mutant_rejected_by_" + k for k in obs.get("mutk", []) if k not in ("ok", "crash")]
        return fs

    def shrink_candidates(self, case):
        src = case["src"]
        res = []
        lines = src.split("\n")
        n = len(lines)
        ch = max(1, n // 2)
        while True:
            for i in range(0, n, ch):
                res.append("\n".join(lines[:i] + lines[i + ch:]))
            if ch == 1:
                break
            ch //= 2
        for m in re.finditer(r"//[^\n]*|/\*(?:(?!\*/).)*\*/", src, re.S):      # delete a comment
            res.append(src[:m.start()] + src[m.end():])
        toks = [(m.start(), m.end()) for m in c20gen.TOKEN_RE.finditer(src)]
        for a, e in toks[:300]:                                            # delete a token
            res.append(src[:a] + src[e:])
        res.append(re.sub(r"[ \t]+", " ", src))
        res.append(re.sub(r"\n\s*\n", "\n", src))
        out = []
        seen = set()
        ev = bool(self._valid.get(src)) or bool(case.get("expect_valid"))
        muts = case.get("muts", [])
        if muts:
            out.append({"src": src, "muts": []})
            for m in muts:
                out.append({"src": "type T {}\n", "muts": [m]})
        for s in res:
            if s not in seen and s != src and s.strip():
                seen.add(s)
                out.append({"src": s, "muts": [], "expect_valid": True} if ev else {"src": s, "muts": []})
        return out[:160]

    def describe_failure(self, case, obs):
        if obs["pout"] not in ("ok", "err") or obs["fout"] not in ("ok", "err"):
            return "scanner/parser/formatter crashed (%s / %s)" % (obs["pout"], obs["fout"])
        bad = [o for o in obs["muts"] if o not in ("ok", "err", "skipped-empty")]
        if bad:
            return "format.Source crashed on an invalid source: %s" % bad[0]
        if obs.get("conc", "same") != "same":
            return "format.Source is not a function of its input when called concurrently: %s" % obs["conc"]
        if obs.get("file", "same") != "same":
            return "format.File: %s" % obs["file"]
        if obs.get("multi", "same") != "same":
            return "set of files importing one another: %s" % obs["multi"]
        if obs["pout"] == "ok" and obs["fout"] != "ok":
            return "format.Source rejected a source the parser accepts: %s" % obs.get("ferr")
        if obs["pout"] == "ok" and c20_norm(obs["ast"]) != obs["fast"]:
            return "the formatted text does not parse to the same API description"
        if not obs["idem"]:
            return "formatting the formatted text changes it again"
        return "tokens of the formatted text differ from print(norm(AST))"


def _has_struct(d):
    k = d[0]
    if k == "struct":
        return True
    if k == "array":
        return _has_struct(d[2])
    if k in ("slice", "ptr"):
        return _has_struct(d[1])
    if k == "map":
        return _has_struct(d[1]) or _has_struct(d[2])
    return False


def in_l0(o):
    """Python twin of Check.text_agrees' guard (Text.l0, no comments), for the evidence only"""
    if o["pout"] != "ok" or o["cmts"] or o["fout"] != "ok":
        return False
    toks = o["toks"]
    if any("\n" in t[1] or "\t" in t[1] for t in toks):
        return False
    for a, b2 in zip(toks, toks[1:]):
        if a[0] == "IDENT" and a[1] == "info" and b2[0] == "(" and b2[2]:
            return False
    for st in o["ast"]:
        es = [st[1]] if st[0] == "type" else st[1] if st[0] == "types" else []
        for e in es:
            d = e[2]
            if d[0] != "struct" or any(_has_struct(m[1]) for m in d[1]):
                return False
    return True


def c20_norm(a):
    """Python twin of Model.norm on the executor's AST dump (used for classification only;
    the verdict is computed in Coq)."""
    if a is None:
        return None
    Z = ('""', "``")

    def nb(x):
        return None if (x is None or x[1] is None) else x

    out = []
    for st in a:
        k = st[0]
        if k == "info" and all(v[1] in Z for v in st[1]):
            continue
        if k == "import" and st[1] in Z:
            continue
        if k == "imports" and all(v in Z for v in st[1]):
            continue
        if k == "types" and not st[1]:
            continue
        if k == "service":
            at = st[1]
            if at is not None and all((v[2] == "STRING" and v[1] in Z) for v in at):
                at = None
            items = []
            for d, h, r in st[3]:
                if d is not None:
                    if d[0] == "lit" and d[1] in Z:
                        d = None
                    elif d[0] == "group" and all(v[1] in Z for v in d[1]):
                        d = None
                if r is not None:
                    r = [r[0], r[1], nb(r[2]), nb(r[3])]
                items.append([d, h, r])
            st = [k, at, st[2], items]
        out.append(st)
    return out


PROPERTY = C20()
