"""C20 — goctl .api formatter preserves meaning and is idempotent."""
import json
import os
import random
import re

import vlib
import c20gen
import c20lib
from runner import Property, ExecError

KIND = {"IDENT": "KIdent", "INT": "KInt", "DURATION": "KDur", "STRING": "KStr", "RAW_STRING": "KRaw",
        "-": "KSub", "*": "KMul", "/": "KQuo", "=": "KAssign", "(": "KLParen", "[": "KLBrack", "{": "KLBrace",
        ",": "KComma", ".": "KDot", ")": "KRParen", "}": "KRBrace", "]": "KRBrack", ";": "KSemi", ":": "KColon",
        "...": "KEllipsis", "AT_DOC": "KAtDoc", "AT_HANDLER": "KAtHandler", "AT_SERVER": "KAtServer",
        "ANY": "KAny", "ILLEGAL": "KIllegal"}

F10 = "F10-format-not-idempotent-comment-after-route-path"
F15 = "C20-empty-doc-leaves-blank-line"
F16 = "C20-comment-in-empty-service-body"
F17 = "C20-multiline-comment-loses-indent-per-pass"
F18 = "C20-percent-in-text-mangled"
F19 = "C20-parser-panics-on-route-without-path"
F20 = "C20-format-panics-on-doc-without-handler"
F21 = "C20-deleted-statement-after-import-changes-blank-lines"
F22 = "C20-comment-with-line-break-inside-one-line-construct"

STOP_KINDS = {"(", "AT_DOC", "AT_HANDLER", ";", "}"}


class Unrenderable(Exception):
    pass


def q(s):
    if any(ord(ch) < 32 and ch not in "\n\t\r" for ch in s):
        raise Unrenderable("control character")
    return '"' + s.replace('"', '""') + '"'


def b(x):
    return "true" if x else "false"


def lst(xs):
    return "[" + "; ".join(xs) + "]"


def opt(x):
    return "None" if x is None else "(Some %s)" % x


def r_tok(t):
    k = KIND.get(t[0])
    if k is None:
        raise Unrenderable("token kind %r" % t[0])
    return "T %s %s %s" % (k, q(t[1]), b(t[2]))


def r_toks(ts):
    return lst([r_tok(t) for t in ts])


def r_lit(v):
    return "(Lit %s %s)" % (b(v.startswith("`")), q(v))


def r_kvs(kvs):
    return lst(["(%s, %s)" % (q(k), r_lit(v)) for k, v in kvs])


def r_dt(d):
    k = d[0]
    if k == "base":
        return "(DBase %s)" % q(d[1])
    if k == "any":
        return "DAny"
    if k == "iface":
        return "DIface"
    if k == "struct":
        return "(DStruct %s)" % lst(["(%s, %s, %s)" % (lst([q(n) for n in e[0]]), r_dt(e[1]),
                                                      opt(None if e[2] is None else q(e[2]))) for e in d[1]])
    if k == "array":
        return "(DArray %s %s)" % ("ALDots" if d[1] == "..." else "(ALInt %s)" % q(d[1]), r_dt(d[2]))
    if k == "slice":
        return "(DSlice %s)" % r_dt(d[1])
    if k == "map":
        return "(DMap %s %s)" % (r_dt(d[1]), r_dt(d[2]))
    if k == "ptr":
        return "(DPtr %s)" % r_dt(d[1])
    raise Unrenderable("data type %r" % k)


def r_texpr(e):
    return "(%s, %s, %s)" % (q(e[0]), b(e[1]), r_dt(e[2]))


IDRE = r"[A-Za-z_][A-Za-z_0-9]*"
SEGTOK = re.compile(r":|%s|[0-9]+|-" % IDRE)


def r_path(text):
    if not text.startswith("/"):
        raise Unrenderable("path %r" % text)
    parts = text.split("/")[1:]
    trail = False
    segs = []
    for i, seg in enumerate(parts):
        if seg == "":
            if i != len(parts) - 1:
                raise Unrenderable("path %r" % text)
            trail = True
            continue
        toks = SEGTOK.findall(seg)
        if "".join(toks) != seg or not toks:
            raise Unrenderable("path %r" % text)
        colon = toks[0] == ":"
        if colon:
            toks = toks[1:]
        if not toks or toks[0] in (":", "-"):
            raise Unrenderable("path %r" % text)
        head = "(PInt %s)" % q(toks[0]) if toks[0][0].isdigit() else "(PId %s)" % q(toks[0])
        tail = []
        j = 1
        while j < len(toks):
            if toks[j] == "-":
                if j + 1 >= len(toks) or not re.fullmatch(IDRE, toks[j + 1]):
                    raise Unrenderable("path %r" % text)
                tail.append("(SepSub, %s)" % q(toks[j + 1]))
                j += 2
            elif re.fullmatch(IDRE, toks[j]):
                tail.append("(SepNone, %s)" % q(toks[j]))
                j += 1
            else:
                raise Unrenderable("path %r" % text)
        segs.append("(PSeg %s %s %s)" % (b(colon), head, lst(tail)))
    return "(Path %s %s)" % (lst(segs), b(trail))


def r_body(x):
    if x is None:
        return "None"
    if x[1] is None:
        return "(Some None)"
    a, s, v = x[1]
    return "(Some (Some (Body %s %s %s)))" % (b(a), b(s), q(v))


def r_sval(text, kind):
    if kind == "DURATION":
        return "(SVDur %s)" % q(text)
    if kind == "INT":
        return "(SVInt %s)" % q(text)
    if kind == "STRING":
        return "(SVStr %s)" % q(text)
    if kind != "PATH":
        raise Unrenderable("@server value kind %r" % kind)

    def segs(parts):
        res = []
        for p in parts:
            xs = p.split("-")
            if len(xs) > 2 or not all(re.fullmatch(IDRE, x) for x in xs):
                raise Unrenderable("@server value %r" % text)
            res.append("(%s, %s)" % (q(xs[0]), opt(q(xs[1]) if len(xs) == 2 else None)))
        return lst(res)

    if text.startswith("/"):
        return "(SVPath None %s)" % segs(text.split("/")[1:])
    if "," in text:
        xs = text.split(",")
        if not all(re.fullmatch(IDRE, x) for x in xs):
            raise Unrenderable("@server value %r" % text)
        return "(SVList %s %s)" % (q(xs[0]), lst([q(x) for x in xs[1:]]))
    if "/" in text:
        xs = text.split("/")
        if not re.fullmatch(IDRE, xs[0]):
            raise Unrenderable("@server value %r" % text)
        return "(SVPath (Some %s) %s)" % (q(xs[0]), segs(xs[1:]))
    if "-" in text:
        xs = text.split("-")
        if not all(re.fullmatch(IDRE, x) for x in xs):
            raise Unrenderable("@server value %r" % text)
        return "(SVSubs %s %s)" % (q(xs[0]), lst([q(x) for x in xs[1:]]))
    if not re.fullmatch(IDRE, text):
        raise Unrenderable("@server value %r" % text)
    return "(SVPath (Some %s) [])" % q(text)


def r_stmt(s):
    k = s[0]
    if k == "syntax":
        return "SSyntax %s" % q(s[1])
    if k == "info":
        return "SInfo %s" % r_kvs(s[1])
    if k == "import":
        return "SImport %s" % q(s[1])
    if k == "imports":
        return "SImports %s" % lst([q(v) for v in s[1]])
    if k == "type":
        return "SType %s" % r_texpr(s[1])
    if k == "types":
        return "STypes %s" % lst([r_texpr(e) for e in s[1]])
    if k == "service":
        at = None if s[1] is None else lst(["(%s, %s)" % (q(x[0]), r_sval(x[1], x[2])) for x in s[1]])
        name = s[2]
        api = False
        if "-" in name:
            name, sfx = name.split("-", 1)
            if sfx != "api":
                raise Unrenderable("service name %r" % s[2])
            api = True
        items = []
        for d, h, r in s[3]:
            if h is None or r is None:
                raise Unrenderable("service item without @handler/route")
            if d is None:
                doc = "None"
            elif d[0] == "lit":
                doc = "(Some (DocLit %s))" % q(d[1])
            else:
                doc = "(Some (DocGroup %s))" % r_kvs(d[1])
            items.append("(Item %s %s (Route %s %s %s %s))" % (doc, q(h), q(r[0]), r_path(r[1]), r_body(r[2]), r_body(r[3])))
        return "SService %s %s %s %s" % (opt(at), q(name), b(api), lst(items))
    raise Unrenderable("statement %r" % k)


def r_api(a):
    if a is None:
        return "None"
    return "(Some %s)" % lst([r_stmt(s) for s in a])


def outc(s):
    return {"ok": "OOk", "err": "OErr", "skipped-empty": "OOk"}.get(s, "OCrash")


# ---- shapes -----------------------------------------------------------------------------

def route_comment_positions(toks, cmts):
    """F10 shape on the Go scanner's token stream: indexes (into cmts) of comments that directly
    follow the last token of a route path and precede '(' or 'returns'."""
    res = []
    path_last = set()
    i = 0
    n = len(toks)
    while i < n:
        if toks[i][0] == "AT_HANDLER" and i + 2 < n and toks[i + 1][0] == "IDENT" and toks[i + 2][0] == "IDENT" \
                and toks[i + 2][1] in c20gen.HTTP:
            j = i + 3
            while j < n and not (toks[j][0] in STOP_KINDS or (toks[j][0] == "IDENT" and toks[j][1] == "returns"
                                                              and toks[j - 1][0] != "-")):
                j += 1
            if j < n and j - 1 >= i + 3 and (toks[j][0] == "(" or toks[j][1] == "returns"):
                path_last.add(j - 1)
            i = j
        else:
            i += 1
    for ci, c in enumerate(cmts):
        if c[0] in path_last:
            res.append(ci)
    return res


def empty_service_comment_positions(toks, cmts):
    """shape of the (fixed) finding F16: comments between the braces of an empty service body"""
    res = []
    for ci, c in enumerate(cmts):
        i = c[0]
        if i < 2 or i + 1 >= len(toks) or toks[i][0] != "{" or toks[i + 1][0] != "}":
            continue
        j = i - 1
        if j >= 2 and toks[j][1] == "api" and toks[j - 1][0] == "-":
            j -= 2
        if j >= 1 and toks[j][0] == "IDENT" and toks[j - 1][0] == "IDENT" and toks[j - 1][1] == "service":
            res.append(ci)
    return res


def edit_comments(src, cmts, edits):
    """replace the comments cmts[i] by edits[i] (i in edits) in src.  The scanner's line numbers
    cannot be used (it does not count the line breaks inside block comments and raw strings), so
    the comments are located in order of appearance."""
    cur = 0
    spans = []
    for i, c in enumerate(cmts):
        off = src.find(c[2], cur)
        if off < 0:
            return None
        if i in edits:
            spans.append((off, off + len(c[2]), edits[i]))
        cur = off + len(c[2])
    for a, e, t in sorted(spans, reverse=True):
        src = src[:a] + t + src[e:]
    return src


def delete_comments(src, cmts, idxs):
    return edit_comments(src, cmts, {i: " " for i in idxs})


CONT_WS = re.compile(r"\n[ \t]+")


def multiline_indented(cmts):
    """F17 shape: indexes of block comments with a continuation line that starts with blanks/tabs"""
    return [i for i, c in enumerate(cmts) if c[1] == "DOCUMENT" and CONT_WS.search(c[2])]


def only_leading_ws_differs(a, b):
    """do the texts a and b differ only in the leading white space of some lines?"""
    la, lb = a.split("\n"), b.split("\n")
    return len(la) == len(lb) and all(x.lstrip(" \t") == y.lstrip(" \t") for x, y in zip(la, lb))


def mutant_shape(m):
    """shapes of invalid sources known to crash the pinned parser/formatter (F19, F20)"""
    toks = [x for x in c20gen.TOKEN_RE.findall(m) if not x.startswith("//") and not x.startswith("/*")]
    shapes = set()
    for i, t in enumerate(toks):
        nxt = toks[i + 1] if i + 1 < len(toks) else None
        if t in c20gen.HTTP and i >= 2 and toks[i - 2] == "@handler" and nxt in ("(", "returns", "@doc", "@handler", ";", "}"):
            shapes.add(F19)
        if t == "}" and i >= 1 and toks[i - 1] == "@handler":
            shapes.add(F20)      # '@handler }' : accepted as an item without handler/route
        if t == "}" and i >= 1:
            # '@doc "x" }'  or  '@doc ( ... ) }'
            if i >= 2 and toks[i - 2] == "@doc" and toks[i - 1].startswith('"'):
                shapes.add(F20)
            if toks[i - 1] == ")":
                j = i - 2
                while j >= 0 and toks[j] != "(":
                    j -= 1
                if j >= 1 and toks[j - 1] == "@doc":
                    shapes.add(F20)
    return shapes


class C20(Property):
    id = "C20"
    title = "goctl API formatter preserves meaning and is idempotent"
    quick_cases = 260
    thorough_cases = 5000
    level = "proof"
    design_ref = "DESIGN.md §6/C20"
    technique = ("Rocq proof of the .api grammar model (parse∘print = id, hence idempotence and meaning preservation of "
                 "print∘norm∘parse) + translation validation of the Go scanner/parser/formatter against it on generated programs")
    level_text = ("Unbounded Rocq theorems about a Gallina model of the .api language (tokens, AST, recursive-descent parser "
                  "following parser.go, canonical printer, the formatter's normalisation of empty constructs): "
                  "parse (print a) = Some a for every well-formed AST, hence the model formatter is idempotent and preserves "
                  "meaning. The 7000 lines of Go are NOT proved: they are validated against the model per generated program "
                  "(Go scanner tokens -> model parser = Go parser's AST; tokens of format.Source(p) = print (norm AST); "
                  "byte idempotence; no panic/hang on mutated invalid sources).")
    level_note = ("partial: proof of the grammar model + translation validation of the Go formatter. Comments are outside "
                  "the model; comment positions / constructs where the pinned formatter misbehaves (F10 and the C20-* findings "
                  "of notes/C20.md) are generated only when a probe shows the tree no longer has the defect or the finding id "
                  "is a known/fixed line of KNOWN_FINDINGS.jsonl.")
    rule = ("programs: 1..9 statements of every kind (syntax/info/import single+group/type single+group with nested structs, "
            "arrays, slices, maps, pointers, any, interface{}, embedded fields, tags/@server/service with @doc/@handler/routes), "
            "comments (line/block/doc, own line, end of line, inline block) and odd spacing; 4 mutants each; non-trivial = the Go "
            "parser accepted it, it has >= 12 tokens and the formatter changed its text; distinct = hash of the source")
    trusted_base = [
        "model theories/C20/Model.v is hand-written from parser.go/scanner.go; tie = per-program translation validation "
        "(harness/goctlh/cmd/c20): Go scanner tokens -> model parse = Go parser AST dump; Go formatter tokens = model print",
        "the executor's canonical AST dump (dumpStmt/dumpDT) and tools/props/c20.py's rendering of it as Gallina terms",
        "comments, columns and alignment are not modelled; the scanner is used as the tokeniser of both sides",
        "stand-in modules harness/stubs/{color,structtag} replace two third-party imports the formatter never calls",
    ]
    assumptions = ["a source is 'syntactically valid' iff goctl's own parser accepts it",
                   "empty input is excluded (parser.New calls log.Fatalln on it)"]

    def __init__(self):
        self.bin = None
        self.fixed = {}
        self._valid = {}

    # ---- build + probes ---------------------------------------------------------
    def prepare(self, ctx):
        ok, res = c20lib.build()
        if not ok:
            return False, res
        self.bin = res
        # probes: which of the known defects does the tree under test still have?
        probes = {
            F18: 'service s {\n\t@doc "50% off"\n\t@handler h\n\tget /x\n}\n',
            F16: 'service s { // c\n}\n',
            F15: 'service s {\n\t@handler a\n\tget /a\n\t@doc ""\n\t@handler h\n\tget /x\n}\n',
            F17: 'type T {}\n/* a\n  b */\n',
            F10: 'service s {\n\t@handler h\n\tget /x // c\n\treturns (T)\n}\n',
            F21: 'import "a.api"\ntype (\n)\n',
        }
        crash = {F19: "service s {\n\t@handler h\n\tget (Req)\n}\n", F20: 'service s {\n\t@doc "a"\n}\n}\n'}
        rc, out, res = c20lib.run(self.bin, [{"src": s} for s in probes.values()] +
                                  [{"src": "type T {}\n", "muts": list(crash.values())}])
        if rc != 0 or len(res) != len(probes) + 1:
            return False, "probe run failed: %s" % out[-1500:]
        self.fixed = {}
        for (fid, _), o in zip(probes.items(), res):
            self.fixed[fid] = (o["pout"] == "ok" and o["fout"] == "ok" and o["idem"] and c20_norm(o["ast"]) == o["fast"])
        for (fid, _), mo in zip(crash.items(), res[-1]["muts"]):
            self.fixed[fid] = mo in ("ok", "err")
        ctx.notes.append("known-defect probes (True = not present in this tree): %s" % json.dumps(self.fixed, sort_keys=True))
        return True, ""

    def _on(self, fid):
        """generate the shape of finding fid? yes when the tree no longer has the defect, when the
        finding is registered as known (then it is reported as KNOWN-FINDING) or as fixed, or
        when forced with C20_FORCE=id,id (self-test)."""
        if self.fixed.get(fid, False) or fid in vlib.known_ids(self.id):
            return True
        # a `fixed` entry keeps the shape in the stream for good: re-introducing the defect is
        # then a VIOLATION, not a silently skipped shape
        for e in vlib.load_known():
            if e.get("property") == self.id and e.get("kind") == "fixed" and e.get("id") == fid:
                return True
        return fid in os.environ.get("C20_FORCE", "").split(",")

    # ---- cases ------------------------------------------------------------------
    def corpus(self):
        res = []
        d = os.path.join(vlib.ROOT, "corpus", "C20")
        if os.path.isdir(d):
            for f in sorted(os.listdir(d)):
                if f.endswith(".json"):
                    c = json.load(open(os.path.join(d, f)))
                    need = c.get("needs")
                    if need and not all(self._on(x) for x in need):
                        continue
                    res.append({"src": c["src"], "muts": c.get("muts", [])})
        return res

    def gen(self, rng, n, tier):
        cases = []
        on = {f: self._on(f) for f in (F10, F15, F16, F17, F18, F19, F20, F21)}
        for i in range(n):
            opts = {"percent": on[F18] and rng.random() < 0.3,
                    "f10": on[F10] and rng.random() < 0.2,
                    "emptydoc": on[F15],
                    "svc_comment": on[F16],
                    "multi_indent": on[F17],
                    "empty_after_import": on[F21],
                    "maxstmts": rng.choice([2, 4, 7, 9])}
            # "every legal position": line comments / comments followed by a line break also inside
            # constructs the formatter prints on one line (finding family F22)
            inl = 2 if (self._on(F22) and rng.random() < 0.25) else 1
            if inl == 2:
                src = c20gen.generate(rng, opts, odd=rng.choice([0.15, 0.3, 0.5]), pc=rng.choice([0.15, 0.3, 0.45]), inline=2)
            else:
                src = c20gen.generate(rng, opts, inline=1)
            muts = []
            for m in c20gen.mutants(rng, src, 4 if tier != "search" else 2):
                sh = mutant_shape(m)
                if all(on[s] for s in sh):
                    muts.append(m)
            cases.append({"src": src, "muts": muts})
        return cases

    def execute(self, cases, ctx):
        rc, out, res = c20lib.run(self.bin, cases)
        if rc != 0 or len(res) != len(cases):
            raise ExecError("c20 executor rc=%s: %s" % (rc, out[-2000:]))
        for r in res:
            if r.get("err"):
                raise ExecError("c20 executor: case %s: %s" % (r.get("id"), r["err"]))
            r.pop("id", None)
        return res

    def coq_preamble(self):
        return "Open Scope string_scope.\nOpen Scope list_scope.\n"

    def coq_case(self, case, obs):
        self._valid[case["src"]] = (obs["pout"] == "ok")
        if case.get("expect_valid") and obs["pout"] != "ok":
            # a shrink candidate of a valid failing program that is no longer valid: not a
            # smaller instance of the same failure (it would drift to the parser-crash findings)
            obs["skipped"] = "shrink candidate no longer valid"
            return "mkCase true [] (Some []) OOk OOk [] (Some []) true []"
        try:
            ast = r_api(obs["ast"])
        except Unrenderable as e:
            obs["unrenderable"] = str(e)
            ast = "None"
        try:
            fast = r_api(obs["fast"])
        except Unrenderable as e:
            obs["unrenderable_f"] = str(e)
            fast = "None"
        try:
            toks = r_toks(obs["toks"])
            ftoks = r_toks(obs["ftoks"])
        except Unrenderable as e:
            obs["unrenderable_t"] = str(e)
            toks, ftoks = "[]", "[]"
        return "mkCase %s %s %s %s %s %s %s %s %s" % (
            b(not obs.get("serr") and "unrenderable_t" not in obs), toks, ast, outc(obs["pout"]), outc(obs["fout"]),
            ftoks, fast, b(obs["idem"]), lst([outc(m) for m in obs["muts"]]))

    # ---- classification ---------------------------------------------------------
    def known(self, case, obs):
        kids = vlib.known_ids(self.id)
        crashes = [(m, o) for m, o in zip(case.get("muts", []), obs["muts"]) if o not in ("ok", "err", "skipped-empty")]
        ids = set()
        for m, o in crashes:
            if "index out of range" in o and "parsePathExpr" in o:
                ids.add(F19)
            elif "nil pointer" in o and ("ast.(*RouteStmt)" in o or "ast.(*AtHandlerStmt)" in o or "ast.(*ServiceItemStmt)" in o):
                ids.add(F20)
            else:
                return None
        main_ok = self._main_ok(obs)
        if not main_ok:
            fids = self._explain_main(case, obs, kids)
            if not fids:
                return None
            ids.update(fids)
        if not ids or not all(i in kids for i in ids):
            return None
        return sorted(ids)[0]

    @staticmethod
    def _main_ok(obs):
        if obs["pout"] != "ok":
            return obs["pout"] == "err" and obs["fout"] == "err"
        return obs["fout"] == "ok" and obs["idem"] and c20_norm(obs["ast"]) == obs["fast"]

    def _run1(self, src):
        rc, out, res = c20lib.run(self.bin, [{"src": src}])
        return res[0] if rc == 0 and len(res) == 1 else None

    def _f10_idxs(self, case, obs):
        return route_comment_positions(obs["toks"], obs["cmts"])

    def _inline_idxs(self, case, obs):
        """comments that carry a line break (a line comment, or a comment with a line break
        before/after it) between two tokens that the formatter prints on one line; which gaps
        are "one line" is read off the formatted comment-free program"""
        toks, cmts = obs["toks"], obs["cmts"]
        if not cmts:
            return []
        src0 = delete_comments(case["src"], cmts, range(len(cmts)))
        o0 = self._run1(src0) if src0 is not None else None
        if o0 is None or o0["pout"] != "ok" or not self._main_ok(o0) or o0["ast"] != obs["ast"]:
            return []
        ft = o0["ftoks"]
        # align the source tokens with the formatted ones (the formatter only deletes tokens:
        # empty constructs and ';')
        # (left-to-right: a formatted token is matched with the first equal source token)
        fidx = {}
        j = 0
        for i, t in enumerate(toks):
            if j < len(ft) and t[0] == ft[j][0] and t[1] == ft[j][1]:
                fidx[i] = j
                j += 1
        if j != len(ft):
            return []
        # positions that have their own finding ids (repaired in go-zero) are not part of this
        # family: a regression there must stay a violation
        own = set(route_comment_positions(toks, cmts)) | set(empty_service_comment_positions(toks, cmts))
        idxs = []
        for ci, c in enumerate(cmts):
            nxt = c[0] + 1
            if ci in own or c[0] < 0 or nxt >= len(toks):
                continue
            k = nxt              # tokens the formatter deletes (empty "()" ...) are stepped over
            while k < len(toks) and k not in fidx:
                k += 1
            if k >= len(toks) or ft[fidx[k]][2] == 1:
                continue         # the formatter breaks the line here anyway: conventional position
            if (c[1] == "COMMENT") or toks[nxt][2] == 1 or c[3] == 0 or "\n" in c[2]:
                idxs.append(ci)
        return idxs

    def _explain_main(self, case, obs, kids):
        """Which registered known finding(s) explain a failing valid program?  Each family has a
        token-level shape (which comment tokens, where) and a repair of exactly those comments;
        the program is explained iff it has the shape(s) and the same program with exactly those
        comments repaired satisfies the whole property (re-executed on the implementation).
          F10  comment directly after the last token of a route path, before '(' / 'returns'
               (only idempotence may fail)                                   -> comment removed
          F17  block comment with a continuation line starting with blanks/tabs (only
               idempotence may fail, and the two passes differ only in leading white space)
                                                            -> leading white space removed
          F22  comment carrying a line break between two tokens the formatter prints on one
               line                                                          -> comment removed
        Returns the sorted list of ids needed, or None."""
        if obs["pout"] != "ok" or obs.get("serr") or not obs["cmts"]:
            return None
        cmts = obs["cmts"]
        meaning_ok = obs["fout"] == "ok" and c20_norm(obs["ast"]) == obs["fast"]
        fam = {}
        if F10 in kids and meaning_ok:
            ix = self._f10_idxs(case, obs)
            if ix:
                fam[F10] = {i: " " for i in ix}
        if F17 in kids and meaning_ok:
            ix = multiline_indented(cmts)
            if ix:
                fam[F17] = {i: CONT_WS.sub("\n", cmts[i][2]) for i in ix}
        if F22 in kids:
            ix = self._inline_idxs(case, obs)
            if ix:
                fam[F22] = {i: " " for i in ix}
        if not fam:
            return None
        order = [[f] for f in sorted(fam)] + ([sorted(fam)] if len(fam) > 1 else [])
        for combo in order:
            if combo == [F17] and not only_leading_ws_differs(obs["fmt1"], obs["fmt2"]):
                continue
            edits = {}
            for f in combo:
                for i, t in fam[f].items():
                    if t == " " or i not in edits:      # removing a comment wins over repairing it
                        edits[i] = t
            src2 = edit_comments(case["src"], cmts, edits)
            o2 = self._run1(src2) if src2 is not None else None
            if o2 is not None and o2["ast"] == obs["ast"] and self._main_ok(o2):
                return combo
        return None

    # ---- evidence ---------------------------------------------------------------
    def nontrivial(self, case, obs):
        return obs["pout"] == "ok" and len(obs["toks"]) >= 12 and obs["fmt1"] != case["src"]

    def features(self, case, obs):
        fs = []
        if obs["pout"] != "ok":
            return ["rejected_by_go_parser"]
        for s in obs["ast"] or []:
            fs.append("stmt_" + s[0])
            if s[0] == "service":
                if s[1] is not None:
                    fs.append("has_@server")
                for d, h, r in s[3]:
                    if d:
                        fs.append("has_@doc_" + d[0])
                    if r and r[2] is not None:
                        fs.append("route_req")
                    if r and r[3] is not None:
                        fs.append("route_resp")
        txt = json.dumps(obs["ast"])
        for k in ("struct", "array", "slice", "map", "ptr", "iface", "any"):
            if '["%s"' % k in txt:
                fs.append("type_" + k)
        if '[[], [' in txt:
            fs.append("embedded_field")
        fs.append("tokens<=%d" % (50 * (1 + len(obs["toks"]) // 50)))
        nc = len(obs["cmts"])
        fs.append("comments=%s" % (nc if nc < 3 else "3-9" if nc < 10 else "10+"))
        toks = obs["toks"]
        for c in obs["cmts"]:
            prev = toks[c[0]][0] if c[0] >= 0 else "BOF"
            nxt = toks[c[0] + 1][0] if c[0] + 1 < len(toks) else "EOF"
            nl_after = c[0] + 1 < len(toks) and toks[c[0] + 1][2] == 1
            fs.append("cmt_%s_%s" % ("eol" if c[3] else "own", "line" if c[1] == "COMMENT" else "block"))
            fs.append("cmt_after_%s" % prev)
            fs.append("cmt_before_%s" % nxt)
            if not nl_after and nxt != "EOF":
                fs.append("cmt_inline")
        lost = len(obs["cmts"]) - len(obs["fcmts"])
        if lost > 0:
            fs.append("comments_dropped_by_formatter")
        if c20_norm(obs["ast"]) != obs["ast"]:
            fs.append("empty_construct_removed")
        fs.append("mutants=%d" % len(obs["muts"]))
        fs += ["mutant_" + (m if m in ("ok", "err") else "crash") for m in obs["muts"]]
        return fs

    def shrink_candidates(self, case):
        src = case["src"]
        res = []
        lines = src.split("\n")
        n = len(lines)
        ch = max(1, n // 2)
        while True:
            for i in range(0, n, ch):
                res.append("\n".join(lines[:i] + lines[i + ch:]))
            if ch == 1:
                break
            ch //= 2
        for m in re.finditer(r"//[^\n]*|/\*(?:(?!\*/).)*\*/", src, re.S):      # delete a comment
            res.append(src[:m.start()] + src[m.end():])
        toks = [(m.start(), m.end()) for m in c20gen.TOKEN_RE.finditer(src)]
        for a, e in toks[:300]:                                            # delete a token
            res.append(src[:a] + src[e:])
        res.append(re.sub(r"[ \t]+", " ", src))
        res.append(re.sub(r"\n\s*\n", "\n", src))
        out = []
        seen = set()
        ev = bool(self._valid.get(src)) or bool(case.get("expect_valid"))
        muts = case.get("muts", [])
        if muts:
            out.append({"src": src, "muts": []})
            for m in muts:
                out.append({"src": "type T {}\n", "muts": [m]})
        for s in res:
            if s not in seen and s != src and s.strip():
                seen.add(s)
                out.append({"src": s, "muts": [], "expect_valid": True} if ev else {"src": s, "muts": []})
        return out[:160]

    def describe_failure(self, case, obs):
        if obs["pout"] not in ("ok", "err") or obs["fout"] not in ("ok", "err"):
            return "scanner/parser/formatter crashed (%s / %s)" % (obs["pout"], obs["fout"])
        bad = [o for o in obs["muts"] if o not in ("ok", "err", "skipped-empty")]
        if bad:
            return "format.Source crashed on an invalid source: %s" % bad[0]
        if obs["pout"] == "ok" and obs["fout"] != "ok":
            return "format.Source rejected a source the parser accepts: %s" % obs.get("ferr")
        if obs["pout"] == "ok" and c20_norm(obs["ast"]) != obs["fast"]:
            return "the formatted text does not parse to the same API description"
        if not obs["idem"]:
            return "formatting the formatted text changes it again"
        return "tokens of the formatted text differ from print(norm(AST))"


def c20_norm(a):
    """Python twin of Model.norm on the executor's AST dump (used for classification only;
    the verdict is computed in Coq)."""
    if a is None:
        return None
    Z = ('""', "``")

    def nb(x):
        return None if (x is None or x[1] is None) else x

    out = []
    for st in a:
        k = st[0]
        if k == "info" and all(v[1] in Z for v in st[1]):
            continue
        if k == "import" and st[1] in Z:
            continue
        if k == "imports" and all(v in Z for v in st[1]):
            continue
        if k == "types" and not st[1]:
            continue
        if k == "service":
            at = st[1]
            if at is not None and all((v[2] == "STRING" and v[1] in Z) for v in at):
                at = None
            items = []
            for d, h, r in st[3]:
                if d is not None:
                    if d[0] == "lit" and d[1] in Z:
                        d = None
                    elif d[0] == "group" and all(v[1] in Z for v in d[1]):
                        d = None
                if r is not None:
                    r = [r[0], r[1], nb(r[2]), nb(r[3])]
                items.append([d, h, r])
            st = [k, at, st[2], items]
        out.append(st)
    return out


PROPERTY = C20()
