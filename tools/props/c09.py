"""C09 — HTTP router (rest/router/patrouter.go over core/search/tree.go)."""
import itertools
import os
import random
import re

import vlib
from runner import Property, ExecError
from vlib import cz, clist, cstr, cbool

METHODS = ["GET", "POST", "PUT", "DELETE"]
ALL_METHODS = ["DELETE", "GET", "HEAD", "OPTIONS", "PATCH", "POST", "PUT"]
BAD_METHODS = ["FOO", "get", "", "TRACE", "CONNECT"]
REGERR = {0: "RegOk", 1: "RegInvalidMethod", 2: "RegInvalidPath", 3: "RegDuplicate", 4: "RegOther"}


def _clean(p):
    """path.Clean for rooted paths -> list of segments ([""] for the root); None if not rooted."""
    if not p.startswith("/"):
        return None
    st = []
    for s in p[1:].split("/"):
        if s in ("", "."):
            continue
        if s == "..":
            if st:
                st.pop()
            continue
        st.append(s)
    return st or [""]


def _compat(p, q):
    for a, b in zip(p, q):
        if a != b:
            return not (a.startswith(":") and b.startswith(":"))
    return True


def _accepted(regs):
    """the table the property talks about: (method, cleaned pattern) of accepted registrations"""
    t = []
    for m, p in regs:
        if m not in ("DELETE", "GET", "HEAD", "OPTIONS", "PATCH", "POST", "PUT"):
            continue
        c = _clean(p)
        if c is None or (m, c) in t:
            continue
        t.append((m, c))
    return t


def _join(g, p):
    """path.Join(g, p) (unrooted results are returned uncleaned: only their unrootedness matters)"""
    x = p if g == "" else (g if p == "" else g + "/" + p)
    c = _clean(x)
    return x if c is None else "/" + "/".join(c)


def _server_regs(case, s):
    """the (method, path) list the user wrote for server s: every table slice mounted on it before its
    Start, each prefix applied in order (the Python twin of ServerModel.spec_regs; statistics and
    request generation only — the judgement is done in Coq)"""
    out = []
    for ev in case["events"]:
        if ev["ev"] == "start":
            if ev["server"] == s:
                break
            continue
        if ev["server"] != s:
            continue
        for m, p in case["tables"][ev["table"]][ev["lo"]:ev["hi"]]:
            for o in ev["opts"]:
                if o[0] == "prefix":
                    p = _join(o[1], p)
            out.append([m, p])
    return out


def _flat(case):
    """every (method, path) a case registers (all servers)"""
    if case.get("kind") != "server":
        return case["regs"]
    return [r for s in range(len(case["servers"])) for r in _server_regs(case, s)]


def _in_scope(regs):
    t = _accepted(regs)
    return all(m1 != m2 or _compat(p1, p2) for (m1, p1) in t for (m2, p2) in t)


def _case_in_scope(case):
    if case.get("kind") != "server":
        return _in_scope(case["regs"])
    return all(_in_scope(_server_regs(case, s)) for s in range(len(case["servers"])))


def _first_error(regs):
    t = []
    for m, p in regs:
        if m not in ("DELETE", "GET", "HEAD", "OPTIONS", "PATCH", "POST", "PUT"):
            return 1
        c = _clean(p)
        if c is None:
            return 2
        if (m, c) in t:
            return 3
        t.append((m, c))
    return 0


def segs_enc(segs, k, y, P, which):
    """the default encoding of every segment, segment k replaced by the spelling y"""
    return [y if j == k else P._enc(x, which, False) for j, x in enumerate(segs)]


def _from_groups(groups, reqs, nf=False, na=False, cors=False, use=False, **cfg):
    """one server, one fresh table per group (the shape of the round-2 cases)"""
    tables, events = [], []
    for i, g in enumerate(groups):
        tables.append(g["routes"])
        opts = ([["timeout"], ["maxbytes"]] if g.get("opts") else []) \
            + ([["prefix", g["prefix"]]] if g["prefix"] is not None else []) + ([["priority"]] if g.get("opts") else [])
        events.append({"ev": "mount", "server": 0, "table": i, "lo": 0, "hi": len(g["routes"]), "single": bool(g.get("single")),
                       "mw": bool(g.get("mw")), "tag": i, "opts": opts})
    events.append({"ev": "start", "server": 0})
    return {"kind": "server", "regs": [], "tables": tables,
            "servers": [dict({"nf": nf, "na": na, "cors": cors, "use": use, "chain": False, "native": False, "must": False}, **cfg)],
            "events": events, "reqs": [["0", m, p, "path"] for m, p in reqs]}


HTTP_METHOD_CONSTS = {"MethodGet": "GET", "MethodHead": "HEAD", "MethodPost": "POST", "MethodPut": "PUT", "MethodPatch": "PATCH",
                      "MethodDelete": "DELETE", "MethodConnect": "CONNECT", "MethodOptions": "OPTIONS", "MethodTrace": "TRACE"}
HTTP_STATUS_CONSTS = {"StatusMethodNotAllowed": 405, "StatusNotFound": 404, "StatusOK": 200, "StatusNoContent": 204,
                      "StatusForbidden": 403, "StatusBadRequest": 400}


ANCHOR_MARKS = ("/core/search/", "/rest/router/", "/rest/pathvar/", "/rest/server.go", "/rest/engine.go", "/harness/cmd/c09/")


def _races(out):
    """split the race detector's reports: (those with a racing access in C09's anchored code or in the executor's own reads
    of the path variables, [access sites of the others])"""
    relevant, others = [], []
    for block in out.split("==================")[1:]:
        if "WARNING: DATA RACE" not in block:
            continue
        sites = []
        lines = block.splitlines()
        for i, l in enumerate(lines):
            if re.match(r"^(Read|Write|Previous read|Previous write|Atomic|Previous atomic)", l.strip()):
                # first frame below that is not in GOROOT
                for j in range(i + 1, min(i + 12, len(lines)) - 1, 2):
                    f = lines[j + 1].strip()
                    if "/usr/lib/go" in f or f.startswith("<autogenerated>"):
                        continue
                    sites.append(lines[j].strip() + " " + f.split(" ")[0])
                    break
        if any(m in s for s in sites for m in ANCHOR_MARKS):
            relevant.append("==================" + block)
        else:
            others += sites
    return relevant, others


def _func_body(src, header_re):
    m = re.search(header_re, src)
    if not m:
        raise RuntimeError("C09 regen: cannot find %s" % header_re)
    i = src.index("{", m.end() - 1)
    depth, j = 0, i
    while True:
        if src[j] == "{":
            depth += 1
        elif src[j] == "}":
            depth -= 1
            if depth == 0:
                return src[i + 1:j]
        j += 1


MODEL_CONSTS = {"methods": ["DELETE", "GET", "HEAD", "OPTIONS", "PATCH", "POST", "PUT"], "allow_header": "Allow",
                "allow_sep": ", ", "status": 405, "colon": ":", "slash": "/"}


def _pkg_source(rel):
    """the non-test Go files of a package directory of the checked tree, concatenated (a declaration may move
    between the files of its package without changing anything), comments removed"""
    d = os.path.join(vlib.REPO, rel)
    out = []
    for f in sorted(os.listdir(d)):
        if f.endswith(".go") and not f.endswith("_test.go"):
            out.append(open(os.path.join(d, f)).read())
    src = "\n".join(out)
    src = re.sub(r"/\*.*?\*/", " ", src, flags=re.S)
    return re.sub(r"(?m)//[^\n]*$", "", src)


def _method_tokens(text):
    """the method names a piece of Go text mentions: http.MethodXxx selectors and string literals"""
    res, bad = [], []
    for tok in re.findall(r'http\.Method\w+|"(?:[^"\\]|\\.)*"', text):
        if tok.startswith('"'):
            res.append(tok[1:-1])
        elif tok.split(".")[1] in HTTP_METHOD_CONSTS:
            res.append(HTTP_METHOD_CONSTS[tok.split(".")[1]])
        else:
            bad.append(tok)
    return res, bad


def _valid_methods(pr):
    """the set validMethod accepts, for the shapes that say it literally: a disjunction of equalities, a switch whose
    cases return true, membership in a package-level map / slice literal.  None = shape not recognised."""
    m = re.search(r"func validMethod\((\w+) string\) bool \{", pr)
    if not m:
        return None
    arg = m.group(1)
    body = _func_body(pr, r"func validMethod\(\w+ string\) bool \{")
    if re.search(r"!=|&&|!\s*\w|strings\.|len\(|\[\s*\d*\s*:|\+", body):
        return None
    flat = " ".join(body.split())
    toks, bad = _method_tokens(body)
    if bad:
        return None
    # (a) return method == A || method == B ...
    if re.fullmatch(r"return (?:\(?%s == (?:http\.\w+|\"[^\"]*\")\)? ?(?:\|\| ?)?)+" % arg, flat) and flat.count("==") == len(toks):
        return toks
    # (b) switch method { case A, B: return true [default: return false] } [return false]
    sw = re.fullmatch(r"switch %s \{ ((?:case [^:]+: return true )+)(?:default: return false )?\} ?(?:return false)?" % arg, flat)
    if sw and len(_method_tokens(sw.group(1))[0]) == len(toks):
        return toks
    # (c) _, ok := table[method]; return ok   /   return slices.Contains(table, method)   with a literal table
    tb = re.fullmatch(r"(?:_, (\w+) := (\w+)\[%s\] return \1|return (\w+)\[%s\]|return slices\.Contains\((\w+), %s\))" % (arg, arg, arg), flat)
    if tb:
        name = tb.group(2) or tb.group(3) or tb.group(4)
        lit = re.search(r"\b%s\s*=\s*(?:map\[string\](?:struct\{\}|bool)|\[\]string)\s*\{" % name, pr)
        if lit:
            inner = _func_body(pr, r"\b%s\s*=\s*(?:map\[string\](?:struct\{\}|bool)|\[\]string)\s*\{" % name)
            if "false" not in inner:
                ts, bad = _method_tokens(inner)
                if ts and not bad:
                    return ts
    return None


def extract_constants():
    """what the model assumes about rest/router/patrouter.go and core/search/tree.go, re-read from the checked tree.
    Returns (values, notes).  A declaration whose SHAPE is not recognised (the code was rewritten) is not an alarm by
    itself: the model's value is kept for it, the fact is noted in the evidence, and the behaviour it stands for is
    judged by execution (the method vocabulary case of the corpus, the observed status / Allow header of every 405)."""
    pr = _pkg_source("rest/router")
    tr = _pkg_source("core/search")
    v, notes = dict(MODEL_CONSTS), []

    def unread(what, why):
        notes.append("NOT RE-READ: %s (%s) - the model's value is kept, behaviour judged by execution only" % (what, why))

    try:
        methods = _valid_methods(pr)
    except RuntimeError:
        methods = None
    if methods is None:
        unread("validMethod", "not one of the recognised literal shapes")
    else:
        v["methods"] = methods

    def const(src, name, key, what):
        m = re.search(r'\b%s\s*(?:string|rune|byte)?\s*=\s*("(?:[^"\\]|\\.)*"|\'(?:[^\'\\]|\\.)\')' % name, src)
        if not m:
            unread("constant %s" % name, "no literal declaration in %s" % what)
        else:
            v[key] = m.group(1)[1:-1]
    const(pr, "allowHeader", "allow_header", "rest/router")
    const(pr, "allowMethodSeparator", "allow_sep", "rest/router")
    const(tr, "colon", "colon", "core/search")
    const(tr, "slash", "slash", "core/search")
    try:
        serve = _func_body(pr, r"func \(\w+ \*patRouter\) ServeHTTP\(\w+ http\.ResponseWriter, \w+ \*http\.Request\) \{")
        st = re.findall(r"\.WriteHeader\(http\.(\w+)\)", serve)
        if len(st) == 1 and st[0] in HTTP_STATUS_CONSTS:
            v["status"] = HTTP_STATUS_CONSTS[st[0]]
        else:
            unread("the status ServeHTTP writes", "ServeHTTP does not write exactly one named status itself: %r" % st)
    except RuntimeError:
        unread("the status ServeHTTP writes", "ServeHTTP not found")
    return v, notes


def regen_constants():
    v, notes = extract_constants()
    for k in ("colon", "slash"):
        if len(v[k]) != 1 or v[k] in '"\\':
            raise RuntimeError("C09 regen: unexpected %s constant %r" % (k, v[k]))
    lines = ["(* GENERATED by tools/props/c09.py from rest/router/patrouter.go and core/search/tree.go of the checked tree",
             "   at every run - do not edit. *)",
             "From Coq Require Import ZArith List String Ascii.", "Import ListNotations.",
             "Definition gen_valid_methods : list string := %s." % clist([cstr(m) for m in v["methods"]]),
             "Definition gen_allow_header : string := %s." % cstr(v["allow_header"]),
             "Definition gen_allow_separator : string := %s." % cstr(v["allow_sep"]),
             "Definition gen_not_allowed_status : Z := %d%%Z." % v["status"],
             'Definition gen_colon : ascii := "%s"%%char.' % v["colon"],
             'Definition gen_slash : ascii := "%s"%%char.' % v["slash"], ""]
    text = "\n".join(lines)
    path = os.path.join(vlib.COQ, "gen", "C09Consts.v")
    os.makedirs(os.path.dirname(path), exist_ok=True)
    old = open(path).read() if os.path.exists(path) else None
    if old != text:
        tmp = path + ".tmp%d" % os.getpid()
        with open(tmp, "w") as f:
            f.write(text)
        os.replace(tmp, path)
    return v, old != text, notes


class C09(Property):
    id = "C09"
    title = "HTTP router dispatches every request to the right route with the right variables"
    quick_cases = 520
    thorough_cases = 8000
    design_ref = "DESIGN.md §6/C09"
    level_text = ("Unbounded Rocq theorems. Router (every list of Handle calls, every request method and path): the per-method "
                  "search tries represent exactly the accepted (method, cleaned pattern) routes; inside the side condition the "
                  "response does not depend on Go's map order and equals the executable reference spec_serve (best_of / binds / "
                  "allow_spec over the plain route list): a handler runs iff a route of the method matches the cleaned path, it "
                  "is the literal-over-variable best match, it receives exactly that route's bindings, otherwise 405 with exactly "
                  "the other matching methods or 404; duplicate / bad method / unrooted pattern are rejected and leave the router "
                  "unchanged. Server (every sequence of AddRoutes/AddRoute/Start events on any number of rest.Server instances, "
                  "tables re-used, sub-sliced and shared, options in any order; heap model with aliasing): the user's tables are "
                  "never written, Start binds exactly the union of the prefix-extended tables as written, and a started server "
                  "answers by the same case table over that union; Start hands the router exactly that union, in order, up to the first "
                  "rejected route; options other than WithPrefix and AddRoute-vs-AddRoutes are transparent; path.Clean effects (trailing "
                  "slash, empty / dot / dot-dot segments, idempotence) and custom 404/405 handlers (relabel only) proved for every path. "
                  "The boolean judgement prop_ok applies to observed responses is "
                  "proved equivalent to the case table, and every answer of the verified model passes it. Tied to the Go code by "
                  "differential execution through router.NewRouter() and rest.Server (NewServer/MustNewServer ... StartWithOpts) + httptest.")
    level_note = ("Trusted: Coq kernel + vm_compute; hand-written model (maps as association lists, the set of map-order-"
                  "dependent results computed explicitly, path.Clean/path.Join modelled for rooted paths and compared with Go's on "
                  "every generated path, slices as store + alias/fresh references); correspondence on generated cases only; "
                  "net/http (request-line parsing, percent-decoding), context/pathvar plumbing and the per-route middleware chain "
                  "(JWT, timeout, breaker, ...) are exercised but not modelled.")
    rule = ("router cases: <=12 Handle calls (7 valid methods + invalid ones, segments from {a,b,:x,:y,'',.,..} plus unicode, spaces, "
            "'%2F', ':' alone, 300-byte segments; depth<=4, a corpus table with 300 segments / 5000-byte segment; unrooted patterns, "
            "duplicates after cleaning) and <=16 requests (paths derived from the patterns and random, case-swapped segments, //, /./, "
            "/../, trailing /, unrooted, '*', unknown/custom methods; 20% sent as raw request targets through http.ReadRequest with "
            "percent-encoding and query strings). server cases: 1-3 user tables, 1-3 servers (CORS variants, custom 404/405, Use, "
            "WithChain, native middlewares, MustNewServer, WithRouter, WithFileServer, callbacks), 1-5 mounts re-using tables (whole or "
            "sub-slice, AddRoutes or AddRoute, WithMiddlewares, WithPrefix once or twice among timeout/maxbytes/priority/sse/jwt/"
            "jwt-transition/signature options in random order), Start of each server at a random point after its last mount; "
            "requests to every server derived from its own routes, other servers' routes, stacked prefixes and the unprefixed tables. "
            "FIXED families, independent of the seed (every run): request segments spelled like the table's own pattern segments "
            "(every route x position x spelling of {segments of the table, ':', '::', '*', ':id', '%3Aid', ...}, path and raw mode, router "
            "and server kind); the ten spellings of the root path x all methods; trailing-slash / empty / dot variants of every path of a "
            "table with inner nodes; patterns needing cleaning; shorter-after-longer registration order; several patterns matching one "
            "path under different methods; raw request targets with query strings, ;params, encoded separators, absolute-URI form; "
            "cases of kind target (every request a raw request line, Path/RawPath derived by the Coq model of net/url and compared with Go's, "
            "response judged from the model-decoded path): ~650 fixed targets in non-default encodings + random ones; "
            "method-name vocabulary (39 names) on the router and at server level; the user's own recording router (WithRouter first / last). "
            "non-trivial = inside the side condition, a literal and a variable route compete at the same depth, at least one dispatch "
            "with variables and one 405 or 404 (server cases: a server started and some table is mounted more than once); "
            "distinct = canonical JSON hash of the case")
    trusted_base = [
        "models theories/C09/Model.v and ServerModel.v are hand-written; tie = correspondence run (harness/cmd/c09) on generated cases",
        "path.Clean / path.Join are modelled for rooted paths and compared with Go's on every generated pattern, prefix and path",
        "net/url's Path/RawPath for origin-form targets is modelled (Target.v) and compared per raw request in the target cases; other target forms, "
        "context.WithValue / pathvar.Vars and http.NotFound are exercised but not modelled (router/server cases start from the URL.Path the server derived)",
        "constants (valid methods, Allow header and separator, 405, ':' and '/') are re-read from the source at every run (coq/gen/C09Consts.v); "
        "a declaration whose shape the extractor does not recognise keeps the model's value (noted as NOT RE-READ) and is judged by execution only",
        "the order rule for rest.RunOptions (WithRouter given last drops the earlier not-found / not-allowed / CORS options) is applied in tools/props/c09.py",
    ]
    assumptions = ["handlers are non-nil (errEmptyItem not modelled)",
                   "a request is served after all registrations (Handle is not concurrent with ServeHTTP); no AddRoutes after Start"]

    def regen(self, ctx):
        v, changed, notes = regen_constants()
        return ["constants re-read from rest/router / core/search: methods=%s allow=%r sep=%r status=%d%s"
                % (",".join(v["methods"]), v["allow_header"], v["allow_sep"], v["status"], " (CHANGED)" if changed else "")] + notes

    def prepare(self, ctx):
        ok, res = vlib.go_build("c09")
        self.bin = res if ok else None
        return ok, ("" if ok else res)

    # ---- generation ---------------------------------------------------------
    def corpus(self):
        router_cases = [
            {"nf": False, "na": False,
             "regs": [["GET", "/a/:x"], ["GET", "/a/b"], ["POST", "/a//b/"], ["FOO", "/a"], ["GET", "a"], ["GET", "/a/./b"],
                      ["GET", "/:x"], ["GET", "/"], ["PUT", "/:y"], ["GET", "/:x/:x"], ["GET", ""]],
             "reqs": [["GET", "/a/b"], ["GET", "/a/c"], ["GET", "/a//c/"], ["POST", "/a/b"], ["PUT", "/a/b"], ["DELETE", "/a/c"],
                      ["GET", "/"], ["PUT", "/"], ["PUT", ""], ["PUT", "/.."], ["GET", "/1/2"], ["FOO", "/a/b"], ["GET", "a/b"],
                      ["GET", "/:x"], ["GET", "/a/b/../c"]]},
            # backtracking: the literal branch fails deeper down, the variable branch must be taken, without stale variables
            {"nf": False, "na": False,
             "regs": [["GET", "/a/:y/b"], ["GET", "/:x/a/a"], ["GET", "/a/a/:y"], ["POST", "/:x/:y/:x"]],
             "reqs": [["GET", "/a/a/a"], ["GET", "/a/a/b"], ["GET", "/a/b/b"], ["GET", "/b/a/a"], ["GET", "/b/a/b"],
                      ["PUT", "/b/a/b"], ["POST", "/1/2/3"], ["GET", "/a/a"]]},
            # a branch that binds a variable and then fails: its binding must not be delivered
            {"nf": False, "na": False, "regs": [["GET", "/a/:y/c/d"], ["GET", "/:x/b/c"], ["POST", "/:y/a/a"], ["POST", "/a/:x"]],
             "reqs": [["GET", "/a/b/c"], ["POST", "/a/a/a"], ["POST", "/a/b"], ["PUT", "/a/b/c"]]},
            # custom handlers
            {"nf": True, "na": True, "regs": [["GET", "/a"], ["POST", "/:x"]],
             "reqs": [["PUT", "/a"], ["GET", "/b"], ["GET", "/a/b"], ["POST", "/"]]},
            # outside the side condition: two variable names at one position
            {"nf": False, "na": False, "regs": [["GET", "/:x/a"], ["GET", "/:y/b"], ["GET", "/:x"], ["GET", "/:y"]],
             "reqs": [["GET", "/1/a"], ["GET", "/1/b"], ["GET", "/1"], ["GET", "/"]]},
            # all seven methods, HEAD is not GET, OPTIONS is an ordinary method on the bare router, custom methods
            {"nf": False, "na": False,
             "regs": [[m, "/r/:id"] for m in ALL_METHODS] + [["TRACE", "/r/:id"], ["CONNECT", "/r"], ["GET", "/g"], ["HEAD", "/h"]],
             "reqs": [[m, "/r/1"] for m in ALL_METHODS + ["TRACE", "CONNECT", "get", "PROPFIND", ""]]
                     + [["HEAD", "/g"], ["GET", "/h"], ["OPTIONS", "/g"], ["OPTIONS", "*", "raw"], ["OPTIONS", "*"]]},
            # the variables of a request stay its own: concurrent requests on variable routes, reads after later requests
            {"nf": False, "na": False, "regs": [["GET", "/a/:x"], ["GET", "/b/:y/:z"], ["POST", "/a/:x"], ["GET", "/c"]],
             "reqs": [["GET", "/a/1", "path", "c1"], ["GET", "/b/2/3", "path", "c1"], ["POST", "/a/4", "path", "c1"], ["GET", "/c", "path", "c1"],
                      ["PUT", "/a/9", "path", ""], ["GET", "/b/5/6", "path", ""], ["GET", "/a/7", "path", "c2"], ["GET", "/a/8", "path", "c2"]]},
            # names that collide: one name twice in a pattern, the same name at different positions of competing routes
            {"nf": False, "na": False,
             "regs": [["GET", "/:x/a/:x"], ["GET", "/:x/b/:y"], ["GET", "/:x/:y/c/:x"], ["POST", "/:a/:a/:a"], ["PUT", "/:/:"]],
             "reqs": [["GET", "/1/a/2"], ["GET", "/1/b/2"], ["GET", "/1/2/c/3"], ["GET", "/1/a/c/3"], ["POST", "/1/2/3"], ["PUT", "/1/2"],
                      ["GET", "/1/c/2"]]},
            # routes that differ only in variable names: outside the property's family, compared with the model only
            {"nf": False, "na": False, "regs": [["GET", "/u/:id/x"], ["GET", "/u/:name/y"], ["GET", "/u/:id"], ["GET", "/u/:name"]],
             "reqs": [["GET", "/u/1/x"], ["GET", "/u/1/y"], ["GET", "/u/1"], ["POST", "/u/1"]]},
            # method names as inputs: validMethod accepts exactly the seven methods, byte for byte (this case carries the
            # judgement when the constant extractor cannot read validMethod's shape and keeps the model's list)
            {"nf": False, "na": False, "regs": [[m, "/m/:v"] for m in self.METHOD_VOCAB] + [["GET", "/m/:v"]],
             "reqs": [[m, "/m/1"] for m in self.METHOD_VOCAB]},
        ]
        return self._server_corpus() + router_cases

    METHOD_VOCAB = ["GET", "HEAD", "POST", "PUT", "PATCH", "DELETE", "CONNECT", "OPTIONS", "TRACE", "get", "Get", "gET", " GET", "GET ",
                    "GET\t", "", "*", "GET,POST", "G\u0415T", "PROPFIND", "PROPPATCH", "MKCOL", "COPY", "MOVE", "LOCK", "UNLOCK", "QUERY",
                    "PURGE", "LINK", "UNLINK", "SEARCH", "REPORT", "BREW", "M-SEARCH", "NOTIFY", "SUBSCRIBE", "PRI", "ANY", "ALL"]

    # ---- request segments spelled like the route table's own PATTERN segments (seeded C09-11) --------------
    # A `:name` pattern segment matches ANY single request segment, also one that is spelled ":name" itself (an unfilled
    # client URL template), ":" , "::", "*", or like a literal sibling; a literal pattern segment matches only itself.
    # Any code path that classifies a REQUEST token with the helper made for PATTERN tokens (getChildren: first byte ':'
    # => variable map) goes wrong exactly on such requests.  Deterministic family: for fixed tables, every route, every
    # segment position, every spelling of the vocabulary below (plus every segment text occurring in the table), sent
    # with URL.Path set directly and as a raw request line (':' also percent-encoded: `%3Aid`).
    SPELLINGS = [":", "::", "*", ":id", ":ID", ":idx", "id", "%3Aid"]

    def _spell_requests(self, regs, extra_methods=("PUT",), raw_every=3, cap=400):
        acc = _accepted(regs)
        vocab = []
        for _, pat in acc:
            for s in pat:
                if s not in vocab and s != "":
                    vocab.append(s)
        vocab += [s for s in self.SPELLINGS if s not in vocab]
        reqs, seen, k = [], set(), 0
        fill = lambda pat: [("7" if s.startswith(":") else s) for s in pat]

        def put(m, segs):
            nonlocal k
            p = "/" + "/".join(segs)
            if (m, p) in seen:
                return
            seen.add((m, p))
            reqs.append([m, p, "path"])
            k += 1
            if k % raw_every == 0 and all(ord(ch) < 128 and ch not in " ?#%" for ch in p):
                # the same path as a request line: once verbatim, once with every ':' percent-encoded
                reqs.append([m, p, "raw"])
                if ":" in p:
                    reqs.append([m, p.replace(":", "%3A" if k % 2 else "%3a"), "raw"])
        for m, pat in acc:
            put(m, list(pat))                       # the pattern text itself, every position at once
            for i in range(len(pat)):
                for s in vocab:
                    segs = fill(pat)
                    segs[i] = s                     # one position spelled like a pattern segment, the others filled in
                    put(m, segs)
                    segs = list(pat)
                    segs[i] = "7"                   # and the converse: all other positions keep their pattern spelling
                    put(m, segs)
            for m2 in extra_methods:               # the 405/404 side of the same paths
                put(m2, list(pat))
        return reqs[:cap]

    def _spelling_cases(self):
        t1 = [["GET", "/users/:id"], ["GET", "/users/:id/posts/:pid"], ["GET", "/users/me"], ["POST", "/users/:id"],
              ["DELETE", "/users/:id/posts/:pid"], ["GET", "/:id"], ["GET", "/"]]
        t2 = [["GET", "/a/:/b"], ["GET", "/a/:/::"], ["GET", "/s/*"], ["GET", "/s/:x/*"], ["POST", "/s/:x"], ["GET", "/%3Aid/:id"],
              ["GET", "/:x/:y/:z"], ["PATCH", "/:id/:id"]]
        t3 = [["GET", "/:a"], ["POST", "/:a/:b"], ["HEAD", "/:a/lit/:c"], ["OPTIONS", "/lit/:b"], ["GET", "/lit/:b/:c/:d"]]
        cases = []
        for regs in (t1, t2, t3):
            reqs = self._spell_requests(regs)
            for i in range(0, len(reqs), 140):
                cases.append({"nf": False, "na": False, "regs": regs, "reqs": reqs[i:i + 140]})
        # the same through rest.Server: the variable segments come from the table AND from the prefix
        users = [["GET", "/users/:id"], ["GET", "/users/:id/posts/:pid"], ["POST", "/users/:id"], ["GET", "/users/me"]]
        full = [[m, _join("/api/:ver", p)] for m, p in users] + [[m, _join("/:tenant", p)] for m, p in users[:2]]
        sreqs = self._spell_requests(full, cap=2000)
        for k in range(0, len(sreqs), 200):
            cases.append({"kind": "server", "regs": [], "tables": [users],
                          "servers": [{"nf": False, "na": False, "cors": False, "use": False, "chain": False, "native": True, "must": False},
                                      {"nf": True, "na": True, "cors": False, "use": True, "chain": True, "native": False, "must": False}],
                          "events": [{"ev": "mount", "server": 0, "table": 0, "lo": 0, "hi": 4, "single": False, "mw": False, "tag": 0,
                                      "opts": [["prefix", "/api/:ver"], ["jwt"]]},
                                     {"ev": "mount", "server": 1, "table": 0, "lo": 0, "hi": 2, "single": True, "mw": True, "tag": 1,
                                      "opts": [["timeout"], ["prefix", "/:tenant"]]},
                                     {"ev": "start", "server": 0}, {"ev": "start", "server": 1}],
                          "reqs": [[str(i % 2)] + r for i, r in enumerate(sreqs[k:k + 200])]})
        return cases

    def _server_corpus(self):
        def g(prefix, routes, mw=False, opts=False, single=False):
            return {"prefix": prefix, "mw": mw, "opts": opts, "single": single, "routes": routes}

        def mount(server, table, n, opts, lo=0, hi=None, single=False, mw=False, tag=0):
            return {"ev": "mount", "server": server, "table": table, "lo": lo, "hi": n if hi is None else hi,
                    "single": single, "mw": mw, "tag": tag, "opts": opts}

        def srv(**kw):
            return dict({"nf": False, "na": False, "cors": False, "use": False, "chain": False, "native": False, "must": False}, **kw)
        users = [["GET", "/users/:id"], ["POST", "/users"], ["GET", "/users"]]
        old = [
            _from_groups([g("/api", [["GET", "/a/:x"], ["GET", "b"], ["POST", "/a/b/"]], mw=True, opts=True),
                          g(None, [["GET", "/a/:x"], ["OPTIONS", "/o"]], single=True),
                          g("/api/", [["PUT", "//c/../d"], ["GET", ""]], mw=True)],
                         [["GET", "/api/a/1"], ["GET", "/api/b"], ["GET", "/a/7"], ["PUT", "/api/d"], ["GET", "/api"],
                          ["POST", "/api/a/1"], ["DELETE", "/zz"], ["OPTIONS", "/o"], ["OPTIONS", "/api/b"]], use=True),
            _from_groups([g("/v1", [["GET", "/a"], ["OPTIONS", "/o"]])],
                         [["GET", "/v1/a"], ["POST", "/v1/a"], ["OPTIONS", "/v1/o"], ["OPTIONS", "/v1/a"], ["OPTIONS", "/zz"], ["GET", "/zz"]],
                         cors=True),
            _from_groups([g("/v1", [["GET", "/a"], ["GET", "/b"]]), g("/v1/", [["GET", "a/"]])], [["GET", "/v1/a"]]),
            _from_groups([g("v1", [["GET", "/a"]])], [["GET", "/v1/a"]]),
            _from_groups([g("/v1", [["FOO", "/a"]])], [["GET", "/v1/a"]]),
            _from_groups([g("", [["GET", "/a"]])], [["GET", "/a"], ["PUT", "/a"], ["GET", "/b"]], nf=True, na=True),
            _from_groups([g("/x", [["GET", "/p/:id"], ["POST", "/p"]], mw=True), g("/y", [["GET", "/p/:id"], ["PUT", "/p"]], mw=True)],
                         [["GET", "/x/p/1"], ["GET", "/y/p/2"], ["PUT", "/x/p"], ["POST", "/y/p"], ["GET", "/p/1"], ["GET", "/x/x/p/1"]]),
        ]
        base = {"kind": "server", "regs": []}
        probe = [["GET", "/v1/users/7"], ["GET", "/v2/users/8"], ["PUT", "/v1/users"], ["DELETE", "/v2/users/1"], ["GET", "/v2/v1/users/7"],
                 ["GET", "/v1/v2/users/7"], ["GET", "/users/7"], ["POST", "/v2/users"]]
        new = [
            # ONE table mounted under two prefixes on one server (the same slice value twice)
            dict(base, tables=[users], servers=[srv()],
                 events=[mount(0, 0, 3, [["prefix", "/v1"]]), mount(0, 0, 3, [["prefix", "/v2"]]), {"ev": "start", "server": 0}],
                 reqs=[["0"] + r + ["path"] for r in probe]),
            # ONE table shared by two servers under different prefixes; requests to both
            dict(base, tables=[users], servers=[srv(), srv(use=True)],
                 events=[mount(0, 0, 3, [["prefix", "/v1"]]), mount(1, 0, 3, [["timeout"], ["prefix", "/v2"]]),
                         {"ev": "start", "server": 0}, {"ev": "start", "server": 1}],
                 reqs=[[s] + r + ["path"] for s in ("0", "1") for r in probe]),
            # the first server starts before the table is mounted on the second one
            dict(base, tables=[users], servers=[srv(), srv()],
                 events=[mount(0, 0, 3, [["prefix", "/v1"]]), {"ev": "start", "server": 0}, mount(1, 0, 3, [["prefix", "/v2"]]),
                         {"ev": "start", "server": 1}],
                 reqs=[[s] + r + ["path"] for s in ("0", "1") for r in probe]),
            # plain + prefixed, overlapping sub-slices, AddRoute, two prefixes in one call, every harmless option
            dict(base, tables=[users, [["GET", "/h"], ["PUT", "/users/:id"]]],
                 servers=[srv(native=True, chain=True, use=True, must=True, ownrouter=True, files=True, extras=True)],
                 events=[mount(0, 0, 3, []), mount(0, 0, 3, [["prefix", "/v1"], ["sse"], ["jwt"], ["sig"]], lo=0, hi=2),
                         mount(0, 0, 3, [["priority"], ["prefix", "/v2"], ["maxbytes"]], lo=1, hi=3, single=True),
                         mount(0, 1, 2, [["prefix", "/in"], ["prefix", "/out"]], mw=True, tag=3),
                         mount(0, 1, 2, [["jwt2"], ["prefix", "/v1"]], lo=1, hi=2), {"ev": "start", "server": 0}],
                 reqs=[["0"] + r + ["path"] for r in probe + [["GET", "/static/x.css"], ["GET", "/out/in/h"], ["GET", "/in/out/h"], ["PUT", "/v1/users/3"],
                                                             ["GET", "/v2/users"], ["GET", "/v1/users"], ["PUT", "/out/in/users/9"]]]),
            # same table twice under the same prefix: Start must die with the duplicate
            dict(base, tables=[users], servers=[srv()],
                 events=[mount(0, 0, 3, [["prefix", "/v1"]]), mount(0, 0, 3, [["prefix", "/v1/"]]), {"ev": "start", "server": 0}],
                 reqs=[["0", "GET", "/v1/users", "path"]]),
            # prefix with a variable / needing cleaning / unrooted route paths made rooted by the prefix
            dict(base, tables=[[["GET", "items/:id"], ["GET", ""], ["POST", "/"], ["GET", "../up"]]], servers=[srv(nf=True, na=True)],
                 events=[mount(0, 0, 4, [["prefix", "/t/:tenant"]]), mount(0, 0, 4, [["prefix", "/x/./y//"]], lo=0, hi=3),
                         {"ev": "start", "server": 0}],
                 reqs=[["0", "GET", "/t/acme/items/5", "path"], ["0", "GET", "/t/acme", "path"], ["0", "POST", "/t/acme", "path"],
                       ["0", "GET", "/t/up", "path"], ["0", "GET", "/x/y/items/5", "path"], ["0", "PUT", "/x/y", "path"],
                       ["0", "GET", "/t/acme/up", "path"], ["0", "GET", "/t", "path"], ["0", "GET", "/t/a%2Fb/items/5", "raw"]]),
        ]
        late = [
            # the handler of the first request is parked, the route timeout answers 503 for it, other requests with
            # variables (a plain one, a 405 probe, a concurrent batch) are served, then the handler looks again
            dict(base, tables=[[["GET", "/users/:id/orders/:order"]], [["GET", "/users/:id/profile/:section"], ["GET", "/teams/:id"]]],
                 servers=[srv(native=True, must=True)],
                 events=[mount(0, 0, 1, [["shorttimeout"]], single=True), mount(0, 1, 2, []), {"ev": "start", "server": 0}],
                 reqs=[["0", "GET", "/users/alice/orders/42", "path", "hold"], ["0", "GET", "/teams/red", "path", ""],
                       ["0", "POST", "/teams/blue", "path", ""], ["0", "GET", "/users/bob/profile/settings", "path", "c1"],
                       ["0", "GET", "/teams/green", "path", "c1"], ["0", "GET", "/users/carol/orders/7", "path", "hold"],
                       ["0", "GET", "/users/dave/profile/x", "path", ""]]),
        ]
        own = [
            # the user's own router (rest.WithRouter, a recording wrapper): Start hands it the union of the prefix-extended
            # tables in the order written; the first rejected route ends the binding (duplicate across two mounts)
            dict(base, tables=[users, [["GET", "/h"], ["FOO", "/bad"], ["PUT", "/users/:id"]]],
                 servers=[srv(ownrouter=True, nf=True, na=True), srv(ownrouter=True, cors=True), srv(ownrouter=True)],
                 events=[mount(0, 0, 3, [["prefix", "/v1"]]), mount(0, 1, 3, [["prefix", "/v1"]], lo=2, hi=3), mount(0, 0, 3, []),
                         mount(1, 0, 3, [["jwt"], ["prefix", "/x"]]), mount(1, 0, 3, [["prefix", "/x/"]], lo=1, hi=2), mount(1, 1, 3, [], lo=0, hi=1),
                         mount(2, 1, 3, [["prefix", "/p"]]), {"ev": "start", "server": 0}, {"ev": "start", "server": 1}, {"ev": "start", "server": 2}],
                 reqs=[["0", "GET", "/v1/users/7", "path"], ["0", "PUT", "/v1/users/7", "path"], ["0", "DELETE", "/v1/users/7", "path"],
                       ["0", "GET", "/nope", "path"], ["1", "GET", "/x/users", "path"], ["2", "GET", "/p/h", "path"]]),
            # WithRouter given LAST: the handlers and CORS set up by the earlier options belong to the replaced router
            dict(base, tables=[users], servers=[srv(ownrouter_last=True, nf=True, na=True, cors=True, files=True, use=True), srv(nf=True, na=True)],
                 events=[mount(0, 0, 3, [["prefix", "/v1"]]), mount(1, 0, 3, [["prefix", "/v1"]]), {"ev": "start", "server": 0}, {"ev": "start", "server": 1}],
                 reqs=[[sv] + r + ["path"] for sv in ("0", "1") for r in probe + [["OPTIONS", "/v1/users"], ["GET", "/static/x.css"]]]),
            # method names at server level: Start must die on every table whose method is not one of the seven, byte for byte
            dict(base, tables=[[["GET", "/m/:v"], [m, "/m/:v"]] for m in ("get", "Get", "TRACE", "", "GET ", "CONNECT", "PROPFIND", "HEAD")],
                 servers=[srv(ownrouter=(i % 2 == 0)) for i in range(8)],
                 events=[mount(i, i, 2, [["prefix", "/p"]]) for i in range(8)] + [{"ev": "start", "server": i} for i in range(8)],
                 reqs=[[str(i), "GET", "/p/m/1", "path"] for i in range(8)] + [["7", "HEAD", "/p/m/1", "path"], ["7", "get", "/p/m/1", "path"]]),
        ]
        return old + new + late + own

    # names as inputs: segments and parameter names some layer might special-case
    SEGS_ODD = ["ab", ":", "a:b", "...", ":xy", "é", "日本", "a b", "%2F", "*", "~", "A", ":X", "x" * 300,
                ":id", ":ID", ":a-b", ":a.b", ":*", "::", "%3A", "%3Ax", "%2e%2e", "..a", "a..", ".a", " ", "+", "a+b", ";", "a;b=c",
                "@", "$", "&", "=", "a=b", "index.html", "favicon.ico", "*.js", "{id}", "<id>", "?", "#", "%", "%zz", "\\", "null", "0"]

    def _pattern(self, rng, names, wfbias):
        depth = rng.choice([0, 1, 1, 2, 2, 2, 3, 3, 4])
        segs = []
        for _ in range(depth):
            r = rng.random()
            if r < 0.40:
                s = rng.choice(["a", "a", "b"])
            elif r < 0.80:
                s = rng.choice([":x", ":y"])
                if wfbias:
                    s = names.setdefault(tuple(segs), s)
            elif r < 0.87:
                s = ""
            elif r < 0.91:
                s = "."
            elif r < 0.95:
                s = ".."
            else:
                s = rng.choice(self.SEGS_ODD)
            segs.append(s)
        p = "/" + "/".join(segs)
        r = rng.random()
        if r < 0.04:
            p = p[1:]            # not rooted (possibly empty)
        elif r < 0.10:
            p = p + "/"
        return p

    def _reqpath(self, rng, regs):
        r = rng.random()
        if regs and r < 0.65:
            c = _clean(rng.choice(regs)[1]) or [""]
            # a variable position is filled with an ordinary value, or (C09-11) with the pattern's OWN spelling / another
            # pattern-like spelling: `:name` matches any single segment, also one that looks like a pattern segment
            def fill(s):
                f = rng.random()
                if f < 0.12:
                    return s
                if f < 0.17:
                    return rng.choice(self.SPELLINGS + [x for x in _clean(rng.choice(regs)[1]) or [""] if x])
                return rng.choice(["a", "b", "c", "1", "é", "a b", ":x", "%2F"])
            segs = [(fill(s) if s.startswith(":") else s) for s in c]
            m = rng.random()
            if m < 0.15 and segs:
                segs[rng.randrange(len(segs))] = rng.choice(["a", "b", "c", "a", "b", "c", ":x", ":y"])
            elif m < 0.22:
                segs.append(rng.choice(["a", "b", "c"]))
            elif m < 0.29 and segs:
                segs.pop()
            elif m < 0.34 and segs:      # segments are compared byte for byte: another case is another segment
                i = rng.randrange(len(segs))
                segs[i] = segs[i].swapcase()
            # decorate with things path.Clean removes
            out = []
            for s in segs:
                d = rng.random()
                if d < 0.06:
                    out.append("")
                elif d < 0.10:
                    out.append(".")
                elif d < 0.14:
                    out += [rng.choice(["a", "zz"]), ".."]
                out.append(s)
            p = "/" + "/".join(out)
            if rng.random() < 0.1:
                p += "/"
            return p
        if r < 0.95:
            depth = rng.choice([0, 1, 1, 2, 2, 3, 4])
            segs = [rng.choice(["a", "a", "b", "b", "c", "", ".", "..", ":x"]) for _ in range(depth)]
            return "/" + "/".join(segs)
        return rng.choice(["", "a", "a/b", ".", "../a", "*"])

    RAW_SAFE = set("abcdefghijklmnopqrstuvwxyzABCDEFGHIJKLMNOPQRSTUVWXYZ0123456789/-._~:*")

    def _raw(self, rng, p):
        """a request target that net/http decodes to the path p: some bytes percent-encoded (always those that
        are not allowed raw), sometimes with a query"""
        if not p.startswith("/"):
            return None
        out = []
        for b in p.encode("utf-8"):
            ch = chr(b)
            if ch not in self.RAW_SAFE or rng.random() < 0.15:
                out.append("%%%02X" % b if rng.random() < 0.7 else "%%%02x" % b)
            else:
                out.append(ch)
        t = "".join(out)
        if not t.startswith("/"):
            t = "/" + t[3:]        # the leading slash must stay literal
        if rng.random() < 0.15:
            t += rng.choice(["?q=1", "?p=/a/b", "?"])
        return t

    def _request(self, rng, regs, methods):
        """[method, target, mode]"""
        m = rng.choice(methods)
        r = rng.random()
        if r < 0.06:
            m = rng.choice(["FOO", "HEAD", "get", "TRACE", "OPTIONS", "PATCH", "CONNECT"])
        p = self._reqpath(rng, regs)
        if rng.random() < 0.2 and m not in ("CONNECT", ""):
            t = self._raw(rng, p)
            if t is not None:
                return [m, t, "raw"]
        return [m, p, "path"]

    def _generalise(self, rng, base, names):
        """a pattern obtained from the literal path [base] by turning some segments into variables
        (named consistently per prefix) and possibly breaking or extending its tail: such patterns
        share prefixes with [base] and make Search enter branches that fail further down"""
        segs = []
        for s in base:
            if rng.random() < 0.45:
                s = names.setdefault(tuple(segs), rng.choice([":x", ":y", ":z"]))
            segs.append(s)
        r = rng.random()
        if r < 0.25 and segs:
            segs[-1] = rng.choice(["a", "b", "c"])
        elif r < 0.40:
            segs.append(rng.choice(["a", "b", ":x", ":y"]) if rng.random() < 0.5
                        else names.setdefault(tuple(segs), ":z"))
        elif r < 0.50 and len(segs) > 1:
            segs.pop()
        return "/" + "/".join(segs)

    def _table(self, rng, methods=None):
        wfbias = rng.random() < 0.7
        nreg = rng.randint(1, 12)
        nmeth = rng.choice([1, 2, 2, 3, 4])
        pool = methods or (METHODS if rng.random() < 0.8 else ALL_METHODS)
        meths = rng.sample(pool, min(nmeth, len(pool)))
        regs = []
        per_method_names = {}
        base = None
        if rng.random() < 0.35:
            base = [rng.choice(["a", "b", "c"]) for _ in range(rng.choice([2, 3, 3, 4]))]
        for _ in range(nreg):
            m = rng.choice(meths)
            if rng.random() < 0.05:
                m = rng.choice(BAD_METHODS)
            names = per_method_names.setdefault(m, {})
            if regs and rng.random() < 0.08:
                p = rng.choice(regs)[1]          # duplicate
            elif base and rng.random() < 0.8:
                p = self._generalise(rng, base, names)
            else:
                p = self._pattern(rng, names, wfbias)
            regs.append([m, p])
        return regs, base

    def gen(self, rng, n, tier):
        cases = []
        for _ in range(n):
            regs, base = self._table(rng)
            reqs = []
            ms = sorted(set(m for m, _ in regs if m in ALL_METHODS)) or METHODS
            if base:
                reqs.append([rng.choice(ms), "/" + "/".join(base), "path"])
                reqs.append([rng.choice(ms), "/" + "/".join(base[:-1] + [rng.choice(["a", "b", "c"])]), "path"])
            for _ in range(rng.randint(4, 14)):
                reqs.append(self._request(rng, regs, METHODS if rng.random() < 0.7 else ms))
            self._batches(rng, reqs)
            self._decorate(rng, reqs, len(regs))
            c = rng.random()
            cases.append({"nf": c < 0.1, "na": 0.05 < c < 0.15, "regs": regs, "reqs": reqs})
        # cases of kind "target": every request a raw request line in a random (legal or illegal) encoding
        for _ in range(max(1, n // 12)):
            regs, base = self._table(rng)
            ms = sorted(set(m for m, _ in regs if m in ALL_METHODS)) or METHODS
            reqs = []
            for _ in range(rng.randint(4, 12)):
                p = self._reqpath(rng, regs)
                if not p.startswith("/"):
                    continue
                lower = rng.random() < 0.4
                rate = rng.choice([0.0, 0.1, 0.3, 1.0])
                segs = [self._enc(x, lambda i, b: b >= 0x80 or rng.random() < rate, lower) for x in p[1:].split("/")]
                t = "/" + "/".join(segs)
                r = rng.random()
                if r < 0.1:
                    t = t.replace("/", rng.choice(["%2F", "%2f"]), 1) if t.count("/") > 1 and False else t + rng.choice(["?", "?a=%zz", "?/x"])
                elif r < 0.15:
                    t += rng.choice(["%", "%4", "%zz", "%2e", "%2F", "/%2e%2e"])
                reqs.append([rng.choice(ms + METHODS), t, "raw"])
            if reqs:
                c = rng.random()
                cases.append({"kind": "target", "nf": c < 0.1, "na": 0.05 < c < 0.15, "regs": regs, "reqs": reqs})
        nserver = max(1, n // 3)
        for _ in range(nserver):
            cases.append(self._server_case(rng))
        if tier == "thorough":
            cases += self._exhaustive()
        # the FIXED families (independent of the seed, part of every run): spread evenly over the generated cases, because
        # the Coq evaluation shards the case list contiguously and all corpus() cases already sit in the first shard
        fixed = self._fixed_families() if tier in ("quick", "thorough") else []   # not in the search / -race re-runs
        for i, c in enumerate(fixed):
            cases.insert((i + 1) * len(cases) // (len(fixed) + 1), c)
        return cases

    def _heavy_cases(self):
        """unusual request targets; a 120-segment pattern; 1500- and 4000-byte segments, 800-segment paths.  Three separate
        cases outside corpus(): one coqc shard holding them all (and the whole corpus) was by far the largest process of a run and
        the first victim when the machine ran out of memory"""
        small = [["GET", "/a/:x/c"], ["GET", "/a/b"], ["GET", "/é/:名"], ["POST", "/a b/:x"], ["GET", "/%2F/:x"], ["GET", "/:x/:y/:z/:w"],
                 ["PUT", "/a:b/:"], ["GET", "/*"]]
        deep = "/" + "/".join(["s%d" % i for i in range(120)])
        return [
            {"nf": False, "na": False, "regs": small,
             "reqs": [["GET", "/a/x%2Fy/c", "raw"], ["GET", "/a/%62", "raw"], ["GET", "/a/b?x=/c/d", "raw"], ["GET", "/a/b#f", "raw"],
                      ["GET", "/a/%2e%2e/a/b", "raw"], ["GET", "/a/./b/", "raw"], ["GET", "//a//b//", "raw"], ["GET", "/a/../../a/b", "raw"],
                      ["GET", "/%C3%A9/v%C3%A4rde", "raw"], ["GET", "/é/värde"], ["GET", "/é/日本"], ["POST", "/a%20b/1", "raw"], ["POST", "/a b/1"],
                      ["GET", "/%252F/1", "raw"], ["GET", "/%2F/1", "raw"], ["GET", "/%2F/1"], ["GET", "http://other.host/a/b", "raw"],
                      ["GET", "/a/b/c/d"], ["GET", "/a/b/c/d/e"], ["PUT", "/a:b/1"], ["PUT", "/a:b/"], ["GET", "/*"], ["GET", "/x"],
                      ["GET", "/a/:x/c"], ["GET", "/a/%3Ax/c", "raw"], ["GET", "/a//c"], ["GET", "/a/ /c"]]},
            {"nf": False, "na": False, "regs": [["GET", deep + "/:last"], ["GET", "/a/b"], ["POST", deep]],
             "reqs": [["GET", deep + "/end"], ["GET", deep[:-4] + "/x/end"], ["PUT", deep + "/end"], ["POST", deep + "/"], ["GET", deep],
                      ["GET", "/" + "../" * 400 + "a/b"], ["GET", "/" + "z/" * 400 + "../" * 400 + "a/b", "raw"]]},
            {"nf": False, "na": False, "regs": [["GET", "/" + "L" * 1500], ["GET", "/a/:x/c"]],
             "reqs": [["GET", "/" + "L" * 1500], ["GET", "/" + "L" * 1499], ["POST", "/" + "L" * 1500], ["GET", "/a/" + "v" * 4000 + "/c"]]},
        ]

    def _fixed_families(self):
        return self._heavy_cases() + self._spelling_cases() + self._cleaning_cases() + self._escape_cases()

    # ---- request targets in non-default encodings (seed C09-12): cases of kind "target" - every request is a raw request
    # line, the model derives URL.Path / URL.RawPath from the target itself and the response is judged against the path
    # the MODEL decoded --------------------------------------------------------------------------------------------
    UNRESERVED = set("abcdefghijklmnopqrstuvwxyzABCDEFGHIJKLMNOPQRSTUVWXYZ0123456789-._~")

    def _enc(self, seg, which, lower):
        """seg with the characters selected by which(i, code point) percent-encoded, byte by byte (those that cannot stand
        raw on a request line always); an unselected non-ASCII character goes on the wire as its UTF-8 bytes"""
        out = []
        for i, ch in enumerate(seg):
            o = ord(ch)
            if which(i, o) or o <= 0x20 or o == 0x7f or ch in "?%#":
                out.append("".join(("%%%02x" if lower else "%%%02X") % b for b in ch.encode("utf-8")))
            else:
                out.append(ch)
        return "".join(out)

    def _escape_variants(self, path):
        """spellings of one path: default encoding; every single unreserved character escaped (upper / lower hex);
        everything escaped; non-ASCII canonical, lower-case hex and raw bytes; '.' of dot segments as %2e / %2E; '/' as %2F / %2f"""
        segs = path[1:].split("/")
        vs = []
        join = lambda ss: "/" + "/".join(ss)
        non_ascii = lambda i, b: b >= 0x80
        vs.append(join([self._enc(x, non_ascii, False) for x in segs]))       # Go's default encoding
        vs.append(join([self._enc(x, non_ascii, True) for x in segs]))        # lower-case hex
        vs.append(join([self._enc(x, lambda i, b: False, False) for x in segs]))   # raw UTF-8 bytes on the request line
        vs.append(join([self._enc(x, lambda i, b: True, False) for x in segs]))
        vs.append(join([self._enc(x, lambda i, b: True, True) for x in segs]))
        for k, x in enumerate(segs):
            for i in range(min(len(x), 6)):
                for lower in (False, True):
                    y = self._enc(x, lambda j, b, i=i: j == i or b >= 0x80, lower)
                    vs.append(join(segs_enc(segs, k, y, self, non_ascii)))
        for k in range(1, len(segs)):       # one separator as an encoded slash
            for sl in ("%2F", "%2f"):
                enc = [self._enc(x, non_ascii, False) for x in segs]
                vs.append("/" + "/".join(enc[:k]) + sl + "/".join(enc[k:]))
        seen, out = set(), []
        for v in vs:
            if v not in seen:
                seen.add(v)
                out.append(v)
        return out

    def _escape_cases(self):
        t = [["GET", "/files/readme"], ["GET", "/files/:name"], ["GET", "/docs/café"], ["POST", "/docs/:d"], ["GET", "/a/:x/b"], ["GET", "/b"],
             ["PUT", "/a/b"], ["DELETE", "/files/:name/raw"], ["GET", "/~u/a-b_c.d"], ["GET", "/日本/:名"]]
        paths = ["/files/readme", "/docs/café", "/a/../b", "/a/./b", "/files/x/raw", "/a/1/b", "/~u/a-b_c.d", "/日本/語", "/files/a b", "/files/50%",
                 "/files/..", "/a/.../b", "/files/re/adme", "/b/", "/files//readme"]
        targets = []
        for p in paths:
            targets += self._escape_variants(p)
        targets += ["/files/%2e", "/files/%2E/readme", "/a/%2e%2e/b", "/a/%2E%2e/b", "/a/.%2e/b", "/a/%2e./b", "/a/%2e%2e%2fb", "/%2e%2e/b", "/a/x/%2e%2e/%2E%2E/b",
                    "/files/readme?%72", "/files/readme%3F", "/files/readme%3f?", "/files/%zz", "/files/%7", "/files/%", "/files/%%", "/files/%G0", "/files/%0g",
                    "/files/%00", "/files/%7F", "/files/+", "/files/%2B", "/files/a+b", "/files/!*'()", "/files/%21%2A",
                    "/files/[x]", "/files/%5Bx%5D", "/files/{x}", "/files/a|b", "/files/^", "/files/`", "/files/a\\b", "/files/%5C", "/files/\"q\"", "/files/<x>",
                    "/files/$&,;:=@", "/files/%24%26%2C%3B%3A%3D%40", "/docs/cafe%CC%81", "/docs/caf%C3%A9/", "/docs/caf%c3%A9"]
        # (targets that decode to invalid UTF-8 are left out: the executor reports paths as JSON strings)
        seen, uniq = set(), []
        for x in targets:
            if x not in seen:
                seen.add(x)
                uniq.append(x)
        cases = []
        for i in range(0, len(uniq), 60):
            cases.append({"kind": "target", "nf": False, "na": False, "regs": t,
                          "reqs": [[m, x, "raw"] for x in uniq[i:i + 60] for m in (("GET", "POST") if (len(x) % 3) else ("GET",))]})
        # the raw-target family (f) once more, judged from the target itself (origin-form targets only)
        for c in self._cleaning_cases():
            if c["reqs"] and c["reqs"][0][2] == "raw":
                reqs = [rq for rq in c["reqs"] if rq[1].startswith("/") and " " not in rq[1]]
                cases.append(dict(c, kind="target", reqs=reqs))
        return cases

    # ---- deterministic families for the other seeded classes (each seed of seeded/C09-* is caught by one of them,
    # whatever VERIF_SEED is) -------------------------------------------------------------------------------------
    ROOTS = ["/", "//", "/.", "/./", "/..", "/a/..", "/a/../", "/a/b/../..", "/../..", "/.//."]

    def _cleaning_cases(self):
        R = lambda regs, reqs: {"nf": False, "na": False, "regs": regs, "reqs": [list(r) + ["path"] for r in reqs]}
        every = lambda paths, ms=ALL_METHODS: [[m, p] for p in paths for m in ms]
        tails = lambda p: [p, p + "/", p + "//", p + "/.", p + "/./", p + "/x/..", p + "/x/../", "/" + p, p.replace("/", "//"), "/." + p]
        cases = []
        # (a) the root path is ONE EMPTY segment: a top-level variable route matches it (name bound to ""), for dispatch and
        #     for the Allow set alike; with and without a literal "/" route of some method (seeds C09-8, C09-10)
        cases.append(R([["POST", "/:id"], ["PUT", "/:id"], ["PUT", "/"], ["DELETE", "/:id/x"], ["PATCH", "/"]], every(self.ROOTS + ["/7", "/7/"])))
        cases.append(R([["GET", "/:name"], ["HEAD", "/:name/:rest"]], every(self.ROOTS + ["/7", "/7/8/"], ["GET", "HEAD", "POST"])))
        # (b) trailing slash / empty / dot segments in REQUESTS below inner nodes and variable-last routes (seed C09-4)
        t = [["GET", "/files/:name"], ["POST", "/files/:name"], ["DELETE", "/files"], ["GET", "/dir/sub/leaf"], ["PUT", "/dir/:x/leaf"],
             ["GET", "/v/:a/:b"]]
        paths = [q for p in ("/files", "/files/7", "/dir", "/dir/sub", "/dir/sub/leaf", "/v", "/v/1", "/v/1/2") for q in tails(p)]
        for i in range(0, len(paths), 20):
            cases.append(R(t, every(paths[i:i + 20], ["GET", "POST", "PUT", "DELETE"])))
        # (c) PATTERNS that need cleaning, each alone in its method at its depth (seed C09-9), and duplicates after cleaning
        t = [["GET", "/users/:id/"], ["POST", "/orders/./:oid/items"], ["PUT", "//a"], ["DELETE", "/a/b/../c"], ["PATCH", "/x/y/z/../../.."],
             ["HEAD", "/h//:v//"], ["OPTIONS", "/."], ["GET", "/users/:id"], ["PUT", "/a/"], ["DELETE", "/a//c"], ["OPTIONS", "/"]]
        cases.append(R(t, every(["/users/7", "/users/7/", "/orders/9/items", "/a", "/a/c", "/", "/h/1", "/x", "/users//7", "/a/b/c"])))
        # (d) registration ORDER: a pattern registered after longer patterns it is a prefix of (seed C09-5); re-registering
        #     any of them is a duplicate
        t = [["GET", "/api/users/:id/profile"], ["GET", "/api/users/:id"], ["GET", "/files/static/css"], ["GET", "/files/static"],
             ["POST", "/a/b/c/d"], ["POST", "/a/b/c"], ["POST", "/a/b"], ["POST", "/a"], ["POST", "/"], ["PUT", "/:x/:y/:z"], ["PUT", "/:x/:y"],
             ["PUT", "/:x"], ["GET", "/api/users/:id/profile"], ["GET", "/files/static/css"], ["POST", "/a/b/c/d"], ["PUT", "/:x/:y/:z"]]
        cases.append(R(t, every(["/api/users/7/profile", "/api/users/7", "/files/static/css", "/files/static", "/a/b/c/d", "/a/b/c", "/a/b", "/a",
                                 "/", "/1/2/3", "/1/2", "/1"], ["GET", "POST", "PUT", "DELETE"])))
        # (e) several patterns match one path under different methods: Allow is the set over ALL of them (seed C09-6)
        t = [["GET", "/users/me"], ["POST", "/users/:id"], ["PUT", "/:a/me"], ["DELETE", "/users/:id"], ["PATCH", "/:a/:b"], ["HEAD", "/users/me"],
             ["GET", "/:a/x"], ["POST", "/y/:b"]]
        cases.append(R(t, every(["/users/me", "/users/7", "/x/me", "/x/y", "/y/x", "/users"], ALL_METHODS + ["TRACE"])))
        # (f) request TARGETS as a client sends them (parsed by net/http like a request line): query strings and
        #     ;parameters with '/' and ':' in them, '?' alone, encoded '/', ':' , '.', '%' in segments, absolute-URI form.
        #     The router must route by URL.Path only: nothing after '?' takes part, an encoded '/' IS a separator once decoded
        t = [["GET", "/users/:id"], ["GET", "/users/:id/posts/:pid"], ["POST", "/users"], ["GET", "/q"], ["PUT", "/a;b/:v"], ["DELETE", "/users/:id"]]
        targets = []
        for p in ("/users/7", "/users/7/posts/9", "/users", "/q", "/a;b/1", "/users/7/", "/users//7"):
            targets += [p + x for x in ("", "?", "?x=1", "?p=/users/8", "?:id=9&/", "?a=b?c=d", ";v=1", ";/x", "%3Fx=1", "%23f", "/?x", "/.?x", "/..?x")]
        targets += ["/users/a%2Fb", "/users/%2e%2e", "/users/%2E", "/users/7%2Fposts%2F9", "/users/%3Aid", "/users/%253Aid", "/%75sers/7", "/users/7%20",
                    "/users/%00", "http://h/users/7?x", "http://h", "http://h?x=/users/7", "//h/users/7", "/users/7?%zz", "/users/%zz", "*"]
        for i in range(0, len(targets), 36):
            cases.append({"nf": False, "na": False, "regs": t, "reqs": [[m, x, "raw"] for x in targets[i:i + 36] for m in ("GET", "POST")]})
        return cases

    def _decorate(self, rng, reqs, nregs=None):
        """more tokens on the flag (last element) of requests: a parked handler parks BEFORE its first read ("pre");
        the handler answers itself (do=201/404/405/500/panic); the handler writes into the vars map it got (scrib);
        router kind: the request is served after only k of the Handle calls (after=k), k non-decreasing"""
        bad = 0
        for rq in reqs:
            toks = [t for t in rq[-1].split("+") if t]
            parked = any(t == "hold" or t.startswith("c") for t in toks)
            if parked and rng.random() < 0.4:
                toks.append("pre")
            if not parked and rng.random() < 0.05:
                toks.append("scrib")
            if not any(t == "hold" for t in toks) and rng.random() < 0.07:
                do = rng.choice(["201", "404", "405", "500", "panic"])
                if do in ("500", "panic"):
                    bad += 1
                if bad <= 2 or do not in ("500", "panic"):
                    toks.append("do=" + do)
            rq[-1] = "+".join(toks)
        # what a handler does to the map it was given must not show in a later request for the same path
        for rq in [rq for rq in reqs if "scrib" in rq[-1].split("+")]:
            reqs.append(rq[:-1] + [""])
        if nregs is not None and nregs > 0 and rng.random() < 0.35:
            # groups = single requests or whole concurrent batches
            groups, prev = [], None
            for rq in reqs:
                c = next((t for t in rq[-1].split("+") if t.startswith("c")), None)
                if c is not None and c == prev:
                    groups[-1].append(rq)
                else:
                    groups.append([rq])
                prev = c
            ks = sorted(rng.choice([rng.randint(0, nregs), nregs]) for _ in groups)
            for g, k in zip(groups, ks):
                for rq in g:
                    rq[-1] = "+".join([t for t in rq[-1].split("+") if t] + ["after=%d" % k])

    def _batches(self, rng, reqs):
        """mark runs of consecutive requests as concurrent batches (flag c<n> = last element)"""
        for rq in reqs:
            rq.append("")
        if len(reqs) >= 3 and rng.random() < 0.35:
            n = rng.randint(2, min(5, len(reqs)))
            i = rng.randrange(len(reqs) - n + 1)
            for rq in reqs[i:i + n]:
                if rq[-1] == "":
                    rq[-1] = "c1"

    PREFIXES = ["", "/", "/api", "/api/", "/v1", "/v2", "/v1/a", "/a", "/b", "/:x", "/a/:y", "/api/../a", "api", "/é", "/v1//x/."]

    def _server_case(self, rng):
        good = rng.random() < 0.8      # mostly tables that Start can bind
        ntab = rng.choice([1, 1, 2, 2, 3])
        tables = []
        for _ in range(ntab):
            regs, _ = self._table(rng)
            if good:
                seen, keep = set(), []
                for m, p in regs:
                    if m not in ALL_METHODS:
                        continue
                    if not p.startswith("/") and rng.random() < 0.7:
                        p = "/" + p
                    key = (m, tuple(_clean("/" + p) or []))
                    if key in seen:
                        continue
                    seen.add(key)
                    keep.append([m, p])
                regs = keep or [["GET", "/a"]]
            if rng.random() < 0.15:   # OPTIONS / HEAD routes (valid methods; OPTIONS interacts with CORS)
                regs.append([rng.choice(["OPTIONS", "HEAD"]), rng.choice(["/o", "/a", "/:x"])])
            tables.append(regs[:8])
        nsrv = rng.choice([1, 1, 2, 2, 3])
        servers = []
        for _ in range(nsrv):
            c = rng.random()
            servers.append({"cors": c < 0.15, "nf": 0.15 < c < 0.35 and rng.random() < 0.6, "na": 0.15 < c < 0.35 and rng.random() < 0.6,
                            "use": rng.random() < 0.3, "chain": rng.random() < 0.15, "native": rng.random() < 0.25,
                            "must": rng.random() < 0.2, "ownrouter": rng.random() < 0.2, "ownrouter_last": rng.random() < 0.06, "corskind": rng.randrange(3),
                            "files": rng.random() < 0.12, "extras": rng.random() < 0.12, "scribble": rng.random() < 0.2})
        nmount = rng.randint(1, 5)
        mounts = []
        used = {}
        for k in range(nmount):
            s = rng.randrange(nsrv)
            # re-mounting a table that is already mounted somewhere is the interesting case
            t = rng.choice([m["table"] for m in mounts]) if mounts and rng.random() < 0.6 else rng.randrange(ntab)
            n = len(tables[t])
            lo, hi = 0, n
            if n > 1 and rng.random() < 0.25:
                lo = rng.randrange(n)
                hi = rng.randint(lo + 1, n)
            opts = []
            if rng.random() < 0.85:
                taken = used.setdefault(s, set())
                pre = rng.choice(self.PREFIXES)
                if good:
                    free = [p for p in self.PREFIXES if p not in taken and p != "api"]
                    pre = rng.choice(free) if free else "/m%d" % k
                taken.add(pre)
                opts.append(["prefix", pre])
                if rng.random() < 0.12:
                    opts.append(["prefix", rng.choice(["/p", "/q/", "/:p"])])
            for o in ("timeout", "maxbytes", "priority", "sse", "jwt", "jwt2", "sig"):
                if rng.random() < 0.1:
                    opts.append([o])
            rng.shuffle(opts)
            mounts.append({"ev": "mount", "server": s, "table": t, "lo": lo, "hi": hi, "single": rng.random() < 0.15,
                           "mw": rng.random() < 0.25, "tag": k, "opts": opts})
        # Start of every server once, somewhere after its last mount
        events = list(mounts)
        for s in range(nsrv):
            last = max([i for i, e in enumerate(events) if e["ev"] == "mount" and e["server"] == s], default=-1)
            pos = len(events) if rng.random() < 0.6 else rng.randint(last + 1, len(events))
            if last > 0 and rng.random() < 0.06:
                pos = rng.randint(1, last)      # Start before the last mount(s): those are never bound
            events.insert(pos, {"ev": "start", "server": s})
        case = {"kind": "server", "regs": [], "tables": tables, "servers": servers, "events": events}
        # requests: derived from the routes of the addressed server, of the other servers, from the tables as written,
        # and from prefixes stacked on each other
        per = [_server_regs(case, s) for s in range(nsrv)]
        written = [r for t in tables for r in t]
        prefixes = [o[1] for e in mounts for o in e["opts"] if o[0] == "prefix"] or [""]
        stacked = [[m, _join(rng.choice(prefixes), p)] for rs in per for m, p in rs][:20]
        reqs = []
        for _ in range(rng.randint(5, 14)):
            s = rng.randrange(nsrv)
            r = rng.random()
            pool = per[s] if r < 0.6 else (rng.choice(per) if r < 0.75 else (stacked if r < 0.9 else written))
            ms = sorted(set(m for m, _ in per[s] if m in ALL_METHODS)) or METHODS
            reqs.append([str(s)] + self._request(rng, pool, ms + ["OPTIONS"] if servers[s]["cors"] else ms + METHODS))
        # a handler that outlives its request: the route timeout (rest's timeout middleware, native chain) answers
        # 503 for a request whose handler is parked; other requests are served; then the handler reads its variables
        held = []
        if rng.random() < 0.15:
            cands = [e for e in mounts if any(":" in p for _, p in tables[e["table"]][e["lo"]:e["hi"]])]
            if cands:
                e = rng.choice(cands)
                s = e["server"]
                servers[s].update(native=True, chain=False)
                e["opts"] = [o for o in e["opts"] if o[0] not in ("timeout", "sse")] + [["shorttimeout"]]
                mine = _server_regs({"tables": tables, "events": [e], "servers": servers}, s)
                mine = [r for r in mine if ":" in r[1] and r[0] in ALL_METHODS and _clean(r[1]) is not None]
                for m, p in rng.sample(mine, min(len(mine), rng.choice([1, 1, 2]))):
                    segs = [(rng.choice(["alice", "bob", "42", "é"]) if x.startswith(":") else x) for x in _clean(p)]
                    held.append([str(s), m, "/" + "/".join(segs), "path", "hold"])
        self._batches(rng, reqs)
        case["reqs"] = held + reqs
        self._decorate(rng, case["reqs"])
        return case

    def _exhaustive(self):
        """every table of two GET routes (+ one POST route) over patterns of depth <= 2 on {a,b,:x,:y},
        against every path of depth <= 2 on {a,b,c} plus the root"""
        alpha = ["a", "b", ":x", ":y"]
        pats = ["/"] + ["/" + s for s in alpha] + ["/%s/%s" % (s, t) for s in alpha for t in alpha]
        paths = ["/"] + ["/" + s for s in "abc"] + ["/%s/%s" % (s, t) for s in "abc" for t in "abc"]
        reqs = [["GET", p] for p in paths] + [["POST", "/a/b"], ["PUT", "/a"], ["PUT", "/c/c"]]
        cases = []
        for p, q in itertools.product(pats, pats):
            cases.append({"nf": False, "na": False, "regs": [["GET", p], ["GET", q], ["POST", "/:x/b"]], "reqs": reqs})
        # three routes of depth exactly 3 sharing prefixes: backtracking over two levels
        a3 = ["a", ":x"]
        pats3 = ["/%s/%s/%s" % t for t in itertools.product(a3, a3, ["a", "b", ":x"])]
        paths3 = [["GET", "/%s/%s/%s" % t] for t in itertools.product("ac", "ac", "abc")]
        for t in itertools.combinations(pats3, 3):
            cases.append({"nf": False, "na": False, "regs": [["GET", p] for p in t], "reqs": paths3})
        return cases

    # ---- execution / rendering -----------------------------------------------
    def execute(self, cases, ctx):
        rc, out, res = vlib.go_run(self.bin, cases, tag="c09", timeout=900)
        if rc != 0 or len(res) != len(cases):
            raise ExecError("c09 executor rc=%s: %s" % (rc, out[-2000:]))
        for r in res:
            if r.get("err"):
                raise ExecError("c09 executor: case %s: %s" % (r.get("id"), r["err"]))
        return [{"regerr": r["regerr"], "pclean": r["pclean"], "res": r["res"],
                 "starts": r.get("starts") or [], "routes": r.get("routes") or [], "printed": r.get("printed") or [],
                 "tables_after": r.get("tables_after") or [], "bound": r.get("bound")}
                for r in res]

    def _henc(self, r):
        """identity of the handler that ran: route id, plus the WithMiddlewares tag it was wrapped with"""
        tags = [t for t in (r.get("mws") or []) if t < 1000]
        if len(tags) > 1:
            return -1
        return r["h"] + (100000 * (tags[0] + 1) if tags else 0)

    def _resp(self, r):
        k = r["k"]
        if k == "h":
            return "(RHandler %s %s)" % (cz(self._henc(r)), clist(["(%s, %s)" % (cstr(a), cstr(b)) for a, b in r["vars"]]))
        if k == "na":
            return "(RNotAllowed %s)" % clist([cstr(m) for m in r["allow"]])
        if k == "nac":
            return "RNotAllowedCustom"
        if k == "nf":
            return "RNotFound"
        if k == "nfc":
            return "RNotFoundCustom"
        # panic / unclassifiable response: nothing the model or the property allows
        return "(RHandler (-1) [])"

    def _late(self, r):
        return clist([clist(["(%s, %s)" % (cstr(a), cstr(b)) for a, b in rd]) for rd in (r.get("late") or [])])

    def _sresp(self, r):
        if r["k"] == "cors204":
            return "SCors204"
        return "(SResp %s)" % self._resp(r)

    def _server_case_term(self, case, obs):
        tables, h = [], 0
        for t in case["tables"]:
            rs = []
            for m, p in t:
                rs.append("mkReg %s %s %s" % (cstr(m), cstr(p), cz(h)))
                h += 1
            tables.append(clist(rs))
        # rest.WithRouter given LAST replaces the router the earlier options (not-found / not-allowed handler, CORS) were
        # applied to ("later RunOption might overwrite previous one"): none of them is in effect
        eff = lambda c, k: bool(c[k]) and not c.get("ownrouter_last")
        cfgs = clist(["mkCfg %s %s %s %s %s" % (cbool(eff(c, "nf")), cbool(eff(c, "na")), cbool(eff(c, "cors")), cbool(c["use"]), cbool(c["chain"]))
                      for c in case["servers"]])
        evs = []
        for e in case["events"]:
            if e["ev"] == "start":
                evs.append("EStart %d" % e["server"])
                continue
            opts = clist(["OPrefix %s" % cstr(o[1]) if o[0] == "prefix" else "OOther" for o in e["opts"]])
            evs.append("EMount (mkMount %d %d %d %d %s %s %s)" % (
                e["server"], e["table"], e["lo"], e["hi"], cbool(e["single"]),
                ("(Some %s)" % cz(e["tag"])) if e["mw"] else "None", opts))
        starts = clist(["ObsNever" if s == -1 else ("ObsStarted" if s == 0 else "(ObsFailed %s)" % REGERR.get(s, "RegOther"))
                        for s in obs["starts"]])
        pl = lambda rs: clist(["(%s, %s)" % (cstr(m), cstr(p)) for m, p in rs])
        routes = clist([pl(rs) for rs in obs["routes"]])
        after = clist([pl(rs) for rs in obs["tables_after"]])
        printed = clist([clist([cstr(l) for l in ls]) for ls in obs["printed"]])
        reqs = []
        for rq, r in zip(case["reqs"], obs["res"]):
            if r["k"] in ("down", "badreq"):
                continue      # the server did not start / net/http rejected the request line: nothing was routed
            reqs.append("mkSReq %d %s %s %s %s %s" % (int(rq[0]), cstr(rq[1]), cstr(r["path"]), self._sresp(r),
                                                      clist([cz(t) for t in r.get("mws") or []]), self._late(r)))
        bound = clist(["None" if b is None else "(Some %s)" % clist(
            ["(%s, %s, %s)" % (cstr(m), cstr(p), REGERR.get(int(e), "RegOther")) for m, p, e in b]) for b in obs.get("bound") or [None] * len(case["servers"])])
        return "CServer (mkSCase %s %s %s %s %s %s %s %s %s)" % (clist(tables), cfgs, clist(evs), starts, routes, printed, after, clist(reqs), bound)

    def _target_case_term(self, case, obs):
        regs = clist(["mkReg %s %s %s" % (cstr(m), cstr(p), cz(i)) for i, (m, p) in enumerate(case["regs"])])
        regobs = clist([REGERR.get(e, "RegOther") for e in obs["regerr"]])
        reqs = []
        for rq, r in zip(case["reqs"], obs["res"]):
            go = "None" if r["k"] == "badreq" else "(Some (%s, %s))" % (cstr(r["path"]), cstr(r.get("rawpath", "")))
            reqs.append("mkTReq %s %s %s %s" % (cstr(rq[0]), cstr(rq[1]), go, "RNotFound" if r["k"] == "badreq" else self._resp(r)))
        return "CTarget (mkTCase %s %s %s %s %s)" % (cbool(case["nf"]), cbool(case["na"]), regs, regobs, clist(reqs))

    def coq_case(self, case, obs):
        if case.get("kind") == "server":
            return self._server_case_term(case, obs)
        if case.get("kind") == "target":
            return self._target_case_term(case, obs)
        regs = clist(["mkReg %s %s %s" % (cstr(m), cstr(p), cz(i)) for i, (m, p) in enumerate(case["regs"])])
        regobs = clist([REGERR.get(e, "RegOther") for e in obs["regerr"]])
        pclean = clist([cstr(s) for s in obs["pclean"]])
        def after(rq):
            for t in (rq[3] if len(rq) > 3 else "").split("+"):
                if t.startswith("after="):
                    return int(t[6:])
            return len(case["regs"])
        reqs = clist(["mkReq %s %s %s %s %s %d" % (cstr(rq[0]), cstr(r["path"]), cstr(r["clean"]), self._resp(r), self._late(r), after(rq))
                      for rq, r in zip(case["reqs"], obs["res"]) if r["k"] != "badreq"])
        return "CRouter (mkCase %s %s %s %s %s %s)" % (cbool(case["nf"]), cbool(case["na"]), regs, regobs, pclean, reqs)

    # ---- free-running -race family (thorough tier) ---------------------------------
    def extra(self, ctx):
        if ctx.tier != "thorough":
            return []
        ok, res = vlib.go_build("c09", race=True)
        if not ok:
            raise ExecError("c09 -race executor does not build: %s" % res[-1500:])
        rng = random.Random(ctx.seed * 31 + 9)
        cases = self.corpus() + self.gen(rng, 150, "race")
        for i, c in enumerate(cases):
            c["id"] = i
            nflag = 4 if c.get("kind") == "server" else 3
            reqs = []
            for rep in range(3):          # every request three times, all of them at once, no gates
                for rq in c["reqs"]:
                    rq = list(rq) + [""] * (nflag + 1 - len(rq))
                    toks = [t for t in rq[nflag].split("+") if t.startswith("do=") and t[3:] not in ("500", "panic")]
                    reqs.append(rq[:nflag] + ["+".join(toks + ["f1"])])
            c["reqs"] = reqs
        rc, out, raw = vlib.go_run(res, cases, tag="c09race", timeout=1500, env={"GORACE": "halt_on_error=0 exitcode=0"})
        fails = []
        relevant, others = _races(out)
        if others:
            ctx.notes.append("race detector: %d report(s) whose racing accesses are outside C09's anchored code (not judged here): %s"
                             % (len(others), "; ".join(sorted(set(others)))[:600]))
        if relevant:
            fails.append({"what": "data race reported by the Go race detector in the router / search tree / pathvar / server "
                                  "registration code (or on the path variables handed to a handler) while concurrent requests "
                                  "were served by one router",
                          "replay": relevant[0][:4000]})
        if rc != 0 or len(raw) != len(cases):
            raise ExecError("c09 -race executor rc=%s: %s" % (rc, out[-2000:]))
        obs = [{"regerr": r["regerr"], "pclean": r["pclean"], "res": r["res"], "starts": r.get("starts") or [],
                "routes": r.get("routes") or [], "printed": r.get("printed") or [], "tables_after": r.get("tables_after") or [],
                "bound": r.get("bound")}
               for r in raw]
        rs = vlib.coq_eval_cases(self.id, self.check_module, [self.coq_case(c, o) for c, o in zip(cases, obs)])
        for c, o, (a, p) in zip(cases, obs, rs):
            if not p or not a:
                fails.append({"what": "free-running concurrent requests on one router: a response or a read of the path variables "
                                      "is not what the route table prescribes for that request (agrees=%s prop_ok=%s)" % (a, p),
                              "replay": {"case": c, "observed": o}})
                if len(fails) >= 3:
                    break
        return fails

    # ---- statistics -------------------------------------------------------------
    def nontrivial(self, case, obs):
        if not _case_in_scope(case):
            return False
        server = case.get("kind") == "server"
        if server and not any(s == 0 for s in obs["starts"]):
            return False
        t = _accepted(_flat(case))
        compete = False
        for (m1, p1) in t:
            for (m2, p2) in t:
                if m1 == m2 and len(p1) == len(p2):
                    for a, b in zip(p1, p2):
                        if a != b:
                            compete = compete or (a.startswith(":") != b.startswith(":"))
                            break
        ks = [r["k"] for r in obs["res"]]
        ok = compete and any(r["k"] == "h" and r["vars"] for r in obs["res"]) and ("na" in ks or "nf" in ks)
        if server:   # a server case must also re-use a table
            tabs = [e["table"] for e in case["events"] if e["ev"] == "mount"]
            ok = ok and len(tabs) != len(set(tabs))
        return ok

    def features(self, case, obs):
        flat = _flat(case)
        fs = ["in_scope" if _case_in_scope(case) else "outside_side_condition",
              "routes=%d" % min(len(_accepted(flat)), 20), "kind_" + (case.get("kind") or "router")]
        if case.get("kind") == "server":
            fs += ["start_" + ("never" if s == -1 else REGERR.get(s, "RegOther")) for s in sorted(set(obs["starts"]))]
            for c in case["servers"]:
                fs += ["srv_" + k for k in ("cors", "use", "nf", "na", "chain", "native", "must", "ownrouter", "ownrouter_last", "files", "extras", "scribble") if c.get(k)]
                if c["cors"]:
                    fs.append("corskind=%d" % c.get("corskind", 0))
            mounts = [e for e in case["events"] if e["ev"] == "mount"]
            fs.append("servers=%d" % len(case["servers"]))
            fs.append("mounts=%d" % len(mounts))
            tabs = [e["table"] for e in mounts]
            if len(tabs) != len(set(tabs)):
                fs.append("table_mounted_twice")
            if len(set((e["table"], e["server"]) for e in mounts)) > len(set(tabs)):
                fs.append("table_shared_by_servers")
            if any(e["lo"] > 0 or e["hi"] < len(case["tables"][e["table"]]) for e in mounts):
                fs.append("sub_slice")
            if any(e["single"] for e in mounts):
                fs.append("AddRoute")
            if any(e["mw"] for e in mounts):
                fs.append("WithMiddlewares")
            fs += sorted(set("opt_" + o[0] for e in mounts for o in e["opts"]))
            if any(len([o for o in e["opts"] if o[0] == "prefix"]) > 1 for e in mounts):
                fs.append("two_prefixes")
            ix = [i for i, e in enumerate(case["events"]) if e["ev"] == "start"]
            if ix and any(e["ev"] == "mount" for e in case["events"][ix[0]:]):
                fs.append("start_before_other_mounts")
            for i in ix:
                sv = case["events"][i]["server"]
                if any(e["ev"] == "mount" and e["server"] == sv for e in case["events"][i:]):
                    fs.append("mount_after_own_start")
                    break
        fs += ["reg_" + REGERR.get(e, "RegOther") for e in sorted(set(obs["regerr"]))]
        fs += ["resp_" + k for k in sorted(set(r["k"] for r in obs["res"]))]
        if any(r["k"] not in ("down", "badreq") and r["clean"] != r["path"] for r in obs["res"]):
            fs.append("path_needs_cleaning")
        if any(rq[-1] == "raw" for rq in case["reqs"] if len(rq) > 2):
            fs.append("raw_target")
        if any(r["k"] not in ("down", "badreq") and rq[-2] != r["path"] for rq, r in zip(case["reqs"], obs["res"]) if rq[-1] == "raw"):
            fs.append("target_decoded")
        if any(any(ord(ch) > 127 for ch in r.get("path", "")) for r in obs["res"]):
            fs.append("non_ascii_path")
        if any(len(r["vars"]) >= 2 for r in obs["res"]):
            fs.append("vars>=2")
        nflag = 4 if case.get("kind") == "server" else 3
        toks = set(t.split("=")[0] if not t.startswith("do=") else t for rq in case["reqs"] if len(rq) > nflag for t in rq[nflag].split("+") if t)
        fs += ["flag_" + ("c" if t.startswith("c") and t[1:].isdigit() else t) for t in sorted(toks)]
        if any(r.get("held") for r in obs["res"]):
            fs.append("handler_outlives_timeout")
        if any(len(r.get("late") or []) >= 1 and r["vars"] for r in obs["res"]):
            fs.append("late_reads_of_vars")
        if any(r["k"] == "na" and len(r["allow"]) >= 2 for r in obs["res"]):
            fs.append("allow>=2")
        return fs

    def _shrink_server(self, case):
        res = []
        reqs, events, tables = case["reqs"], case["events"], case["tables"]
        if len(reqs) > 16:
            # a long request list (the fixed families): single requests and halves first - removing one request at a time
            # would mean hundreds of almost full-size candidates per round
            res += [dict(case, reqs=[rq]) for rq in reqs][:200]
            h = len(reqs) // 2
            return res + [dict(case, reqs=reqs[:h]), dict(case, reqs=reqs[h:])]
        for i in range(len(reqs)):
            if len(reqs) > 1:
                res.append(dict(case, reqs=reqs[:i] + reqs[i + 1:]))
        if len(reqs) > 2:
            for i in range(len(reqs)):
                res.append(dict(case, reqs=[reqs[i]]))
        for i, rq in enumerate(reqs):
            if len(rq) > 4 and rq[4]:
                toks = rq[4].split("+")
                for j in range(len(toks)):
                    res.append(dict(case, reqs=reqs[:i] + [rq[:4] + ["+".join(toks[:j] + toks[j + 1:])]] + reqs[i + 1:]))
        for i, e in enumerate(events):
            if e["ev"] != "mount":
                continue
            if sum(1 for x in events if x["ev"] == "mount") > 1:
                res.append(dict(case, events=events[:i] + events[i + 1:]))
            for j in range(len(e["opts"])):
                res.append(dict(case, events=events[:i] + [dict(e, opts=e["opts"][:j] + e["opts"][j + 1:])] + events[i + 1:]))
            for k in ("single", "mw"):
                if e[k]:
                    res.append(dict(case, events=events[:i] + [dict(e, **{k: False})] + events[i + 1:]))
            if e["lo"] > 0 or e["hi"] < len(tables[e["table"]]):
                res.append(dict(case, events=events[:i] + [dict(e, lo=0, hi=len(tables[e["table"]]))] + events[i + 1:]))
        # drop one route of a table (slice bounds follow)
        for t in range(len(tables)):
            for j in range(len(tables[t])):
                if len(tables[t]) <= 1:
                    continue
                nt = tables[:t] + [tables[t][:j] + tables[t][j + 1:]] + tables[t + 1:]
                ne = []
                for e in events:
                    if e["ev"] == "mount" and e["table"] == t:
                        lo = e["lo"] - (1 if j < e["lo"] else 0)
                        hi = e["hi"] - (1 if j < e["hi"] else 0)
                        e = dict(e, lo=lo, hi=max(hi, lo))
                    ne.append(e)
                res.append(dict(case, tables=nt, events=ne))
        for s, c in enumerate(case["servers"]):
            for k in ("use", "nf", "na", "chain", "native", "must", "ownrouter", "ownrouter_last", "files", "extras", "scribble"):
                if c.get(k):
                    res.append(dict(case, servers=case["servers"][:s] + [dict(c, **{k: False})] + case["servers"][s + 1:]))
        # move every Start to the end
        tail = [e for e in events if e["ev"] == "start"]
        if events[-len(tail):] != tail:
            res.append(dict(case, events=[e for e in events if e["ev"] == "mount"] + tail))
        return res[:300]

    def shrink_candidates(self, case):
        if case.get("kind") == "server":
            return self._shrink_server(case)
        res = []
        regs, reqs = case["regs"], case["reqs"]
        if len(reqs) > 24:
            res += [dict(case, reqs=[rq]) for rq in reqs][:200]
            h = len(reqs) // 2
            return res + [dict(case, reqs=reqs[:h]), dict(case, reqs=reqs[h:])]
        for i in range(len(reqs)):
            if len(reqs) > 1:
                res.append(dict(case, reqs=reqs[:i] + reqs[i + 1:]))
        if len(reqs) > 2:
            for i in range(len(reqs)):
                res.append(dict(case, reqs=[reqs[i]]))
        def shift(rq, i):
            if len(rq) <= 3:
                return rq
            toks = []
            for t in rq[3].split("+"):
                if t.startswith("after=") and int(t[6:]) > i:
                    t = "after=%d" % (int(t[6:]) - 1)
                toks.append(t)
            return rq[:3] + ["+".join(toks)]
        for i in range(len(regs)):
            res.append(dict(case, regs=regs[:i] + regs[i + 1:], reqs=[shift(rq, i) for rq in reqs]))
        for i, (m, p) in enumerate(regs):
            c = _clean(p)
            if c is not None and "/" + "/".join(c) != p:
                res.append(dict(case, regs=regs[:i] + [[m, "/" + "/".join(c)]] + regs[i + 1:]))
        for i, rq in enumerate(reqs):
            m, p = rq[0], rq[1]
            if len(rq) > 2 and rq[2] == "raw":
                continue
            c = _clean(p)
            if c is not None and "/" + "/".join(c) != p:
                res.append(dict(case, reqs=reqs[:i] + [[m, "/" + "/".join(c), "path"] + rq[3:]] + reqs[i + 1:]))
        for i, rq in enumerate(reqs):
            if len(rq) > 3 and rq[3]:
                toks = rq[3].split("+")
                for j in range(len(toks)):
                    if not toks[j].startswith("after="):
                        res.append(dict(case, reqs=reqs[:i] + [rq[:3] + ["+".join(toks[:j] + toks[j + 1:])]] + reqs[i + 1:]))
        if case["nf"] or case["na"]:
            res.append(dict(case, nf=False, na=False))
        return res[:300]

    def describe_failure(self, case, obs):
        return ("a request was not answered as the route tables the user wrote prescribe (wrong/missing handler, handler that "
                "is not the literal-over-variable best match, wrong variables, wrong 405/Allow/404, wrong middleware wrapping) "
                "or a registration / Start was not accepted/rejected as prescribed")


PROPERTY = C09()
