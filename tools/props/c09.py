"""C09 — HTTP router (rest/router/patrouter.go over core/search/tree.go)."""
import itertools

import vlib
from runner import Property, ExecError
from vlib import cz, clist, cstr, cbool

METHODS = ["GET", "POST", "PUT", "DELETE"]
BAD_METHODS = ["FOO", "get", ""]
REGERR = {0: "RegOk", 1: "RegInvalidMethod", 2: "RegInvalidPath", 3: "RegDuplicate", 4: "RegOther"}


def _clean(p):
    """path.Clean for rooted paths -> list of segments ([""] for the root); None if not rooted."""
    if not p.startswith("/"):
        return None
    st = []
    for s in p[1:].split("/"):
        if s in ("", "."):
            continue
        if s == "..":
            if st:
                st.pop()
            continue
        st.append(s)
    return st or [""]


def _compat(p, q):
    for a, b in zip(p, q):
        if a != b:
            return not (a.startswith(":") and b.startswith(":"))
    return True


def _accepted(regs):
    """the table the property talks about: (method, cleaned pattern) of accepted registrations"""
    t = []
    for m, p in regs:
        if m not in ("DELETE", "GET", "HEAD", "OPTIONS", "PATCH", "POST", "PUT"):
            continue
        c = _clean(p)
        if c is None or (m, c) in t:
            continue
        t.append((m, c))
    return t


def _join(g, p):
    """path.Join(g, p) (unrooted results are returned uncleaned: only their unrootedness matters)"""
    x = p if g == "" else (g if p == "" else g + "/" + p)
    c = _clean(x)
    return x if c is None else "/" + "/".join(c)


def _flat(case):
    """the (method, path) list a case registers, in registration order"""
    if case.get("kind") != "server":
        return case["regs"]
    out = []
    for g in case["groups"]:
        for m, p in g["routes"]:
            out.append([m, p if g["prefix"] is None else _join(g["prefix"], p)])
    return out


def _in_scope(regs):
    t = _accepted(regs)
    return all(m1 != m2 or _compat(p1, p2) for (m1, p1) in t for (m2, p2) in t)


class C09(Property):
    id = "C09"
    title = "HTTP router dispatches every request to the right route with the right variables"
    quick_cases = 700
    thorough_cases = 8000
    design_ref = "DESIGN.md §6/C09"
    level_text = ("Unbounded Rocq theorems (every list of Handle calls, every request method and path): the per-method search "
                  "tries built by Handle represent exactly the accepted (method, cleaned pattern) routes; for tables with one "
                  "variable name per position the response is the same whatever order Go iterates its maps in, a handler runs "
                  "iff a route of the method matches the cleaned path, it is the literal-over-variable best match, it receives "
                  "exactly that route's bindings, otherwise 405 with exactly the other matching methods or 404; duplicate / "
                  "bad method / unrooted pattern are rejected and leave the router unchanged. Tied to the Go code by "
                  "differential execution of generated route tables and requests through router.NewRouter()+httptest.")
    level_note = ("Trusted: Coq kernel + vm_compute; hand-written model (maps as association lists, the set of map-order-"
                  "dependent results computed explicitly, path.Clean modelled for rooted paths and compared with Go's on every "
                  "generated path); correspondence on generated tables only; net/http, context and pathvar plumbing not modelled.")
    rule = ("cases: a table of <=12 Handle calls (methods GET/POST/PUT/DELETE + invalid, segments from {a,b,:x,:y,'',.,..}, depth<=4, "
            "unrooted patterns, duplicates after cleaning) and <=14 requests (paths derived from the patterns and random, with //, "
            "/./, /../, trailing /, unrooted, unknown methods); non-trivial = the accepted table is inside the side condition, "
            "some method has a literal and a variable route competing at the same depth, and the requests produce at least one "
            "dispatch with variables and one 405 or 404; distinct = canonical JSON hash of the case")
    trusted_base = [
        "model theories/C09/Model.v is hand-written; tie = correspondence run (harness/cmd/c09) on generated tables",
        "path.Clean is modelled for rooted paths (Model.clean_path) and compared with Go's path.Clean on every generated pattern and path",
        "net/http request plumbing, context.WithValue / pathvar.Vars and http.NotFound are exercised but not modelled",
    ]
    assumptions = ["handlers are non-nil (errEmptyItem not modelled)",
                   "a request is served after all registrations (Handle is not concurrent with ServeHTTP)"]

    def prepare(self, ctx):
        ok, res = vlib.go_build("c09")
        self.bin = res if ok else None
        return ok, ("" if ok else res)

    # ---- generation ---------------------------------------------------------
    def corpus(self):
        return self._server_corpus() + [
            {"nf": False, "na": False,
             "regs": [["GET", "/a/:x"], ["GET", "/a/b"], ["POST", "/a//b/"], ["FOO", "/a"], ["GET", "a"], ["GET", "/a/./b"],
                      ["GET", "/:x"], ["GET", "/"], ["PUT", "/:y"], ["GET", "/:x/:x"], ["GET", ""]],
             "reqs": [["GET", "/a/b"], ["GET", "/a/c"], ["GET", "/a//c/"], ["POST", "/a/b"], ["PUT", "/a/b"], ["DELETE", "/a/c"],
                      ["GET", "/"], ["PUT", "/"], ["PUT", ""], ["PUT", "/.."], ["GET", "/1/2"], ["FOO", "/a/b"], ["GET", "a/b"],
                      ["GET", "/:x"], ["GET", "/a/b/../c"]]},
            # backtracking: the literal branch fails deeper down, the variable branch must be taken, without stale variables
            {"nf": False, "na": False,
             "regs": [["GET", "/a/:y/b"], ["GET", "/:x/a/a"], ["GET", "/a/a/:y"], ["POST", "/:x/:y/:x"]],
             "reqs": [["GET", "/a/a/a"], ["GET", "/a/a/b"], ["GET", "/a/b/b"], ["GET", "/b/a/a"], ["GET", "/b/a/b"],
                      ["PUT", "/b/a/b"], ["POST", "/1/2/3"], ["GET", "/a/a"]]},
            # a branch that binds a variable and then fails: its binding must not be delivered
            {"nf": False, "na": False, "regs": [["GET", "/a/:y/c/d"], ["GET", "/:x/b/c"], ["POST", "/:y/a/a"], ["POST", "/a/:x"]],
             "reqs": [["GET", "/a/b/c"], ["POST", "/a/a/a"], ["POST", "/a/b"], ["PUT", "/a/b/c"]]},
            # custom handlers
            {"nf": True, "na": True, "regs": [["GET", "/a"], ["POST", "/:x"]],
             "reqs": [["PUT", "/a"], ["GET", "/b"], ["GET", "/a/b"], ["POST", "/"]]},
            # outside the side condition: two variable names at one position
            {"nf": False, "na": False, "regs": [["GET", "/:x/a"], ["GET", "/:y/b"], ["GET", "/:x"], ["GET", "/:y"]],
             "reqs": [["GET", "/1/a"], ["GET", "/1/b"], ["GET", "/1"], ["GET", "/"]]},
        ]

    def _server_corpus(self):
        def g(prefix, routes, mw=False, opts=False, single=False):
            return {"prefix": prefix, "mw": mw, "opts": opts, "single": single, "routes": routes}
        base = {"kind": "server", "regs": [], "nf": False, "na": False, "cors": False, "use": False}
        return [
            dict(base, use=True,
                 groups=[g("/api", [["GET", "/a/:x"], ["GET", "b"], ["POST", "/a/b/"]], mw=True, opts=True),
                         g(None, [["GET", "/a/:x"], ["OPTIONS", "/o"]], single=True),
                         g("/api/", [["PUT", "//c/../d"], ["GET", ""]], mw=True)],
                 reqs=[["GET", "/api/a/1"], ["GET", "/api/b"], ["GET", "/a/7"], ["PUT", "/api/d"], ["GET", "/api"],
                       ["POST", "/api/a/1"], ["DELETE", "/zz"], ["OPTIONS", "/o"], ["OPTIONS", "/api/b"]]),
            dict(base, cors=True, groups=[g("/v1", [["GET", "/a"], ["OPTIONS", "/o"]])],
                 reqs=[["GET", "/v1/a"], ["POST", "/v1/a"], ["OPTIONS", "/v1/o"], ["OPTIONS", "/v1/a"], ["OPTIONS", "/zz"], ["GET", "/zz"]]),
            dict(base, groups=[g("/v1", [["GET", "/a"], ["GET", "/b"]]), g("/v1/", [["GET", "a/"]])], reqs=[["GET", "/v1/a"]]),
            dict(base, groups=[g("v1", [["GET", "/a"]])], reqs=[["GET", "/v1/a"]]),
            dict(base, groups=[g("/v1", [["FOO", "/a"]])], reqs=[["GET", "/v1/a"]]),
            dict(base, nf=True, na=True, groups=[g("", [["GET", "/a"]])], reqs=[["GET", "/a"], ["PUT", "/a"], ["GET", "/b"]]),
            # two groups, same paths, different prefixes: the prefix decides
            dict(base, groups=[g("/x", [["GET", "/p/:id"], ["POST", "/p"]], mw=True), g("/y", [["GET", "/p/:id"], ["PUT", "/p"]], mw=True)],
                 reqs=[["GET", "/x/p/1"], ["GET", "/y/p/2"], ["PUT", "/x/p"], ["POST", "/y/p"], ["GET", "/p/1"], ["GET", "/x/x/p/1"]]),
        ]

    def _pattern(self, rng, names, wfbias):
        depth = rng.choice([0, 1, 1, 2, 2, 2, 3, 3, 4])
        segs = []
        for _ in range(depth):
            r = rng.random()
            if r < 0.40:
                s = rng.choice(["a", "a", "b"])
            elif r < 0.80:
                s = rng.choice([":x", ":y"])
                if wfbias:
                    s = names.setdefault(tuple(segs), s)
            elif r < 0.88:
                s = ""
            elif r < 0.93:
                s = "."
            elif r < 0.97:
                s = ".."
            else:
                s = rng.choice(["ab", ":", "a:b", "...", ":xy"])
            segs.append(s)
        p = "/" + "/".join(segs)
        r = rng.random()
        if r < 0.04:
            p = p[1:]            # not rooted (possibly empty)
        elif r < 0.10:
            p = p + "/"
        return p

    def _reqpath(self, rng, regs):
        r = rng.random()
        if regs and r < 0.65:
            c = _clean(rng.choice(regs)[1]) or [""]
            segs = [(rng.choice(["a", "b", "c", "1"]) if s.startswith(":") else s) for s in c]
            m = rng.random()
            if m < 0.15 and segs:
                segs[rng.randrange(len(segs))] = rng.choice(["a", "b", "c"])
            elif m < 0.22:
                segs.append(rng.choice(["a", "b", "c"]))
            elif m < 0.29 and segs:
                segs.pop()
            # decorate with things path.Clean removes
            out = []
            for s in segs:
                d = rng.random()
                if d < 0.06:
                    out.append("")
                elif d < 0.10:
                    out.append(".")
                elif d < 0.14:
                    out += [rng.choice(["a", "zz"]), ".."]
                out.append(s)
            p = "/" + "/".join(out)
            if rng.random() < 0.1:
                p += "/"
            return p
        if r < 0.95:
            depth = rng.choice([0, 1, 1, 2, 2, 3, 4])
            segs = [rng.choice(["a", "a", "b", "b", "c", "", ".", "..", ":x"]) for _ in range(depth)]
            return "/" + "/".join(segs)
        return rng.choice(["", "a", "a/b", ".", "../a"])

    def _generalise(self, rng, base, names):
        """a pattern obtained from the literal path [base] by turning some segments into variables
        (named consistently per prefix) and possibly breaking or extending its tail: such patterns
        share prefixes with [base] and make Search enter branches that fail further down"""
        segs = []
        for s in base:
            if rng.random() < 0.45:
                s = names.setdefault(tuple(segs), rng.choice([":x", ":y", ":z"]))
            segs.append(s)
        r = rng.random()
        if r < 0.25 and segs:
            segs[-1] = rng.choice(["a", "b", "c"])
        elif r < 0.40:
            segs.append(rng.choice(["a", "b", ":x", ":y"]) if rng.random() < 0.5
                        else names.setdefault(tuple(segs), ":z"))
        elif r < 0.50 and len(segs) > 1:
            segs.pop()
        return "/" + "/".join(segs)

    def _table(self, rng):
        wfbias = rng.random() < 0.7
        nreg = rng.randint(1, 12)
        nmeth = rng.choice([1, 2, 2, 3, 4])
        meths = rng.sample(METHODS, nmeth)
        regs = []
        per_method_names = {}
        base = None
        if rng.random() < 0.35:
            base = [rng.choice(["a", "b", "c"]) for _ in range(rng.choice([2, 3, 3, 4]))]
        for _ in range(nreg):
            m = rng.choice(meths)
            if rng.random() < 0.05:
                m = rng.choice(BAD_METHODS)
            names = per_method_names.setdefault(m, {})
            if regs and rng.random() < 0.08:
                p = rng.choice(regs)[1]          # duplicate
            elif base and rng.random() < 0.8:
                p = self._generalise(rng, base, names)
            else:
                p = self._pattern(rng, names, wfbias)
            regs.append([m, p])
        return regs, base

    def gen(self, rng, n, tier):
        cases = []
        for _ in range(n):
            regs, base = self._table(rng)
            reqs = []
            if base:
                ms = sorted(set(m for m, _ in regs if m in METHODS)) or METHODS
                reqs.append([rng.choice(ms), "/" + "/".join(base)])
                reqs.append([rng.choice(ms), "/" + "/".join(base[:-1] + [rng.choice(["a", "b", "c"])])])
            for _ in range(rng.randint(4, 14)):
                m = rng.choice(METHODS)
                if rng.random() < 0.06:
                    m = rng.choice(["FOO", "HEAD", "get"])
                reqs.append([m, self._reqpath(rng, regs)])
            c = rng.random()
            cases.append({"nf": c < 0.1, "na": 0.05 < c < 0.15, "regs": regs, "reqs": reqs})
        nserver = max(1, n // 4)
        for _ in range(nserver):
            cases.append(self._server_case(rng))
        if tier == "thorough":
            cases += self._exhaustive()
        return cases

    PREFIXES = [None, None, "", "/", "/api", "/api", "/api/", "/v1/a", "/a", "/b", "/:x", "/a/:y", "/api/../a", "api"]

    def _server_case(self, rng):
        regs, base = self._table(rng)
        good = rng.random() < 0.8
        if good:   # mostly tables that Start can bind: no bad methods / unrooted patterns / duplicates
            regs = [r for r in regs if r[0] in METHODS]
        ngroups = rng.randint(1, 3)
        groups = [{"prefix": rng.choice(self.PREFIXES), "mw": rng.random() < 0.4, "opts": rng.random() < 0.3,
                   "single": rng.random() < 0.2, "routes": []} for _ in range(ngroups)]
        if good:
            for g in groups:
                if g["prefix"] == "api":
                    g["prefix"] = "/api"
        for r in regs:
            g = rng.choice(groups)
            p = r[1]
            if good and not p.startswith("/") and (g["prefix"] in (None, "")):
                p = "/" + p
            g["routes"].append([r[0], p])
        groups = [g for g in groups if g["routes"]] or [dict(groups[0], routes=[["GET", "/a"]])]
        if rng.random() < 0.15:   # OPTIONS / HEAD routes (valid methods; OPTIONS interacts with CORS)
            groups[0]["routes"].append([rng.choice(["OPTIONS", "HEAD"]), rng.choice(["/o", "/a", "/:x"])])
        case = {"kind": "server", "regs": [], "groups": groups, "cors": False, "use": rng.random() < 0.3, "nf": False, "na": False}
        if good:
            # drop later duplicates (after prefixing and cleaning) so that Start succeeds
            seen = set()
            for g in groups:
                keep = []
                for m, p0 in g["routes"]:
                    p = p0 if g["prefix"] is None else _join(g["prefix"], p0)
                    c = _clean(p)
                    key = (m, tuple(c) if c is not None else None)
                    if c is None or key in seen:
                        continue
                    seen.add(key)
                    keep.append([m, p0])
                g["routes"] = keep
            case["groups"] = [g for g in groups if g["routes"]] or [dict(groups[0], routes=[["GET", "/a"]])]
        c = rng.random()
        if c < 0.2:
            case["cors"] = True
        elif c < 0.4:
            case["nf"], case["na"] = rng.random() < 0.6, rng.random() < 0.6
        flat = _flat(case)
        reqs = []
        for _ in range(rng.randint(4, 12)):
            m = rng.choice(METHODS)
            r = rng.random()
            if r < 0.08:
                m = rng.choice(["FOO", "HEAD"])
            elif r < 0.2:
                m = "OPTIONS"
            reqs.append([m, self._reqpath(rng, flat)])
        case["reqs"] = reqs
        return case

    def _exhaustive(self):
        """every table of two GET routes (+ one POST route) over patterns of depth <= 2 on {a,b,:x,:y},
        against every path of depth <= 2 on {a,b,c} plus the root"""
        alpha = ["a", "b", ":x", ":y"]
        pats = ["/"] + ["/" + s for s in alpha] + ["/%s/%s" % (s, t) for s in alpha for t in alpha]
        paths = ["/"] + ["/" + s for s in "abc"] + ["/%s/%s" % (s, t) for s in "abc" for t in "abc"]
        reqs = [["GET", p] for p in paths] + [["POST", "/a/b"], ["PUT", "/a"], ["PUT", "/c/c"]]
        cases = []
        for p, q in itertools.product(pats, pats):
            cases.append({"nf": False, "na": False, "regs": [["GET", p], ["GET", q], ["POST", "/:x/b"]], "reqs": reqs})
        # three routes of depth exactly 3 sharing prefixes: backtracking over two levels
        a3 = ["a", ":x"]
        pats3 = ["/%s/%s/%s" % t for t in itertools.product(a3, a3, ["a", "b", ":x"])]
        paths3 = [["GET", "/%s/%s/%s" % t] for t in itertools.product("ac", "ac", "abc")]
        for t in itertools.combinations(pats3, 3):
            cases.append({"nf": False, "na": False, "regs": [["GET", p] for p in t], "reqs": paths3})
        return cases

    # ---- execution / rendering -----------------------------------------------
    def execute(self, cases, ctx):
        rc, out, res = vlib.go_run(self.bin, cases, tag="c09", timeout=900)
        if rc != 0 or len(res) != len(cases):
            raise ExecError("c09 executor rc=%s: %s" % (rc, out[-2000:]))
        for r in res:
            if r.get("err"):
                raise ExecError("c09 executor: case %s: %s" % (r.get("id"), r["err"]))
        return [{"regerr": r["regerr"], "pclean": r["pclean"], "res": r["res"],
                 "start": r.get("start", 0), "routes": r.get("routes") or []} for r in res]

    def _resp(self, r):
        k = r["k"]
        if k == "h":
            return "(RHandler %s %s)" % (cz(r["h"]), clist(["(%s, %s)" % (cstr(a), cstr(b)) for a, b in r["vars"]]))
        if k == "na":
            return "(RNotAllowed %s)" % clist([cstr(m) for m in r["allow"]])
        if k == "nac":
            return "RNotAllowedCustom"
        if k == "nf":
            return "RNotFound"
        if k == "nfc":
            return "RNotFoundCustom"
        # panic / unclassifiable response: nothing the model or the property allows
        return "(RHandler (-1) [])"

    def _sresp(self, r):
        if r["k"] == "cors204":
            return "SCors204"
        return "(SResp %s)" % self._resp(r)

    def _server_case_term(self, case, obs):
        groups = []
        h = 0
        for g in case["groups"]:
            rs = []
            for m, p in g["routes"]:
                rs.append("mkReg %s %s %s" % (cstr(m), cstr(p), cz(h)))
                h += 1
            pre = "None" if g["prefix"] is None else "(Some %s)" % cstr(g["prefix"])
            groups.append("mkGroup %s %s %s" % (pre, cbool(g["mw"]), clist(rs)))
        start = "ObsStarted" if obs["start"] == 0 else "(ObsFailed %s)" % REGERR.get(obs["start"], "RegOther")
        routes = clist(["(%s, %s)" % (cstr(m), cstr(p)) for m, p in obs["routes"]])
        reqs = clist(["mkSReq %s %s %s %s" % (cstr(m), cstr(p), self._sresp(r), clist([cz(t) for t in r.get("mws") or []]))
                      for (m, p), r in zip(case["reqs"], obs["res"])])
        return "CServer (mkSCase %s %s %s %s %s %s %s %s)" % (
            cbool(case["nf"]), cbool(case["na"]), cbool(case["cors"]), cbool(case["use"]),
            clist(groups), start, routes, reqs)

    def coq_case(self, case, obs):
        if case.get("kind") == "server":
            return self._server_case_term(case, obs)
        regs = clist(["mkReg %s %s %s" % (cstr(m), cstr(p), cz(i)) for i, (m, p) in enumerate(case["regs"])])
        regobs = clist([REGERR.get(e, "RegOther") for e in obs["regerr"]])
        pclean = clist([cstr(s) for s in obs["pclean"]])
        reqs = clist(["mkReq %s %s %s %s" % (cstr(m), cstr(p), cstr(r["clean"]), self._resp(r))
                      for (m, p), r in zip(case["reqs"], obs["res"])])
        return "CRouter (mkCase %s %s %s %s %s %s)" % (cbool(case["nf"]), cbool(case["na"]), regs, regobs, pclean, reqs)

    # ---- statistics -------------------------------------------------------------
    def nontrivial(self, case, obs):
        if not _in_scope(_flat(case)):
            return False
        if case.get("kind") == "server" and obs["start"] != 0:
            return False
        t = _accepted(_flat(case))
        compete = False
        for (m1, p1) in t:
            for (m2, p2) in t:
                if m1 == m2 and len(p1) == len(p2):
                    for a, b in zip(p1, p2):
                        if a != b:
                            compete = compete or (a.startswith(":") != b.startswith(":"))
                            break
        ks = [r["k"] for r in obs["res"]]
        return compete and any(r["k"] == "h" and r["vars"] for r in obs["res"]) and ("na" in ks or "nf" in ks)

    def features(self, case, obs):
        fs = ["in_scope" if _in_scope(_flat(case)) else "outside_side_condition",
              "routes=%d" % len(_accepted(_flat(case))), "kind_" + (case.get("kind") or "router")]
        if case.get("kind") == "server":
            fs.append("start_" + REGERR.get(obs["start"], "RegOther"))
            fs += [k for k in ("cors", "use", "nf", "na") if case[k]]
            fs.append("groups=%d" % len(case["groups"]))
            if any(g["prefix"] for g in case["groups"]):
                fs.append("has_prefix")
        fs += ["reg_" + REGERR.get(e, "RegOther") for e in sorted(set(obs["regerr"]))]
        fs += ["resp_" + k for k in sorted(set(r["k"] for r in obs["res"]))]
        if any(_clean(p) is not None and "/" + "/".join(_clean(p)) != p for _, p in case["reqs"]):
            fs.append("path_needs_cleaning")
        if any(len(r["vars"]) >= 2 for r in obs["res"]):
            fs.append("vars>=2")
        return fs

    def _shrink_server(self, case):
        res = []
        reqs, groups = case["reqs"], case["groups"]
        for i in range(len(reqs)):
            if len(reqs) > 1:
                res.append(dict(case, reqs=reqs[:i] + reqs[i + 1:]))
        if len(reqs) > 2:
            for i in range(len(reqs)):
                res.append(dict(case, reqs=[reqs[i]]))
        for i in range(len(groups)):
            if len(groups) > 1:
                res.append(dict(case, groups=groups[:i] + groups[i + 1:]))
            g = groups[i]
            for j in range(len(g["routes"])):
                if len(g["routes"]) > 1:
                    res.append(dict(case, groups=groups[:i] + [dict(g, routes=g["routes"][:j] + g["routes"][j + 1:])] + groups[i + 1:]))
            for k in ("opts", "single"):
                if g[k]:
                    res.append(dict(case, groups=groups[:i] + [dict(g, **{k: False})] + groups[i + 1:]))
        for k in ("use", "nf", "na"):
            if case[k]:
                res.append(dict(case, **{k: False}))
        return res[:300]

    def shrink_candidates(self, case):
        if case.get("kind") == "server":
            return self._shrink_server(case)
        res = []
        regs, reqs = case["regs"], case["reqs"]
        for i in range(len(reqs)):
            if len(reqs) > 1:
                res.append(dict(case, reqs=reqs[:i] + reqs[i + 1:]))
        if len(reqs) > 2:
            for i in range(len(reqs)):
                res.append(dict(case, reqs=[reqs[i]]))
        for i in range(len(regs)):
            res.append(dict(case, regs=regs[:i] + regs[i + 1:]))
        for i, (m, p) in enumerate(regs):
            c = _clean(p)
            if c is not None and "/" + "/".join(c) != p:
                res.append(dict(case, regs=regs[:i] + [[m, "/" + "/".join(c)]] + regs[i + 1:]))
        for i, (m, p) in enumerate(reqs):
            c = _clean(p)
            if c is not None and "/" + "/".join(c) != p:
                res.append(dict(case, reqs=reqs[:i] + [[m, "/" + "/".join(c)]] + reqs[i + 1:]))
        if case["nf"] or case["na"]:
            res.append(dict(case, nf=False, na=False))
        return res[:300]

    def describe_failure(self, case, obs):
        return ("a request was not answered as the route list prescribes (wrong/missing handler, handler that is not the "
                "literal-over-variable best match, wrong variables, wrong 405/Allow/404) or a registration was not "
                "accepted/rejected as prescribed")


PROPERTY = C09()
