"""C12 — timing wheel."""
import vlib
from runner import Property, ExecError
from vlib import cz, clist


class C12(Property):
    id = "C12"
    title = "Timing wheel fires every timer exactly once, at its due tick"
    quick_cases = 400
    thorough_cases = 12000
    design_ref = "DESIGN.md §6/C12"
    level_text = ("Unbounded Rocq theorems (every wheel size, interval, history of Set/Move/Remove/Tick/Drain): the wheel "
                  "model refines the map key->(remaining ticks,value); a timer fires iff the operation is the "
                  "floor(d/interval)-th tick after its last set/move, with the last value; removed timers never fire; "
                  "Drain delivers each pending timer once. The model is tied to core/collection/timingwheel.go by "
                  "differential execution of generated histories through the public API.")
    level_note = ("Trusted: Coq kernel + vm_compute; hand-written model (flat entry list instead of per-slot linked lists, "
                  "removed entries dropped at once); correspondence only on generated histories; callbacks attributed to an "
                  "operation after goroutine quiescence; MoveTimer/SetTimer with delay < interval are compared with the "
                  "model but are outside the property's quantifier.")
    rule = ("histories: wheel size 1..12, 1..5 keys, 10..90 ops (tick/set/move/remove/drain), delays around 1, n-1, n, n+1, 2n, "
            "random<=4n intervals; non-trivial = contains a Move of a pending key issued after the wheel wrapped and at "
            "least one callback; distinct = canonical JSON hash of the history")
    trusted_base = [
        "model theories/C12/Model.v is hand-written; tie = correspondence run (harness/cmd/c12) on generated histories",
        "quiescence detection via runtime.Stack decides which operation a callback belongs to",
        "Go runtime (channels, goroutines), SafeMap and container/list are not modelled",
    ]
    assumptions = ["keys are compared with Go == on int64 (model: Z)",
                   "the wheel's event loop is sequential (one goroutine), so histories are sequences"]

    def prepare(self, ctx):
        ok, res = vlib.go_build("c12")
        self.bin = res if ok else None
        return ok, ("" if ok else res)

    def corpus(self):
        t = [["tick"]]
        return [
            # F1: set behind the position after wrap, move shorter / longer
            {"n": 10, "interval": 1000, "ops": t * 6 + [["set", 7, 70, 6000], ["move", 7, 2000]] + t * 14},
            {"n": 10, "interval": 1000, "ops": t * 6 + [["set", 7, 70, 3000], ["move", 7, 16000]] + t * 18},
            # F12: set after drain of a pending key
            {"n": 10, "interval": 1000, "ops": [["set", 1, 5, 3000], ["drain"], ["set", 1, 6, 5000]] + t * 12 + [["drain"]]},
            {"n": 1, "interval": 7, "ops": [["set", 1, 5, 7], ["set", 2, 6, 21], ["move", 1, 14]] + t * 4},
            {"n": 3, "interval": 10, "ops": [["set", 1, 5, 35], ["tick"], ["move", 1, 61], ["set", 1, 9, 45]] + t * 8},
        ]

    def gen(self, rng, n, tier):
        cases = []
        for _ in range(n):
            ns = rng.choice([1, 2, 3, 3, 4, 5, 6, 8, 10, 12])
            interval = rng.choice([1, 7, 1000, 1000, 250000000])
            nkeys = rng.randint(1, 5)
            edge = rng.random() < 0.1
            nops = rng.randint(10, 90)
            ops = []
            for _ in range(rng.randint(0, 2 * ns)):
                if rng.random() < 0.6:
                    ops.append(["tick"])
            while len(ops) < nops:
                r = rng.random()
                k = rng.randrange(nkeys)
                if r < 0.45:
                    ops.append(["tick"])
                elif r < 0.67:
                    ops.append(["set", k, rng.randrange(1000), self._delay(rng, ns, interval, edge)])
                elif r < 0.90:
                    ops.append(["move", k, self._delay(rng, ns, interval, edge)])
                elif r < 0.98:
                    ops.append(["remove", k])
                else:
                    ops.append(["drain"])
            cases.append({"n": ns, "interval": interval, "ops": ops})
        return cases

    def _delay(self, rng, ns, interval, edge):
        steps = rng.choice([1, 1, 2, ns - 1, ns, ns + 1, 2 * ns, 2 * ns + 1, rng.randint(1, 4 * ns + 1)])
        steps = max(1, steps)
        d = steps * interval + (rng.randrange(interval) if rng.random() < 0.5 else 0)
        if edge and rng.random() < 0.3:
            d = rng.randrange(1, interval) if interval > 1 else 1
        return d

    def execute(self, cases, ctx):
        rc, out, res = vlib.go_run(self.bin, cases, tag="c12", timeout=900)
        if rc != 0 or len(res) != len(cases):
            raise ExecError("c12 executor rc=%s: %s" % (rc, out[-2000:]))
        for r in res:
            if r.get("err"):
                raise ExecError("c12 executor: case %s: %s" % (r.get("id"), r["err"]))
        return [{"obs": r["obs"]} for r in res]

    def _op(self, o):
        if o[0] == "set":
            return "OSet %s %s %s" % (cz(o[1]), cz(o[2]), cz(o[3]))
        if o[0] == "move":
            return "OMove %s %s" % (cz(o[1]), cz(o[2]))
        if o[0] == "remove":
            return "ORemove %s" % cz(o[1])
        if o[0] == "tick":
            return "OTick"
        return "ODrain"

    def coq_case(self, case, obs):
        ops = clist([self._op(o) for o in case["ops"]])
        ob = clist([clist(["(%s, %s)" % (cz(k), cz(v)) for k, v in f]) for f in obs["obs"]])
        return "mkCase %s %s %s %s" % (cz(case["n"]), cz(case["interval"]), ops, ob)

    def nontrivial(self, case, obs):
        ticks = 0
        pending = set()
        wrapped_move = False
        for o in case["ops"]:
            if o[0] == "tick":
                ticks += 1
            elif o[0] == "set":
                pending.add(o[1])
            elif o[0] == "remove":
                pending.discard(o[1])
            elif o[0] == "move" and o[1] in pending and ticks >= case["n"]:
                wrapped_move = True
        return wrapped_move and any(f for f in obs["obs"])

    def features(self, case, obs):
        fs = ["n=%d" % case["n"], "ops<=%d" % (10 * (1 + len(case["ops"]) // 10))]
        kinds = set(o[0] for o in case["ops"])
        fs += ["has_" + k for k in sorted(kinds)]
        if any(o[0] in ("set", "move") and o[-1] < case["interval"] for o in case["ops"]):
            fs.append("out_of_scope_delay")
        fs.append("fired=%d" % min(9, sum(len(f) for f in obs["obs"])))
        return fs

    def describe_failure(self, case, obs):
        return "a timer fired at a tick other than its due tick, twice, not at all, or a removed/drained timer fired"


PROPERTY = C12()
