"""C12 — timing wheel (and the wheel seen through its clients collection.Cache and the cache cleaner)."""
import os

import vlib
from runner import Property, ExecError
from vlib import cz, clist, cbool, copt

OVERLAY = {
    # ADDED files (nothing of go-zero is replaced): a recording relay in front of a client's wheel
    "core/collection/zz_verif_c12.go": os.path.join(vlib.HARNESS, "overlay", "collection", "zz_verif_c12.go"),
    "core/stores/cache/zz_verif_c12.go": os.path.join(vlib.HARNESS, "overlay", "cache", "zz_verif_c12.go"),
}

RES = {0: "ROk", 1: "RErrArgument", 2: "RErrClosed", 3: "RPanic"}
NIL_VALUE = -777          # how the executor reports a nil value carried by a timer
HUGE = [2 ** 62, 2 ** 62 + 1024, 3 * 2 ** 61]     # exactly representable as float64 (JSON), < MaxInt64
SEC = 1000000000
T = [["tick"]]
POLICIES = ["now", "zero", "equal", "back", "jump", "jump", "wall", "epoch", "exact", "mixed", "mixed"]
MAXOFF = 2 ** 52


def stamp_ops(ops, interval, policy, rng):
    """The VALUE every tick carries (C12-10: the wheel must not look at it): ["tick"] -> ["tick", mode, off]
    (modes: see harness/c12x stamper).  Stamps that stand still, go backwards, jump 2..1000 intervals, lie at
    the epoch / in the far future, have no monotonic reading, or are exactly one interval apart."""
    if policy == "now":
        return ops
    cur = [0]
    const = rng.choice([0, interval, 5 * interval, -3 * interval])

    def one():
        pol = policy
        if pol == "mixed":
            pol = rng.choice(["now", "zero", "equal", "back", "jump", "wall", "epoch", "exact"])
        if pol == "now":
            return ["tick"]
        if pol == "zero":
            return ["tick", "z", 0]
        if pol == "equal":
            return ["tick", "b", const]
        if pol == "back":
            cur[0] -= rng.randint(1, 5) * interval
        elif pol in ("jump", "wall"):
            cur[0] += rng.choice([1, 2, 2, 3, 5, rng.randint(2, 1000)]) * interval
        elif pol == "exact":
            cur[0] += interval
        elif pol == "epoch":
            return ["tick", "u", rng.choice([0, 1, -1, 2 ** 62, SEC * 4102444800])]
        cur[0] = max(-MAXOFF, min(MAXOFF, cur[0]))
        return ["tick", "w" if pol == "wall" else "b", cur[0]]

    out = []
    for o in ops:
        if o and o[0] == "tick" and len(o) == 1:
            out.append(one())
        elif o and o[0] == "@" and o[2] == "tick" and len(o) == 3:
            out.append(o[:2] + one())
        else:
            out.append(o)
    return out


def stamped(case, rng, policy=None):
    """vary the stamps of a case (every family); tickers that stamp themselves keep time.Now()"""
    policy = policy or rng.choice(POLICIES)
    kind = case.get("kind", "wheel")
    if kind == "free":
        if policy != "now":
            case["stamps"] = stamp_ops([["tick"]] * 16, case["interval"], policy, rng)
        return case
    if kind in ("cache", "cleaner"):
        case["ops"] = stamp_ops(case["ops"], SEC, policy, rng)
    elif kind == "wheel" and case.get("ticker", "rv") in ("rv", "buf") and case.get("ticker2", "rv") in ("rv", "buf"):
        case["ops"] = stamp_ops(case["ops"], case["interval"], policy, rng)
    return case


class C12(Property):
    id = "C12"
    title = "Timing wheel fires every timer exactly once, at its due tick"
    quick_cases = 390
    thorough_cases = 8000
    exec_budget_s = 300      # quick tier: stop executing further generated cases after this long (see _run_chunks)
    skipped_for_time = 0
    design_ref = "DESIGN.md §6/C12"
    level_text = ("Unbounded Rocq theorems (every wheel size, interval, history of Set/Move/Remove/Tick/Drain/Stop calls, "
                  "valid or rejected): the wheel model (flat and pointer-level) refines the map key->(remaining ticks,value); "
                  "a timer fires iff the operation is the floor(d/interval)-th tick after its last set/move, with the last "
                  "value, exactly once over the whole history; removed/drained timers never fire; Drain delivers each pending "
                  "timer once; a stopped wheel is inert. The model is tied to core/collection/timingwheel.go by differential "
                  "execution of generated histories through the public API, and through its clients collection.Cache (with and "
                  "without WithLimit) and the cache cleaner, whose wheel traffic is recorded by a relay and judged both at the "
                  "wheel level and at the client level (one timer per stored entry, none for deleted/evicted keys). The values "
                  "delivered by the ticker are proved irrelevant (tick_stamp_irrelevant) and chosen adversarially by every case "
                  "(zero time, equal, backwards, jumps of 2..1000 intervals, wall-clock only); core/timex/ticker.go is modelled as a "
                  "channel machine (every accepted tick received exactly once, in order) and compared operation by operation; the "
                  "constants of the clients' wheels and the cleaner's retry schedule are read off the running code on every run "
                  "(GenProofs.v).")
    level_note = ("Trusted: Coq kernel + vm_compute; hand-written models; correspondence only on generated histories; callbacks "
                  "attributed to an operation after goroutine quiescence (stack inspection); the relay in front of a client's "
                  "wheel is an added overlay file that depends on the names of TimingWheel's channels; MoveTimer/SetTimer with "
                  "0 < delay < interval are compared with the model but are outside the property's quantifier.")
    rule = ("wheel: size 1..12, 1..5 keys, 10..90 calls (tick/set/move/remove/drain/stop, nil keys, delays <= 0, panicking "
            "callbacks), delays around 1, n-1, n, n+1, 2n, random<=4n intervals, ticker rendezvous / buffered / timex.FakeTicker / "
            "gated real timex.NewTicker, tick stamps per case policy (now, zero, equal, backwards, jumps, wall-only, absolute, exact, mixed); "
            "ticker: 4..30 operations Tick/receive/Stop/Done/Wait on one FakeTicker, one real ticker; "
            "cache: limit 0..4, 6 keys, 10..70 operations (Set/SetWithExpire/Get/Del/Take/tick, Del-then-Set, expire-then-Set, "
            "evict-then-Set patterns), final Drain; cleaner: AddCleanTask with 0..5 failures over up to 3970 ticks; "
            "non-trivial = (wheel) a Move of a pending key after the wheel wrapped and a callback, (cache) a callback and a "
            "removal request, (cleaner) a re-armed task; distinct = canonical JSON hash of the case")
    trusted_base = [
        "models theories/C12/{Model,Concrete,Api}.v are hand-written; tie = correspondence run (harness/cmd/c12) on generated histories",
        "quiescence detection via runtime.Stack decides which operation a callback belongs to",
        "harness/overlay/collection/zz_verif_c12.go (added, not replacing): relay goroutine in front of a client's wheel; "
        "the client's wheel is rebuilt with NewTimingWheelWithTicker from the parameters and callback the client chose",
        "Go runtime (channels, goroutines), SafeMap and container/list are not modelled (the channel semantics the FakeTicker "
        "relies on are modelled in Ticker.v and compared with the implementation by the `ticker` kind)",
        "a history the implementation does not complete (a call that does not return, callbacks that never come to rest) is "
        "decided by watchdogs (3 s with the run loop parked inside a handler, 20 s / 30 s otherwise) and confirmed by a re-run alone",
        "harness/cmd/c12consts reads the clients' wheel parameters through the relay overlay and observes the cleaner's retry schedule",
        "cache kind: C16/ModelW.v (cache + LRU composed with this wheel model) is imported for `agrees`",
    ]
    assumptions = ["keys are compared with Go == on int64 / string (model: Z)",
                   "the wheel's event loop is sequential (one goroutine): requests are atomic, in the order its select receives them"]

    def regen(self, ctx):
        """coq/gen/C12Consts.v: the parameters of the wheels built by collection.NewCache and by the cache cleaner and
        the cleaner's retry schedule, read off the running code (harness/c12x/consts.go), so that GenProofs.v
        re-proves for today's values that the clients stay inside the property's quantifier."""
        import json
        import subprocess
        ok, res = vlib.go_build("c12consts", overlay=OVERLAY)
        if not ok:
            raise RuntimeError("c12consts does not build against the current tree: %s" % res[-1500:])
        p = subprocess.run([res], stdout=subprocess.PIPE, stderr=subprocess.PIPE, text=True, timeout=300, env=vlib.goenv())
        if p.returncode != 0:
            raise RuntimeError("c12consts failed: %s" % (p.stderr or p.stdout)[-1500:])
        k = json.loads(p.stdout)
        text = ("(* GENERATED by tools/props/c12.py (harness/cmd/c12consts: values read off the running code of\n"
                "   core/collection/cache.go and core/stores/cache/cleaner.go) - do not edit *)\n"
                "From Coq Require Import List ZArith.\nImport ListNotations.\nOpen Scope Z_scope.\n\n"
                "(* the wheel collection.NewCache builds *)\n"
                "Definition cache_wheel_slots : Z := %d.\nDefinition cache_wheel_interval_ns : Z := %d.\n"
                "(* the cache cleaner's wheel, and the delays of the timers it sets for a task that keeps failing *)\n"
                "Definition cleaner_wheel_slots : Z := %d.\nDefinition cleaner_wheel_interval_ns : Z := %d.\n"
                "Definition cleaner_retry_schedule_ns : list Z := %s.\n"
                "(* fix 1b06186: after a Drain of 9 timers whose callbacks all call back into the wheel, the wheel still\n"
                "   takes a call from another goroutine (Drain delivers off the wheel goroutine) *)\n"
                "Definition drain_delivers_off_wheel_goroutine : bool := %s.\n"
                % (k["cache_slots"], k["cache_interval"], k["cleaner_slots"], k["cleaner_interval"],
                   clist([cz(d) for d in k["cleaner_schedule"]]), cbool(bool(k.get("drain_off_loop")))))
        path = os.path.join(vlib.COQ, "gen", "C12Consts.v")
        old = open(path).read() if os.path.exists(path) else None
        if old != text:
            tmp = path + ".tmp%d" % os.getpid()
            with open(tmp, "w") as f:
                f.write(text)
            os.replace(tmp, path)
        self.consts = k
        return ["C12Consts.v %s: cache wheel %d x %d ns, cleaner wheel %d x %d ns, retry schedule %s"
                % ("rewritten" if old != text else "unchanged", k["cache_slots"], k["cache_interval"], k["cleaner_slots"],
                   k["cleaner_interval"], k["cleaner_schedule"])]

    def prepare(self, ctx):
        ok, res = vlib.go_build("c12", overlay=OVERLAY)
        self.bin = res if ok else None
        return ok, ("" if ok else res)

    # ------------------------------------------------------------------ cases
    def corpus(self):
        w = lambda n, i, ops, tk="rv": {"kind": "wheel", "n": n, "interval": i, "ticker": tk, "ops": ops}
        cs = [
            # F1: set behind the position after wrap, move shorter / longer
            w(10, 1000, T * 6 + [["set", 7, 70, 6000], ["move", 7, 2000]] + T * 14),
            w(10, 1000, T * 6 + [["set", 7, 70, 3000], ["move", 7, 16000]] + T * 18),
            # F12: set after drain of a pending key
            w(10, 1000, [["set", 1, 5, 3000], ["drain"], ["set", 1, 6, 5000]] + T * 12 + [["drain"]]),
            w(1, 7, [["set", 1, 5, 7], ["set", 2, 6, 21], ["move", 1, 14]] + T * 4),
            w(3, 10, [["set", 1, 5, 35], ["tick"], ["move", 1, 61], ["set", 1, 9, 45]] + T * 8),
            # seeds C12-1 / C12-2: re-slotted entry with circle / diff pending; relocation then move
            w(5, 10, [["set", 1, 5, 120], ["move", 1, 20]] + T * 13, "fake"),
            w(4, 10, [["set", 1, 5, 20], ["move", 1, 50]] + T * 2 + [["move", 1, 10]] + T * 6),
            # seed C12-1 again: the re-slotting branch (steps < wait) on an entry with circles left
            w(5, 10, [["set", 1, 5, 120], ["move", 1, 10]] + T * 13),
            w(5, 10, [["set", 1, 5, 20], ["move", 1, 90]] + T * 1 + [["move", 1, 20]] + T * 12, "buf"),
            # seed C12-2 again: after the relocation the record must know the new slot: a later Move by more than the wait
            w(4, 10, [["set", 1, 5, 20], ["move", 1, 50]] + T * 2 + [["move", 1, 60]] + T * 8),
            # seed C12-5: a dead entry of a key that has a live entry elsewhere is scanned; then Remove / Move / Set of the key
            w(4, 10, [["set", 1, 5, 20], ["remove", 1], ["set", 1, 6, 30]] + T * 2 + [["remove", 1]] + T * 3),
            w(5, 10, [["set", 1, 5, 40], ["move", 1, 10], ["set", 1, 6, 60]] + T * 4 + [["remove", 1]] + T * 3),
            w(4, 10, [["set", 1, 5, 20], ["remove", 1], ["set", 1, 6, 30]] + T * 2 + [["set", 1, 7, 40]] + T * 5 + [["drain"]]),
            # seed C12-6: SetTimer of a pending key to an earlier tick carries the NEW value
            w(3, 10, [["set", 1, 5, 30], ["set", 1, 6, 10]] + T * 3),
            w(10, 1000, T * 3 + [["set", 1, 5, 8000], ["set", 1, 6, 2000]] + T * 9, "fake"),
            # rejected calls, Stop, calls on a closed wheel, a second Stop
            w(3, 10, [["set", 1, 5, 30], ["set", None, 5, 30], ["set", 1, 6, 0], ["move", 1, -10], ["move", None, 30],
                      ["remove", None], ["tick"], ["stop"], ["tick"], ["set", 2, 1, 30], ["move", 1, 30], ["remove", 1],
                      ["drain"], ["set", 2, 1, 0], ["stop"]]),
            w(3, 10, [["set", 1, 5, 30], ["stop"], ["tick"], ["drain"]], "fake"),
            # a callback that panics does not keep the other timers of the tick from firing
            w(4, 10, [["set", 1, 999, 20], ["set", 2, 7, 20], ["set", 3, 1999, 20], ["set", 4, 8, 60]] + T * 3 + [["drain"]]),
            w(4, 10, [["set", 1, 999, 20], ["set", 2, 7, 20], ["drain"], ["set", 2, 7, 20]] + T * 3),
        ]
        # callbacks that do not return before later ticks (seed C12-4): a,b due at tick 1 (a held), c,d at tick 2
        cs += [
            dict(w(8, 10, [["set", 1, 900, 10], ["set", 2, 2, 10], ["set", 3, 3, 20], ["set", 4, 4, 20], ["tick"], ["tick"],
                           ["release", 900], ["tick"]], "fake"), hold=[900]),
            dict(w(3, 10, [["set", 1, 900, 10], ["set", 2, 901, 10], ["set", 3, 900, 20], ["set", 4, 4, 20], ["set", 5, 5, 40]]
                   + T * 2 + [["release", 901]] + T * 2 + [["release", 900], ["drain"]]), hold=[900, 901]),
        ]
        # seed C12-7: two timers due at one tick, the first one's callback held; Set / Move of the second key in that window
        cs += [
            dict(w(3, 10, [["set", 1, 900, 10], ["set", 2, 7, 10], ["tick"], ["set", 2, 8, 30]] + T * 3 + [["release", 900], ["tick"], ["drain"]]),
                 hold=[900]),
            dict(w(3, 10, [["set", 1, 900, 10], ["set", 2, 7, 10], ["tick"], ["move", 2, 20]] + T * 2 + [["release", 900], ["tick"], ["drain"]]),
                 hold=[900]),
            dict(w(4, 10, [["set", 1, 900, 10], ["set", 2, 7, 10], ["tick"], ["set", 2, 8, 10], ["remove", 2], ["tick"], ["set", 2, 9, 10],
                           ["tick"], ["release", 900], ["tick"]], "fake"), hold=[900]),
        ]
        # seed C12-8: one callback held open while more than numSlots further ticks have due timers (a wheel that
        # hands the batches to ONE executor over a channel of numSlots batches stops taking ticks and calls)
        cs += [
            dict(w(2, 10, [["set", 1, 900, 10], ["tick"], ["set", 2, 2, 10], ["tick"], ["set", 3, 3, 10], ["tick"], ["set", 4, 4, 10],
                           ["tick"], ["set", 5, 5, 10], ["tick"], ["set", 6, 6, 20], ["tick"], ["tick"], ["release", 900], ["drain"]]),
                 hold=[900]),
            dict(w(1, 10, [["set", 1, 900, 10], ["tick"], ["set", 2, 700, 10], ["tick"], ["set", 3, 3, 10], ["tick"], ["tick"],
                           ["release", 900], ["tick"]], "fake"), hold=[900], react={"700": ["set", 2, 7, 10]}),
        ]
        # a callback re-arms its own key / removes another / drains from inside; Stop with callbacks running
        cs += [
            dict(w(4, 10, [["set", 1, 700, 10], ["set", 2, 900, 10], ["set", 3, 5, 30], ["tick"], ["tick"], ["set", 4, 702, 10],
                           ["tick"], ["release", 900], ["drain"]]), hold=[900],
                 react={"700": ["set", 1, 701, 20], "701": ["remove", 2], "702": ["drain"]}),
            dict(w(3, 10, [["set", 1, 900, 10], ["set", 2, 6, 10], ["set", 3, 7, 20], ["tick"], ["stop"], ["tick"], ["set", 4, 1, 10],
                           ["release", 900], ["drain"]], "fake"), hold=[900]),
            dict(w(3, 10, [["set", 1, 900, 10], ["set", 2, 901, 20], ["set", 3, 8, 20], ["tick"], ["drain"], ["release", 901],
                           ["release", 900]]), hold=[900, 901]),
        ]
        # seed C12-11 / F-drain: DRAIN callbacks that call back into the wheel (cache/cleaner.go's clean re-arms a failed
        # task from the shutdown Drain): re-set their own key, move / remove another, drain again; calls by the
        # controller while a drain callback is held; the re-set timers are accepted and fire at their due tick
        cs += [
            dict(w(4, 10, [["set", 1, 700, 30], ["drain"], ["tick"], ["tick"], ["set", 2, 5, 10], ["tick"], ["drain"]]),
                 hold=[900], react={"700": ["set", 1, 6, 20]}),
            dict(w(3, 10, [["set", 1, 700, 20], ["set", 2, 701, 20], ["set", 3, 702, 50], ["set", 4, 900, 30], ["set", 5, 5, 40],
                           ["drain"], ["set", 6, 6, 10], ["move", 1, 30], ["tick"], ["remove", 7], ["release", 900], ["tick"], ["tick"],
                           ["tick"], ["drain"]], "fake"),
                 hold=[900], react={"700": ["set", 1, 8, 20], "701": ["set", 7, 9, 10], "702": ["drain"]}),
            dict(w(5, 10, [["set", k, 700 + k % 3, 10 * (1 + k % 4)] for k in range(7)] + [["set", 7, 900, 20], ["drain"], ["tick"],
                           ["set", 8, 1, 10], ["tick"], ["release", 900], ["tick"], ["tick"], ["drain"]]),
                 hold=[900], react={"700": ["set", 10, 3, 20], "701": ["move", 10, 30], "702": ["remove", 11]}),
        ]
        cs += self._drain_fix_cases()
        # MoveTimer / RemoveTimer / SetTimer on a key whose callback is running right now (its timer is gone:
        # Move and Remove find nothing, Set starts a new timer that fires while the old callback still runs)
        cs += [
            dict(w(3, 10, [["set", 1, 900, 10], ["set", 2, 5, 30], ["tick"], ["move", 1, 20], ["remove", 1], ["tick"],
                           ["set", 1, 7, 10], ["move", 1, 20], ["tick"], ["tick"], ["release", 900], ["tick"], ["drain"]]),
                 hold=[900]),
            dict(w(1, 10, [["set", 1, 900, 10], ["tick"], ["move", 1, 5], ["set", 1, 901, 10], ["tick"], ["move", 1, 3],
                           ["release", 901], ["release", 900], ["tick"]], "fake"), hold=[900, 901]),
            # one slot: every delay is whole revolutions; delays that are not multiples of the interval
            w(1, 7, [["set", 1, 5, 7], ["set", 2, 6, 20], ["set", 3, 7, 13], ["tick"], ["move", 2, 27], ["tick"], ["set", 3, 8, 8],
                     ["tick"], ["tick"], ["tick"], ["remove", 2], ["tick"], ["drain"]], "buf"),
            # delays near the top of time.Duration on a 1 us wheel (steps ~ 2^52: circle arithmetic, never due)
            w(7, 1000, [["set", 1, 5, 2 ** 62], ["set", 2, 6, 3 * 2 ** 61], ["tick"], ["move", 1, 2 ** 62 + 1024], ["set", 3, 7, 2000],
                        ["tick"], ["tick"], ["move", 2, 3000], ["tick"], ["tick"], ["tick"], ["drain"]]),
        ]
        for (n, i, e) in [(0, 10, True), (-3, 10, True), (4, 0, True), (4, -1, True), (4, 1000000, False),
                          (4, 1000000, True), (1, 1, True), (0, 0, False)]:
            cs.append({"kind": "new", "n": n, "interval": i, "exec": e})
        c = lambda limit, ops, exp=2500: {"kind": "cache", "limit": limit, "expire_ms": exp, "ops": ops + [["drain"]]}
        s15, s25, s35 = 3 * SEC // 2, 5 * SEC // 2, 7 * SEC // 2
        cs += [
            # seed C12-3: Del then Set of the same key in a size-limited cache
            c(10, [["setd", 9, 1], ["setd", 1, 10], ["del", 1], ["setd", 1, 11], ["get", 1]] + T * 3),
            c(2, [["set", 1, 10, s15], ["tick"], ["tick"], ["set", 1, 11, s15], ["tick"], ["get", 1], ["tick"]]),
            c(2, [["set", 1, 10, s15], ["set", 2, 20, s25], ["set", 3, 30, s35], ["set", 1, 12, s25]] + T * 4),
            c(0, [["set", 1, 10, s15], ["del", 1], ["set", 1, 11, s25], ["take", 2, 5], ["take", 3, None]] + T * 3),
            # refresh with a longer / shorter expiry, several revolutions of the 300-slot wheel
            c(3, [["set", 1, 10, 2 * SEC], ["set", 1, 11, 700 * SEC], ["set", 2, 20, 301 * SEC]] + T * 305
              + [["set", 1, 12, 3 * SEC]] + T * 4),
        ]
        # the cleaner's whole retry schedule: 1 s, 5 s, 1 min, 5 min, 1 h on a 300-slot wheel
        cs.append({"kind": "cleaner", "ops": [["add", 0, 9], ["tick"], ["add", 1, 1]] + T * 3970})
        # seed C06-9 through the wheel: two clean tasks of different stores about the same cache key, the first still pending
        cs.append({"kind": "cleaner", "ops": [["add", 0, 2, 7], ["add", 1, 1, 7]] + T * 8})
        cs.append({"kind": "cleaner", "ops": [["add", 0, 3, 7], ["tick"], ["tick"], ["add", 1, 0, 7]] + T * 70})
        # core/timex/ticker.go itself: the FakeTicker's channel (one tick buffered, blocked Ticks, receivers,
        # Stop = close: blocked senders panic, receivers get the zero value), Done/Wait, a real ticker
        tk = lambda ops: {"kind": "ticker", "ops": [[o] for o in ops]}
        cs += [
            tk(["tick", "tick", "recv", "recv", "recv", "tick", "done", "wait", "wait", "done", "done", "wait", "stop",
                "recv", "recv", "tick", "stop"]),
            tk(["recv", "recv", "stop"]),
            tk(["tick", "tick", "tick", "stop", "recv", "recv"]),
            tk(["tick", "recv"] * 6 + ["stop"]),
            {"kind": "ticker", "real_us": 500, "ops": []},
        ]
        # seed C12-10 ("make up for dropped ticks"): the VALUE a tick carries is irrelevant.  A timer set after a
        # stall, then ONE tick stamped five intervals after the wheel was built / after the previous tick; stamps
        # that stand still, go backwards, the zero time, wall-clock-only times, the epoch; through the plain
        # wheel (rendezvous and buffered ticker), a gated wheel, the cache and the cleaner
        jump = lambda i, ks: [["tick", "b", k * i] for k in ks]
        first = [
            w(4, SEC, [["set", 1, 5, 3 * SEC]] + jump(SEC, [5]) + [["set", 2, 6, 3 * SEC]] + jump(SEC, [10, 11, 12])),
            w(5, 1000000, [["set", 1, 5, 4000000], ["set", 2, 6, 12000000]] + jump(1000000, [1000, 1000, 3000, 2000, 2001])
              + [["move", 2, 7000000]] + jump(1000000, [900000, 0, -5, 1000000]) + T * 4, "buf"),
            w(3, 60 * SEC, [["set", 1, 5, 120 * SEC], ["tick", "z", 0], ["tick", "u", 0], ["tick", "u", 2 ** 62],
                            ["set", 2, 6, 180 * SEC], ["tick", "w", 3600 * SEC], ["tick", "w", 7200 * SEC], ["tick", "z", 0],
                            ["drain"]]),
            dict(w(4, SEC, [["set", 1, 900, SEC], ["set", 2, 2, SEC], ["set", 3, 3, 4 * SEC]] + jump(SEC, [7])
                   + [["set", 4, 4, 2 * SEC]] + jump(SEC, [14]) + [["release", 900]] + jump(SEC, [15, 30])), hold=[900]),
            c(0, [["set", 1, 10, s25]] + jump(SEC, [10]) + [["set", 2, 20, s35]] + jump(SEC, [20, 21, 40, 41])),
            c(2, [["set", 1, 10, 5 * SEC + SEC // 2], ["tick", "z", 0], ["set", 2, 20, s35], ["tick", "w", 600 * SEC],
                  ["get", 1], ["tick", "w", 1200 * SEC], ["tick", "b", -SEC], ["tick", "u", 0], ["tick", "b", 5000 * SEC]]),
            {"kind": "cleaner", "ops": [["add", 0, 2]] + jump(SEC, [30]) + [["add", 1, 1]] + jump(SEC, [60, 90, 91, 1000, 1001, 1002, 5000])},
        ]
        for x in first + cs:
            x["corpus"] = True
        return first + cs

    DRAIN_ID = "C12-drain-reentrant-blocks-wheel"

    def _drain_unbounded(self):
        """May a Drain have 8 or more re-entrant / held callbacks in flight with further timers pending?  On the tree
        at the time of writing that dead-locks the wheel (drainAll feeds its 8-wide runner from the wheel goroutine):
        such histories are generated only once KNOWN_FINDINGS.jsonl has a kind:"fixed" entry with DRAIN_ID (the repair
        is in; they are then judged like all others).  With a kind:"known" entry they stay out of the generator (every
        instance costs a watchdog time-out and a fresh executor); known() recognises exactly that shape should it arise."""
        return any(e.get("property") == "C12" and e.get("id") == self.DRAIN_ID and e.get("kind") == "fixed"
                   for e in vlib.load_known())

    def _drain_fix_cases(self):
        if not self._drain_unbounded():
            return []
        w = lambda n, i, ops, tk="rv": {"kind": "wheel", "n": n, "interval": i, "ticker": tk, "ops": ops}
        return [
            dict(w(10, 10, [["set", k, 700, 30] for k in range(9)] + [["drain"], ["set", 20, 1, 10], ["tick"], ["tick"], ["drain"]]),
                 hold=[900], react={"700": ["set", 30, 2, 20]}),
            dict(w(4, 10, [["set", k, 700 + k % 2, 10 * (1 + k % 5)] for k in range(20)] + [["drain"], ["tick"], ["tick"], ["tick"], ["drain"]]),
                 hold=[900], react={"700": ["set", 40, 2, 20], "701": ["remove", 40]}),
        ]

    def _gen_drain_react(self, rng):
        """1..20 pending timers, some carrying values whose (drain) callback calls back into the wheel, some held;
        Drain; calls and ticks while drain callbacks are held; ticks until the re-set timers are due; final Drain"""
        ns = rng.choice([1, 2, 3, 5, 8])
        interval = rng.choice([1, 10, 1000])
        npend = rng.randint(1, 20)
        hold = rng.sample([900, 901, 902], rng.randint(1, 3))
        rc = {}
        for v in rng.sample([700, 701, 702, 703], rng.randint(1, 4)):
            k = rng.randrange(30)
            d = rng.choice([1, 2, 3, ns + 1]) * interval
            kind = rng.choice(["set", "set", "set", "move", "remove", "drain"])
            rc[str(v)] = {"set": ["set", k, rng.randrange(600), d], "move": ["move", k, d], "remove": ["remove", k], "drain": ["drain"]}[kind]
        budget = 10 ** 9 if self._drain_unbounded() else 7     # re-entrant + held drain callbacks in flight at once
        free_hold = list(hold)
        ops = []
        for k in range(npend):
            r = rng.random()
            if r < 0.15 and free_hold and budget > 0:
                v = free_hold.pop()
                budget -= 1
            elif r < 0.6 and budget > 0:
                v = int(rng.choice(list(rc)))
                budget -= 1
            else:
                v = rng.randrange(600)
            ops.append(["set", k, v, rng.choice([1, 2, 3, 2 * ns + 1]) * interval])
        ops += T * rng.randint(0, 1) if npend <= 7 else []
        ops.append(["drain"])
        rel = list(hold)
        rng.shuffle(rel)
        for _ in range(rng.randint(3, 12)):
            r = rng.random()
            k = rng.randrange(30)
            if r < 0.45:
                ops.append(["tick"])
            elif r < 0.6:
                ops.append(["set", k, rng.randrange(600), rng.choice([1, 2, 3]) * interval])
            elif r < 0.7:
                ops.append(["move", k, rng.choice([1, 2, 3]) * interval])
            elif r < 0.8:
                ops.append(["remove", k])
            elif rel:
                ops.append(["release", rel.pop()])
        ops += [["release", v] for v in rel] + T * rng.randint(1, 2 * ns + 2) + [["drain"]]
        return {"kind": "wheel", "n": ns, "interval": interval, "ticker": rng.choice(["rv", "fake", "buf"]), "hold": hold,
                "react": rc, "ops": ops}

    def gen(self, rng, n, tier):
        cases = []
        n_cache = (n * 2) // 5
        n_clean = max(2, n // 100)
        n_free = max(4, n // 40)
        n_gated = n // 6
        n_two = n // 20
        for _ in range(n_free):
            cases.append(self._gen_free(rng))
        for _ in range(n_gated):
            cases.append(self._gen_gated(rng))
        for _ in range(n_two):
            cases.append(self._gen_two(rng))
        for _ in range(max(6, n // 25)):
            cases.append(self._gen_drain_react(rng))
        for _ in range(n - n_cache - n_clean - n_free - n_gated - n_two):
            cases.append(self._gen_wheel(rng))
        for j in range(n_cache):
            cases.append(self._gen_two_caches(rng) if j % 8 == 7 else self._gen_cache(rng))
        for _ in range(n_clean):
            cases.append(self._gen_cleaner(rng))
        cases = [stamped(c, rng) for c in cases]
        for _ in range(max(3, n // 60)):
            cases.append(self._gen_ticker(rng))
        cases.append({"kind": "ticker", "real_us": rng.choice([200, 1000, 3000]), "ops": []})
        return cases

    def _gen_ticker(self, rng):
        """operations on one timex.NewFakeTicker, each on its own goroutine (Wait costs 150 ms when it times out)"""
        ops = []
        waits = 0
        for _ in range(rng.randint(4, 30)):
            r = rng.random()
            if r < 0.38:
                ops.append(["tick"])
            elif r < 0.76:
                ops.append(["recv"])
            elif r < 0.84:
                ops.append(["done"])
            elif r < 0.90 and waits < 3:
                ops.append(["wait"])
                waits += 1
            elif r < 0.93:
                ops.append(["stop"])
            else:
                ops.append(["tick"])
        return {"kind": "ticker", "ops": ops}

    def _gen_wheel(self, rng):
        ns = rng.choice([1, 2, 3, 3, 4, 5, 6, 8, 10, 12])
        interval = rng.choice([1, 7, 1000, 1000, 250000000])
        nkeys = rng.randint(1, 5)
        edge = rng.random() < 0.1
        api = rng.random() < 0.35          # rejected calls, Stop
        panics = rng.random() < 0.2
        huge = interval >= 7 and rng.random() < 0.15     # (interval 1 ns: tickedPos + steps could exceed int64)
        nops = rng.randint(10, 90)
        ops = []
        for _ in range(rng.randint(0, 2 * ns)):
            if rng.random() < 0.6:
                ops.append(["tick"])
        stop_at = rng.randint(nops // 2, nops) if api and rng.random() < 0.5 else None
        stopped = False
        while len(ops) < nops:
            r = rng.random()
            k = rng.randrange(nkeys)
            if stop_at is not None and len(ops) >= stop_at and not stopped:
                ops.append(["stop"])
                stopped = True
                nops = min(nops, len(ops) + rng.randint(1, 6))
                continue
            if api and rng.random() < 0.12:
                bad = rng.choice(["nilset", "nilmove", "nilremove", "zero", "neg", "zeromove"])
                if bad == "nilset":
                    ops.append(["set", None, rng.randrange(1000), self._delay(rng, ns, interval, False)])
                elif bad == "nilmove":
                    ops.append(["move", None, self._delay(rng, ns, interval, False)])
                elif bad == "nilremove":
                    ops.append(["remove", None])
                elif bad == "zero":
                    ops.append(["set", k, rng.randrange(1000), 0])
                elif bad == "neg":
                    ops.append(["set", k, rng.randrange(1000), -rng.randint(1, 3 * interval)])
                else:
                    ops.append(["move", k, rng.choice([0, -1, -interval])])
                continue
            if stopped and r < 0.45:
                if rng.random() < 0.3:
                    ops.append(["tick"])      # costs a timeout in the executor: keep them rare
                elif rng.random() < 0.1:
                    ops.append(["stop"])      # a second Stop panics
                else:
                    ops.append(["drain"])
                continue
            v = rng.randrange(1000)
            if panics and rng.random() < 0.3:
                v = v - v % 1000 + 999
            if api and rng.random() < 0.08:
                v = None                    # a nil value is a value
            d = self._delay(rng, ns, interval, edge)
            if huge and rng.random() < 0.15:
                d = rng.choice(HUGE)        # near the top of time.Duration: never due within the history
            if r < 0.45:
                ops.append(["tick"])
            elif r < 0.67:
                ops.append(["set", k, v, d])
            elif r < 0.90:
                ops.append(["move", k, d])
            elif r < 0.98:
                ops.append(["remove", k])
            else:
                ops.append(["drain"])
        return {"kind": "wheel", "n": ns, "interval": interval, "ticker": rng.choice(["rv", "rv", "fake", "buf", "real"]),
                "skeys": rng.random() < 0.3, "ops": ops}

    def _gen_gated(self, rng, react=None):
        """execute callbacks held open by the controller across further ticks; several timers due per tick;
        callbacks that call back into the wheel (re-arm their own key, move / remove another, drain); Stop and Drain
        while callbacks are still running"""
        ns = rng.choice([1, 2, 3, 4, 5, 8])
        interval = rng.choice([1, 10, 1000])
        nkeys = rng.randint(3, 8)
        hold = rng.sample([900, 901, 902, 903, 904], rng.randint(1, 4))
        free_hold = list(hold)          # every held value is carried by at most one timer: one batch per release
        if react is None:
            react = rng.random() < 0.5
        rc = {}
        if react:
            for v in rng.sample([700, 701, 702, 703, 704], rng.randint(1, 4)):
                k = rng.randrange(nkeys)
                d = rng.choice([1, 1, 2, 3, ns, ns + 1]) * interval
                kind = rng.choice(["set", "set", "set", "move", "remove", "drain"])
                nv = rng.choice([rng.randrange(600), rng.randrange(600), 700, 701, 702])   # may re-arm a calling value
                rc[str(v)] = {"set": ["set", k, nv, d], "move": ["move", k, d], "remove": ["remove", k], "drain": ["drain"]}[kind]
        nops = rng.randint(15, 70)
        stop_at = rng.randint(nops // 2, nops) if rng.random() < 0.15 else None
        ops = []

        def value():
            r = rng.random()
            if r < 0.3 and free_hold:
                return free_hold.pop()
            if r < 0.55 and rc:
                return int(rng.choice(list(rc)))
            if r < 0.6:
                return rng.choice([999, 1999])
            return rng.randrange(600)

        while len(ops) < nops:
            if stop_at is not None and len(ops) >= stop_at:
                ops.append(["stop"])
                stop_at = None
                nops = min(nops, len(ops) + rng.randint(1, 5))
                continue
            r = rng.random()
            k = rng.randrange(nkeys)
            steps = rng.choice([1, 1, 1, 2, 2, 3, ns, ns + 1, 2 * ns + 1])
            d = steps * interval
            if r < 0.08:          # a burst: several timers due at the same tick
                for j in range(rng.randint(2, 5)):
                    ops.append(["set", (k + j) % nkeys, value(), d])
            elif r < 0.40:
                ops.append(["set", k, value(), d])
            elif r < 0.50:
                ops.append(["move", k, d])
            elif r < 0.55:
                ops.append(["remove", k])
            elif r < 0.63:
                ops.append(["release", rng.choice(hold)])
            elif r < 0.67:
                ops.append(["drain"])
            else:
                ops.append(["tick"])
        if not any(o[0] == "stop" for o in ops):
            ops += T * rng.randint(0, 2 * ns + 2)
        rel = list(hold)
        rng.shuffle(rel)
        ops += [["release", v] for v in rel]
        c = {"kind": "wheel", "n": ns, "interval": interval, "ticker": rng.choice(["rv", "rv", "fake", "buf"]), "hold": hold, "ops": ops}
        if rc:
            c["react"] = rc
        return c

    def _gen_two(self, rng):
        """two wheels living side by side (nothing of one may show on the other), operations interleaved"""
        a, b = self._gen_gated(rng, react=False), self._gen_gated(rng, react=False)
        b["hold"] = a["hold"]
        # the closing releases of b refer to a's hold set now
        b["ops"] = [o for o in b["ops"] if o[0] != "release"] + [["release", v] for v in a["hold"]]
        qa = [["@", 0] + o for o in a["ops"]]
        qb = [["@", 1] + [x if not (o[0] == "set" and j == 2 and x in (900, 901, 902, 903, 904) and x not in a["hold"]) else 5
                          for j, x in enumerate(o)] for o in b["ops"]]
        ops = []
        while qa or qb:
            q = qa if (qa and (not qb or rng.random() < 0.5)) else qb
            ops.append(q.pop(0))
        return {"kind": "wheel", "n": a["n"], "interval": a["interval"], "ticker": a["ticker"], "hold": a["hold"],
                "skeys": rng.random() < 0.3, "n2": b["n"], "interval2": b["interval"], "ticker2": b["ticker"], "ops": ops}

    def _delay(self, rng, ns, interval, edge):
        steps = rng.choice([1, 1, 2, ns - 1, ns, ns + 1, 2 * ns, 2 * ns + 1, rng.randint(1, 4 * ns + 1)])
        steps = max(1, steps)
        d = steps * interval + (rng.randrange(interval) if rng.random() < 0.5 else 0)
        if edge and rng.random() < 0.3:
            d = rng.randrange(1, interval) if interval > 1 else 1
        return d

    def _gen_cache(self, rng):
        limit = rng.choice([0, 0, -1, 1, 2, 2, 3, 4])
        nkeys = rng.choice([2, 3, 4, 6])
        expire_ms = rng.choice([1500, 2500, 2500, 3500, 10500])
        sub = rng.random() < 0.05           # expiries below the wheel interval: outside the property
        nops = rng.randint(10, 70)
        ops = []

        def expiry():
            r = rng.random()
            if sub and r < 0.3:
                return rng.randint(SEC // 5, SEC * 9 // 10)
            if r < 0.5:
                return rng.randint(1, 6) * SEC + SEC // 2
            if r < 0.9:
                return rng.randint(SEC + SEC // 10, 12 * SEC)
            return rng.randint(290, 700) * SEC

        def setop(k):
            v = rng.randrange(1000)
            return ["setd", k, v] if rng.random() < 0.3 else ["set", k, v, expiry()]

        while len(ops) < nops:
            r = rng.random()
            k = rng.randrange(nkeys)
            if r < 0.08:                    # Del k; Set k again at once
                ops += [["del", k], setop(k)]
            elif r < 0.14:                  # let things expire, then Set again
                ops += T * rng.randint(1, 4) + [setop(k)]
            elif r < 0.20 and limit > 0:    # fill past the limit, then re-set the first (evicted) key
                ks = [(k + j) % nkeys for j in range(min(nkeys, limit + 1))]
                ops += [setop(x) for x in ks] + [setop(ks[0])]
            elif r < 0.45:
                ops.append(setop(k))
            elif r < 0.55:
                ops.append(["get", k])
            elif r < 0.63:
                ops.append(["del", k])
            elif r < 0.72:
                ops.append(["take", k, rng.randrange(1000) if rng.random() < 0.8 else None])
            elif r < 0.97:
                ops.append(["tick"])
            else:
                ops += T * rng.randint(5, 15)
        return {"kind": "cache", "limit": limit, "expire_ms": expire_ms, "ops": ops + [["drain"]]}

    def _gen_two_caches(self, rng):
        """two caches in one process using the same key strings: nothing of one may show in the other"""
        a, b = self._gen_cache(rng), self._gen_cache(rng)
        qa = [["@", 0] + o for o in a["ops"]]
        qb = [["@", 1] + o for o in b["ops"]]
        ops = []
        while qa or qb:
            q = qa if (qa and (not qb or rng.random() < 0.5)) else qb
            ops.append(q.pop(0))
        return {"kind": "cache", "limit": a["limit"], "two": True, "limit2": b["limit"], "expire_ms": a["expire_ms"], "ops": ops}

    def _gen_cleaner(self, rng):
        ops = []
        ntasks = rng.randint(1, 4)
        tid = 0
        total = rng.choice([20, 80, 80, 400])
        while len(ops) < total:
            if tid < ntasks and rng.random() < 0.1:
                # the cache key the task is about: tasks of caches over different stores name the same keys
                ops.append(["add", tid, rng.choice([0, 1, 2, 2, 3]), rng.choice([0, 0, 1])])
                tid += 1
            else:
                ops.append(["tick"])
        if tid == 0:
            ops.insert(0, ["add", 0, 2, 0])
        return {"kind": "cleaner", "ops": ops}

    def _gen_free(self, rng):
        """goroutines calling the wheel concurrently while ticks are delivered (delays >= one interval)"""
        ns = rng.choice([1, 2, 3, 4, 5, 8])
        interval = 1000
        nthreads = rng.randint(2, 6)
        shared = [100, 101]
        threads = []
        for t in range(nthreads):
            own = [10 * t, 10 * t + 1]
            script = []
            for _ in range(rng.randint(8, 30)):
                k = rng.choice(shared) if rng.random() < 0.25 else rng.choice(own)
                p = rng.choice([0, 0, 0, 1, 1, 20, 100, 300])
                r = rng.random()
                if r < 0.45:
                    script.append(["set", k, rng.randrange(1000), self._delay(rng, ns, interval, False), p])
                elif r < 0.8:
                    script.append(["move", k, self._delay(rng, ns, interval, False), p])
                else:
                    script.append(["remove", k, p])
            threads.append(script)
        # Drain racing the other calls; Stop racing everything (at most one, late in one goroutine's script)
        for script in threads:
            for j in range(len(script)):
                if rng.random() < 0.04:
                    script[j] = ["drain", rng.choice([0, 1, 20])]
        if rng.random() < 0.3:
            script = rng.choice(threads)
            script.insert(rng.randint(len(script) // 2, len(script)), ["stop", rng.choice([0, 1, 20])])
        return {"kind": "free", "n": ns, "interval": interval, "threads": threads,
                "ticks": rng.randint(20, 60), "tick_pause_us": rng.choice([0, 1, 50, 100, 200])}

    # ------------------------------------------------------------------ execution
    def execute(self, cases, ctx):
        self.exec_budget_s = max(300, len(cases) // 2)
        obs = self._execute(self.bin, cases)
        if self.skipped_for_time:
            ctx.notes.append("%d generated cases not executed: the executor had used its time budget of %d s"
                             % (self.skipped_for_time, self.exec_budget_s))
            self.skipped_for_time = 0
        return obs

    def _run_chunks(self, binpath, cases, env=None):
        """Raw executor results, one per case.  One executor process per 400 cases (every collection.Cache
        leaves a statistics goroutine behind, and the quiescence detection looks at all goroutines).  The
        executor writes its results unbuffered and exits after a case it could not complete (`stuck`: a call
        into the wheel did not return, callbacks never came to rest) or crashes on it: that case is run once
        more, alone, in a fresh process; if it fails again it is reported as a history the implementation did
        not complete (CStuck), and the run goes on with the cases after it."""
        import time
        res = []
        pending = list(cases)
        stuck = 0
        t0 = time.time()
        first = True
        slow = False        # a chunk of 150 generated cases took more than 90 s (a correct tree: 3-20 s)
        while pending:
            if stuck >= 2:      # two confirmed already: do not spend minutes per case on a tree that hangs
                res += [{"skipped": True} for _ in pending]
                break
            if (time.time() - t0 > self.exec_budget_s or slow) and len(cases) > 200:
                # (a correct tree needs 10-30 s for a quick run; a tree whose ticks take seconds each would need hours)
                self.skipped_for_time += len(pending)
                res += [{"skipped": True} for _ in pending]
                break
            # the fixed corpus first, in a process of its own; then chunks of 150
            k0 = sum(1 for c in pending if c.get("corpus")) if first else 0
            first = False
            size = k0 if 0 < k0 < len(pending) else 150
            chunk, pending = pending[:size], pending[size:]
            t1 = time.time()
            rc, out, r = vlib.go_run(binpath, chunk, tag="c12", timeout=(240 if k0 == 0 and len(cases) > 200 else 900), env=env)
            slow = slow or (k0 == 0 and time.time() - t1 > 90)
            if rc == 0 and len(r) == len(chunk):
                res += r
                continue
            if rc == 124 and k0 == 0 and len(cases) > 200 and not (r and r[-1].get("stuck")):
                # the chunk as a whole is far too slow (no single case was found stuck): keep what completed
                res += r[:len(chunk)] + [{"skipped": True} for _ in chunk[len(r):]]
                self.skipped_for_time += len(chunk) - len(r)
                continue
            if "DATA RACE" in out:
                raise ExecError("c12 executor rc=%s: %s" % (rc, out[-3000:]))
            k = len(r)
            if k and r[-1].get("stuck"):
                k -= 1
            if k >= len(chunk):
                raise ExecError("c12 executor rc=%s: %s" % (rc, out[-3000:]))
            res += r[:k]
            culprit = chunk[k]
            rc2, out2, r2 = vlib.go_run(binpath, [culprit], tag="c12", timeout=400, env=env)
            if rc2 == 0 and len(r2) == 1 and not r2[0].get("stuck"):
                res.append(r2[0])           # completed when run alone
            else:
                stuck += 1
                one = r2[0] if r2 else (r[k] if len(r) > k else {})
                one = dict(one)
                one["stuck"] = one.get("stuck") or ("executor rc=%s: %s" % (rc2, out2[-600:]))
                res.append(one)
            pending = chunk[k + 1:] + pending
        return res

    def _execute(self, binpath, cases, env=None):
        res = self._run_chunks(binpath, cases, env)
        obs = []
        for c, r in zip(cases, res):
            if r.get("err"):
                raise ExecError("c12 executor: case %s: %s" % (r.get("id"), r["err"]))
            kind = c.get("kind", "wheel")
            if r.get("skipped"):
                obs.append({"obs": [], "skipped": True})
                continue
            if r.get("stuck"):
                obs.append({"obs": r.get("obs") or [], "stuck": r["stuck"], "n": r.get("n") or 1,
                            "interval": r.get("interval") or 1, "accepted": bool(r.get("accepted"))})
                continue
            if kind == "ticker":
                steps = r.get("obs") or []
                if len(steps) != (1 if c.get("real_us") else len(c["ops"])):
                    raise ExecError("c12 executor: ticker case %s: %d observations" % (r.get("id"), len(steps)))
                obs.append({"obs": steps})
                continue
            if kind == "free":
                fr = r.get("free") or {}
                th = fr.get("threads") or []
                if len(th) != len(c["threads"]) or any(len(a or []) != len(b) for a, b in zip(th, c["threads"])) \
                        or any(o["r"] not in (0, 2) for a in th for o in a):
                    raise ExecError("c12 executor: free case %s: incomplete or rejected calls" % r.get("id"))
                obs.append({"obs": [], "free": fr})
                continue
            steps = r.get("obs") or []
            if kind != "new" and len(steps) != len(c["ops"]):
                raise ExecError("c12 executor: case %s: %d observations for %d operations" % (r.get("id"), len(steps), len(c["ops"])))
            if any(s.get("r") not in RES for s in steps):
                raise ExecError("c12 executor: case %s: unexpected error class" % r.get("id"))
            o = {"obs": steps}
            if kind == "new":
                o["accepted"] = bool(r.get("accepted"))
            if kind in ("cache", "cleaner"):
                o["n"] = r.get("n")
                o["interval"] = r.get("interval")
            obs.append(o)
        return obs

    # ------------------------------------------------------------------ rendering
    def _op(self, o):
        if o[0] == "set":
            return "OSet %s %s %s" % (cz(o[1]), cz(o[2]), cz(o[3]))
        if o[0] == "move":
            return "OMove %s %s" % (cz(o[1]), cz(o[2]))
        if o[0] == "remove":
            return "ORemove %s" % cz(o[1])
        if o[0] == "tick":
            return "OTick"
        return "ODrain"

    def _key(self, k):
        return "None" if k is None else "(Some %s)" % cz(k)

    def _aop(self, o):
        if o[0] == "set":
            return "ASet %s %s %s" % (self._key(o[1]), cz(NIL_VALUE if o[2] is None else o[2]), cz(o[3]))
        if o[0] == "move":
            return "AMove %s %s" % (self._key(o[1]), cz(o[2]))
        if o[0] == "remove":
            return "ARemove %s" % self._key(o[1])
        return {"tick": "ATick", "drain": "ADrain", "stop": "AStop"}[o[0]]

    def _wheel_term(self, n, interval, hold, ops, ob, gated):
        obt = clist(["(%s, %s)" % (self._fired(f), RES[r]) for f, r in ob])
        if gated:
            opt = clist(["GRelease %s" % cz(o[1]) if o[0] == "release" else "GCall (%s)" % self._aop(o) for o in ops])
            return "CGated %s %s %s %s %s" % (cz(n), cz(interval), clist([cz(v) for v in hold]), opt, obt)
        return "CWheel %s %s %s %s" % (cz(n), cz(interval), clist([self._aop(o) for o in ops]), obt)

    def _fired(self, f):
        return clist(["(%s, %s)" % (cz(k), cz(v)) for k, v in f])

    def _kop(self, o, expire_ns):
        if o[0] == "set":
            return "KSet %s %s %s" % (cz(o[1]), cz(o[2]), cz(o[3]))
        if o[0] == "setd":
            return "KSet %s %s %s" % (cz(o[1]), cz(o[2]), cz(expire_ns))
        if o[0] == "get":
            return "KGet %s" % cz(o[1])
        if o[0] == "del":
            return "KDel %s" % cz(o[1])
        if o[0] == "take":
            return "KTake %s %s %s" % (cz(o[1]), "None" if o[2] is None else "(Some %s)" % cz(o[2]), cz(expire_ns))
        return {"tick": "KTick", "drain": "KDrain"}[o[0]]

    def _trace(self, o, s):
        t = [self._op(x) for x in (s.get("t") or [])]
        if o[0] == "tick":
            t = ["OTick"] + t
        return clist(t)

    def _ret(self, o, s):
        ret = s.get("ret")
        if o[0] == "get" and ret is not None:
            return "(RetGet %s)" % ("None" if ret[0] is None else "(Some %s)" % cz(ret[0]))
        if o[0] == "take" and ret is not None:
            return "(RetTake %s %s)" % ("None" if ret[0] is None else "(Some %s)" % cz(ret[0]), cbool(ret[1]))
        return "RetNone"

    FOUT = {0: "FReturned", 3: "FPanicked", 4: "FClosed", 5: "FNil", 6: "FTimeout"}

    def _sop(self, o):
        if o[0] == "tick" and len(o) >= 3:
            return "STick %s" % cz(0 if o[1] == "z" else o[2])
        return "SCall (%s)" % self._aop(o)

    def _ticker_term(self, case, steps):
        if case.get("real_us"):
            d = (steps[0].get("d") if steps else None) or [{"op": 0, "out": 0}, {"op": 99, "out": 1}]
            return "CRealTicker %s %s %s %s" % (cz(d[0]["op"]), cbool(d[0]["out"] == 1), cz(d[1]["op"]), cbool(d[1]["out"] == 1))
        fops = {"tick": "TkTick", "recv": "TkRecv", "stop": "TkStop", "done": "TkDone", "wait": "TkWait"}
        is_tick = [o[0] == "tick" for o in case["ops"]]

        def fout(x):
            if x["out"] >= 100:
                return "FGot %s" % cz(x["out"] - 100)
            if x["out"] == 99:
                return "FGot (-1)"
            if x["out"] == 0 and is_tick[x["op"]]:
                return "FSent"
            return self.FOUT[x["out"]]
        obt = clist([clist(["(%s, %s)" % (cz(x["op"]), fout(x)) for x in (st.get("d") or [])]) for st in steps])
        return "CTicker %s %s" % (clist([fops[o[0]] for o in case["ops"]]), obt)

    def coq_case(self, case, obs):
        if obs.get("skipped"):      # not executed (the run already has two histories that were not completed)
            return "CNew 1 1 true true ROk RErrClosed"
        if obs.get("stuck"):
            return "CStuck (%s)" % self._case_term(case, obs)
        return self._case_term(case, obs)

    def _case_term(self, case, obs):
        kind = case.get("kind", "wheel")
        steps = obs["obs"]
        if kind == "ticker":
            return self._ticker_term(case, steps)
        if kind == "free" and "free" not in obs:
            return "CFree %s %s [] []" % (cz(case["n"]), cz(case["interval"]))
        if kind == "free":
            evs = []
            for script, log in zip(case["threads"], obs["free"]["threads"]):
                for o, l in zip(script, log):
                    if o[0] == "drain":
                        fop = "FDrain %s" % self._fired(l.get("f") or [])
                    elif o[0] == "stop":
                        fop = "FStop"
                        # the run loop notices the closed channel at some later point, possibly after Stop returned
                        evs.append("(%s, %s, FExit, ROk)" % (cz(l["s"]), cz(10 ** 18)))
                    else:
                        fop = "FReq (%s)" % self._op(o[:-1])
                    evs.append("(%s, %s, %s, %s)" % (cz(l["s"]), cz(l["e"]), fop, RES[l["r"]]))
            tks = ["(%s, %s, %s)" % (cz(t["s"]), cz(t["e"]), self._fired(t["f"])) for t in obs["free"]["ticks"]]
            return "CFree %s %s %s %s" % (cz(case["n"]), cz(case["interval"]), clist(evs), clist(tks))
        if kind == "wheel":
            if case.get("n2"):
                parts = []
                for wi, (n, iv) in enumerate([(case["n"], case["interval"]), (case["n2"], case["interval2"])]):
                    ops, ob = [], []
                    for o, st in zip(case["ops"], steps):
                        tgt, oo = (o[1], o[2:]) if o[0] == "@" else (0, o)
                        if tgt == wi:
                            ops.append(oo)
                            ob.append((st["f"], st["r"]))
                        else:       # the other wheel's operation: nothing may happen here
                            ops.append(["release", -1])
                            ob.append((st.get("x") or [], 0))
                    parts.append(self._wheel_term(n, iv, case.get("hold") or [], ops, ob, True))
                return "CBoth (%s) (%s)" % (parts[0], parts[1])
            if case.get("react"):
                rc = clist(["(%s, %s)" % (cz(int(v)), self._aop(o)) for v, o in sorted(case["react"].items())])
                opt = clist(["GRelease %s" % cz(o[1]) if o[0] == "release" else "GCall (%s)" % self._aop(o) for o in case["ops"]])
                obt = clist(["(%s, %s, %s)" % (self._fired(st["f"]), RES[st["r"]], clist([self._aop(e) for e in (st.get("e") or [])]))
                             for st in steps])
                return "CReact %s %s %s %s %s %s" % (cz(case["n"]), cz(case["interval"]),
                                                     clist([cz(v) for v in case.get("hold") or []]), rc, opt, obt)
            gated = bool(case.get("hold")) or any(o[0] == "release" for o in case["ops"])
            if not gated and any(o[0] == "tick" and len(o) >= 3 for o in case["ops"]):
                return "CStamped %s %s %s %s" % (cz(case["n"]), cz(case["interval"]), clist([self._sop(o) for o in case["ops"]]),
                                                 clist(["(%s, %s)" % (self._fired(st["f"]), RES[st["r"]]) for st in steps]))
            return self._wheel_term(case["n"], case["interval"], case.get("hold") or [], case["ops"],
                                    [(st["f"], st["r"]) for st in steps], gated)
        if kind == "new":
            r1 = RES[steps[0]["r"]] if steps else "ROk"
            r2 = RES[steps[1]["r"]] if len(steps) > 1 else "ROk"
            return "CNew %s %s %s %s %s %s" % (cz(case["n"]), cz(case["interval"]), cbool(case["exec"]),
                                              cbool(obs["accepted"]), r1, r2)
        if kind == "cache":
            if case.get("two"):
                parts = []
                for ci, limit in enumerate([case["limit"], case["limit2"]]):
                    ops, sts = [], []
                    for o, st in zip(case["ops"], steps):
                        tgt, oo = (o[1], o[2:]) if o[0] == "@" else (0, o)
                        if tgt == ci:
                            ops.append(oo)
                            sts.append(st)
                        else:       # the other cache's operation: nothing may happen in this one
                            ops.append(["get", -1])
                            sts.append({"t": st.get("xt"), "f": st.get("x") or [], "keys": st.get("xkeys"), "ret": [None]})
                    parts.append(self._cache_term(limit, obs, case["expire_ms"], ops, sts))
                return "CBoth (%s) (%s)" % (parts[0], parts[1])
            return self._cache_term(case["limit"], obs, case["expire_ms"], case["ops"], steps)
        segs = clist(["(%s, %s, %s)" % (self._trace(o, s), self._fired(s["f"]),
                                        clist([cz(c[0]) for c in (s.get("c") or [])]))
                      for o, s in zip(case["ops"], steps)])
        adds = clist([cbool(o[0] == "add") for o in case["ops"]])
        return "CTrace %s %s %s %s" % (cz(obs["n"]), cz(obs["interval"]), segs, adds)

    def _cache_term(self, limit, obs, expire_ms, ops, steps):
        exp = expire_ms * 1000000
        h = clist(["(%s, mkKobs %s %s %s %s)" % (self._kop(o, exp), self._trace(o, s), self._fired(s["f"]),
                                                clist([cz(k) for k in (s.get("keys") or [])]), self._ret(o, s))
                   for o, s in zip(ops, steps)])
        return "CCache %s %s %s %s" % (cz(limit), cz(obs["n"]), cz(obs["interval"]), h)

    # ------------------------------------------------------------------ evidence
    def nontrivial(self, case, obs):
        kind = case.get("kind", "wheel")
        if obs.get("skipped") or obs.get("stuck"):
            return False
        fired = any(s.get("f") for s in obs["obs"])
        if kind == "new":
            return True
        if kind == "ticker":
            # a tick was received, and some operation had to wait for another one
            return bool(case.get("real_us")) or (any(x["out"] >= 100 for s in obs["obs"] for x in (s.get("d") or []))
                                                  and any(not s.get("d") for s in obs["obs"]))
        if kind == "free":
            # some call overlapped a tick or another call, and something fired
            iv = [(o["s"], o["e"]) for th in obs["free"]["threads"] for o in th] + \
                 [(t["s"], t["e"]) for t in obs["free"]["ticks"]]
            return any(t["f"] for t in obs["free"]["ticks"]) and any(e - s > 1 for s, e in iv)
        if kind == "cache":
            return fired and any(x[0] == "remove" for s in obs["obs"] for x in (s.get("t") or []))
        if kind == "cleaner":
            return sum(1 for s in obs["obs"] for x in (s.get("t") or []) if x[0] == "set") > \
                sum(1 for o in case["ops"] if o[0] == "add")
        if case.get("n2"):
            return fired and any(st.get("f") for o, st in zip(case["ops"], obs["obs"]) if o[0] == "@" and o[1] == 1)
        ticks = 0
        pending = set()
        wrapped_move = False
        for o in case["ops"]:
            if o[0] == "tick":
                ticks += 1
            elif o[0] == "set" and o[1] is not None and o[3] > 0:
                pending.add(o[1])
            elif o[0] == "remove":
                pending.discard(o[1])
            elif o[0] == "move" and o[1] in pending and ticks >= case["n"]:
                wrapped_move = True
            elif o[0] == "stop":
                break
        return wrapped_move and fired

    def features(self, case, obs):
        kind = case.get("kind", "wheel")
        if obs.get("skipped"):
            return ["not_executed"]
        if obs.get("stuck"):
            return ["kind=" + kind, "not_completed"]
        fs = ["kind=" + kind, "ops<=%d" % (10 * (1 + len(case.get("ops", [])) // 10))]
        modes = set((o[3] if o[0] == "@" else o[1]) for o in case.get("ops", [])
                    if (o[0] == "tick" and len(o) >= 3) or (o[0] == "@" and o[2] == "tick" and len(o) >= 5))
        fs += ["stamp=" + {"z": "zero", "b": "chosen", "w": "wall_only", "u": "absolute"}[m] for m in sorted(modes)]
        if kind == "ticker":
            fs.append("real_ticker" if case.get("real_us") else "fake_ticker")
            outs = set(x["out"] for s in obs["obs"] for x in (s.get("d") or []))
            if not case.get("real_us"):
                fs += ["ticker_" + {3: "panic", 4: "closed_receive", 5: "wait_nil", 6: "wait_timeout"}[o] for o in sorted(outs) if o in (3, 4, 5, 6)]
                if any(not s.get("d") for s in obs["obs"]):
                    fs.append("ticker_blocked_operation")
            return fs
        if kind == "wheel":
            fs.append("n=%d" % case["n"])
            fs.append("ticker=" + case.get("ticker", "rv"))
            flat = [o[2:] if o[0] == "@" else o for o in case["ops"]]
            kinds = set(o[0] for o in flat)
            fs += ["has_" + k for k in sorted(kinds)]
            if case.get("n2"):
                fs.append("two_wheels")
            if case.get("skeys"):
                fs.append("string_and_int_keys")
            if any(o[0] == "set" and o[2] is None for o in flat):
                fs.append("nil_value")
            if any(o[0] in ("set", "move") and o[-1] >= 2 ** 61 for o in flat):
                fs.append("huge_delay")
            if not case.get("n2") and any(o[0] in ("set", "move") and 0 < o[-1] < case["interval"] for o in flat):
                fs.append("out_of_scope_delay")
            if any(s["r"] == 1 for s in obs["obs"]):
                fs.append("has_ErrArgument")
            if any(s["r"] == 2 for s in obs["obs"]):
                fs.append("has_ErrClosed")
            if any(v % 1000 == 999 for s in obs["obs"] for _, v in s["f"]):
                fs.append("callback_panicked")
            if case.get("react"):
                fs.append("callbacks_call_back")
                if any(e[0] == "drain" for st in obs["obs"] for e in (st.get("e") or [])):
                    fs.append("drain_from_callback")
            if case.get("hold") and any(o[0] == "stop" for o in flat):
                fs.append("stop_with_callbacks_running")
            if case.get("hold"):
                fs.append("gated")
                if any(o[0] == "release" and s["f"] for o, s in zip(case["ops"], obs["obs"])):
                    fs.append("batch_resumed_after_release")
        elif kind == "cache":
            fs.append("limit=%d" % case["limit"])
            if case.get("two"):
                fs.append("two_caches")
            if any(x[0] == "set" and x[3] < (obs.get("interval") or SEC) for s in obs["obs"] for x in (s.get("t") or [])):
                fs.append("out_of_scope_delay")
            if any(len([x for x in (s.get("t") or []) if x[0] == "remove"]) > 0 and (o[2] if o[0] == "@" else o[0]) in ("set", "setd", "take")
                   for o, s in zip(case["ops"], obs["obs"])):
                fs.append("evicting_set")
        if kind == "free":
            fs.append("threads=%d" % len(case["threads"]))
            if any(o[0] == "drain" for th in case["threads"] for o in th):
                fs.append("free_drain")
            if any(o[0] == "stop" for th in case["threads"] for o in th):
                fs.append("free_stop")
            fs.append("overlaps=%d" % min(9, sum(1 for th in obs["free"]["threads"] for o in th if o["e"] - o["s"] > 1)))
            fs.append("fired=%d" % min(9, sum(len(t["f"]) for t in obs["free"]["ticks"])))
            return fs
        fs.append("fired=%d" % min(9, sum(len(s.get("f") or []) for s in obs["obs"])))
        return fs

    def known(self, case, obs):
        """C12-drain-reentrant-blocks-wheel, pinned by the SHAPE OF THE CASE (nothing is probed): the history is a
        sequence of valid SetTimer calls followed by its first Drain, which is the operation that did not return; at
        that Drain at least 9 timers are pending and at least 8 of them carry a value whose callback calls back into
        the wheel or is held by the controller."""
        if case.get("kind", "wheel") != "wheel" or not obs.get("stuck") or case.get("n2"):
            return None
        k = len(obs.get("obs") or [])
        ops = case["ops"]
        if k >= len(ops) or ops[k][0] != "drain" or "drain" not in obs["stuck"]:
            return None
        pending = {}
        for o in ops[:k]:
            if o[0] != "set" or o[1] is None or o[3] < case["interval"]:
                return None
            pending[o[1]] = o[2]
        blocked = set(int(v) for v in (case.get("react") or {})) | set(case.get("hold") or [])
        if len(pending) >= 9 and sum(1 for v in pending.values() if v in blocked) >= 8:
            return self.DRAIN_ID
        return None

    def shrink_candidates(self, case):
        cands = Property.shrink_candidates(self, case)
        n = len(case.get("ops") or [])
        if n > 300:     # very long histories (cleaner schedule, several revolutions): few, large candidates per round
            cands = cands[:max(6, 20000 // n)]
        return cands

    def describe_failure(self, case, obs):
        kind = case.get("kind", "wheel")
        if kind == "cache":
            return ("collection.Cache: a stored entry has no pending timer in the wheel (or a deleted/evicted key still has one), "
                    "or a timer fired at a tick other than its due tick, twice, with a stale value, or not at all")
        if kind == "cleaner":
            return "cache cleaner: a retry timer fired at a tick other than its due tick, twice or not at all"
        if kind == "free":
            return ("concurrent SetTimer/MoveTimer/RemoveTimer/ticks: the callbacks observed are not those of any order of "
                    "the calls that is consistent with their real-time order")
        if obs.get("stuck"):
            return ("the history was not completed: %s - a wheel that no longer takes ticks or calls cannot fire its timers "
                    "at their due ticks" % obs["stuck"][:300])
        if kind == "ticker":
            return ("timex ticker: a tick was lost, delivered twice, out of order or invented, or an operation of the "
                    "ticker completed differently from its channel semantics")
        if kind == "new":
            return "NewTimingWheel accepted a configuration outside numSlots >= 1, interval >= 1, execute != nil (or rejected one inside)"
        return ("a timer fired at a tick other than its due tick, twice, not at all, a removed/drained timer fired, "
                "or a call returned the wrong error class")

    # ------------------------------------------------------------------ thorough tier: -race free-run
    def extra(self, ctx):
        if ctx.tier != "thorough":
            return []
        import random
        ok, res = vlib.go_build("c12race", overlay=OVERLAY, race=True)
        if not ok:
            raise ExecError("c12race does not build: %s" % res[-2000:])
        rng = random.Random(ctx.seed * 31 + 5)
        cases = [self._gen_free(rng) for _ in range(400)]
        for i, c in enumerate(cases):
            c["id"] = i
        ctx.checker_cmds.append("harness/bin/c12race (go build -race): 400 free-running histories, 2..6 goroutines + ticker")
        try:
            obs = self._execute(res, cases, env={"GORACE": "halt_on_error=1 exitcode=66"})
        except ExecError as e:
            if "DATA RACE" in str(e):
                return [{"what": "data race in core/collection under concurrent SetTimer/MoveTimer/RemoveTimer/ticks",
                         "replay": str(e)[-3000:]}]
            raise
        terms = [self.coq_case(c, o) for c, o in zip(cases, obs)]
        rs = vlib.coq_eval_cases(self.id, self.check_module, terms)
        bad = [(c, o) for c, o, (a, p) in zip(cases, obs, rs) if not p]
        ctx.notes.append("race monitor: %d free-running histories, %d calls overlapping another call or a tick, %d not linearisable"
                         % (len(cases), sum(1 for o in obs for th in o["free"]["threads"] for x in th if x["e"] - x["s"] > 1),
                            len(bad)))
        return [{"what": self.describe_failure(c, o), "replay": {"case": c, "observed": o}} for c, o in bad[:3]]


PROPERTY = C12()
