"""C19 — Redis lock (lockscript.lua / delscript.lua translated, Go wrappers modelled)."""
import os
import re
import sys

import vlib
from runner import Property, ExecError
from vlib import cz, clist, cbool, cstr

sys.path.insert(0, os.path.join(vlib.ROOT, "translate"))
import lua2coq  # noqa: E402
import selftest as lua_selftest  # noqa: E402

NUMERAL = re.compile(r"-?(0|[1-9][0-9]*)$")


def cbulk(s):
    if NUMERAL.match(s):
        return "(BInt %s)" % cz(int(s))
    return "(BStr %s)" % cstr(s)


def regen_scripts(pairs, tier="quick"):
    """pairs: [(repo-relative lua path, module name)] -> notes; raises on unsupported Lua.
    The translator's own self-test runs first (golden translations + must-reject corpus on
    every run; the translated snippets are also evaluated in Coq in the thorough tier)."""
    errs = lua_selftest.run(coq=(tier == "thorough"), coqdir=vlib.COQ)
    if errs:
        raise RuntimeError("lua2coq self-test failed: " + "; ".join(errs)[:1500])
    notes = ["lua2coq self-test ok (%d golden, %d rejected%s)" % (
        len(lua_selftest.GOLDEN), len(lua_selftest.REJECT),
        ", %d evaluated in Coq" % len(lua_selftest.EVAL) if tier == "thorough" else "")]
    for rel, mod in pairs:
        src = os.path.join(vlib.REPO, rel)
        out = os.path.join(vlib.COQ, "gen", mod + ".v")
        try:
            changed = lua2coq.translate_file(src, mod, out)
        except lua2coq.Unsupported as e:
            raise RuntimeError("lua2coq: %s is outside the supported Lua subset: %s" % (rel, e))
        notes.append("gen/%s.v %s from %s" % (mod, "regenerated" if changed else "unchanged", rel))
    return notes


class C19(Property):
    id = "C19"
    title = "Redis lock: one holder at a time, only the holder can release"
    quick_cases = 500
    thorough_cases = 12000
    design_ref = "DESIGN.md §6/C19"
    level_text = ("Unbounded Rocq theorems over the Gallina translation of lockscript.lua/delscript.lua (regenerated from the "
                  "tree on every run) plus the Go wrappers of redislock.go: for every store content, every number of "
                  "instances with distinct ids and every history of Acquire/Release/SetExpire/Advance/foreign writes the "
                  "lock behaves as the lease specification (one holder until seconds*1000+500 ms after its last successful "
                  "Acquire or its Release; Acquire succeeds iff free/expired/own; only the holder's Release frees). Tied to "
                  "the code by the translator and by differential execution on miniredis (real Lua).")
    level_note = ("Trusted: Coq kernel + vm_compute; translate/lua2coq.py and Lib/RedisStore.v (model of GET/SET NX PX/DEL and of "
                  "Lua<->Redis conversions; expiry at ttl<=0 as miniredis, real Redis expires 1 ms later); hand-written Go "
                  "wrapper model; atomicity of EVAL in Redis (concurrent calls = sequences); ids distinct (checked per case).")
    rule = ("histories: 1..4 RedisLock objects on one key, 5..40 ops (acquire/release/SetExpire/advance/foreign write), "
            "seconds in {0,1,2,3,7,-1,2^32+1}, advances at lease-1/lease/lease+1 ms; non-trivial = at least two different "
            "instances acquired successfully, at least one Acquire was refused and at least one Release returned false")
    trusted_base = [
        "translate/lua2coq.py (Lua subset -> Gallina) and theories/Lib/RedisStore.v (Redis commands, TTL, Lua value conversions)",
        "Go wrapper model in theories/C19/Model.v is hand-written; tie = correspondence run (harness/cmd/c19) on miniredis",
        "Redis executes scripts atomically (concurrent Acquire/Release = some sequential history)",
        "miniredis expires a key when its ttl reaches 0; real Redis one millisecond later",
    ]
    assumptions = ["lock ids of different RedisLock objects are distinct (16 random alphanumerics; checked on every case)",
                   "time does not run backwards (Advance >= 0)"]

    def regen(self, ctx):
        return regen_scripts([("core/stores/redis/lockscript.lua", "Lua_lock"),
                              ("core/stores/redis/delscript.lua", "Lua_del")], ctx.tier)

    def prepare(self, ctx):
        ok, res = vlib.go_build("c19")
        self.bin = res if ok else None
        return ok, ("" if ok else res)

    def corpus(self):
        return [
            # A expires, B acquires, A's late release must not free B's lock
            {"key": "lk", "n": 2, "ops": [["exp", 0, 1], ["acq", 0], ["adv", 1500], ["acq", 1], ["rel", 0], ["acq", 0], ["rel", 1], ["acq", 0]]},
            # lease boundary: seconds*1000+500
            {"key": "lk", "n": 2, "ops": [["exp", 0, 2], ["acq", 0], ["adv", 2499], ["acq", 1], ["adv", 1], ["acq", 1], ["acq", 0]]},
            # re-acquire refreshes
            {"key": "lk", "n": 2, "ops": [["exp", 0, 1], ["acq", 0], ["adv", 1000], ["acq", 0], ["adv", 1499], ["acq", 1], ["adv", 1], ["acq", 1]]},
            # default seconds = 0 -> 500 ms
            {"key": "a:b", "n": 3, "ops": [["acq", 2], ["acq", 1], ["adv", 499], ["acq", 0], ["adv", 1], ["acq", 0], ["rel", 2], ["rel", 0], ["rel", 0]]},
            # foreign value
            {"key": "lk", "n": 1, "ops": [["poke", "zz", 300], ["acq", 0], ["rel", 0], ["adv", 300], ["acq", 0], ["poke", "17", 0], ["rel", 0], ["acq", 0]]},
            # uint32 conversion of seconds
            {"key": "lk", "n": 2, "ops": [["exp", 0, -1], ["acq", 0], ["adv", 100000000], ["acq", 1], ["exp", 1, 4294967297], ["rel", 0], ["acq", 1], ["adv", 1500], ["acq", 0]]},
        ]

    def gen(self, rng, n, tier):
        cases = []
        for _ in range(n):
            ni = rng.choice([1, 2, 2, 3, 3, 4])
            secs = [0] * ni
            ops = []
            nops = rng.randint(5, 40)
            for i in range(ni):
                if rng.random() < 0.6:
                    s = rng.choice([0, 1, 1, 2, 3, 7])
                    secs[i] = s
                    ops.append(["exp", i, s])
            while len(ops) < nops:
                r = rng.random()
                i = rng.randrange(ni)
                if r < 0.38:
                    ops.append(["acq", i])
                elif r < 0.58:
                    ops.append(["rel", i])
                elif r < 0.66:
                    s = rng.choice([0, 1, 2, 3, 7, 7, -1, 4294967297])
                    secs[i] = s % (1 << 32)
                    ops.append(["exp", i, s])
                elif r < 0.97:
                    lease = secs[i] * 1000 + 500
                    if lease > 100000:
                        lease = 500
                    ops.append(["adv", max(0, rng.choice([0, 1, 250, 499, 500, 501, 1000, lease - 1, lease, lease + 1,
                                                           lease // 2, rng.randint(0, lease + 600)]))])
                else:
                    ops.append(["poke", rng.choice(["zz", "42", "OK"]), rng.choice([0, 0, 300, 1500])])
            cases.append({"key": rng.choice(["lk", "lock:a", "{x}.l"]), "n": ni, "ops": ops})
        return cases

    # go-zero keeps one go-redis client per server address for the life of the process, so an
    # executor process leaks a few descriptors per case: run it on chunks of cases
    CHUNK = 400

    def execute(self, cases, ctx):
        res = []
        for k in range(0, len(cases), self.CHUNK):
            part = cases[k:k + self.CHUNK]
            rc, out, r = vlib.go_run(self.bin, part, tag="c19", timeout=300)
            if rc != 0 or len(r) != len(part):
                raise ExecError("c19 executor rc=%s: %s" % (rc, out[-2000:]))
            res += r
        for r in res:
            if r.get("err"):
                raise ExecError("c19 executor: case %s: %s" % (r.get("id"), r["err"]))
        return [{"ids": r["ids"], "obs": r["obs"]} for r in res]

    def _op(self, o):
        if o[0] == "acq":
            return "OAcquire %d" % o[1]
        if o[0] == "rel":
            return "ORelease %d" % o[1]
        if o[0] == "exp":
            return "OSetExpire %d %s" % (o[1], cz(o[2]))
        if o[0] == "adv":
            return "OAdvance %s" % cz(o[1])
        return "OPoke %s %s" % (cbulk(o[1]), ("(Some %s)" % cz(o[2])) if o[2] > 0 else "None")

    def coq_case(self, case, obs):
        ops = clist([self._op(o) for o in case["ops"]])
        ob = clist(["RU" if x is None else "RB %s %s" % (cbool(x[0]), cbool(x[1])) for x in obs["obs"]])
        ids = clist([cstr(s) for s in obs["ids"]])
        return "mkCase %s %s %s %s" % (cbulk(case["key"]), ids, ops, ob)

    def nontrivial(self, case, obs):
        winners = set()
        refused = False
        relfalse = False
        for o, r in zip(case["ops"], obs["obs"]):
            if o[0] == "acq" and r:
                if r[0]:
                    winners.add(o[1])
                else:
                    refused = True
            if o[0] == "rel" and r and not r[0]:
                relfalse = True
        return len(winners) >= 2 and refused and relfalse

    def features(self, case, obs):
        fs = ["instances=%d" % case["n"], "ops<=%d" % (10 * (1 + len(case["ops"]) // 10))]
        fs += ["has_" + k for k in sorted(set(o[0] for o in case["ops"]))]
        for o, r in zip(case["ops"], obs["obs"]):
            if r:
                fs.append("%s=%s%s" % (o[0], "T" if r[0] else "F", "+err" if r[1] else ""))
        if len(set(obs["ids"])) != len(obs["ids"]):
            fs.append("id_collision")
        return sorted(set(fs))

    def describe_failure(self, case, obs):
        return ("Acquire/Release answers differ from the lease specification (two holders, a refused free lock, a wrong "
                "lease length, or a Release by a non-holder that freed the key / by the holder that did not)")


PROPERTY = C19()
