"""C15 — consistent hashing: deterministic, member-only, minimally disruptive."""
import os

import vlib
from runner import Property, ExecError
from vlib import cz, clist

S = lambda v: {"kind": "str", "v": v}
I = lambda v: {"kind": "int", "v": str(v)}
I64 = lambda v: {"kind": "i64", "v": str(v)}
ST = lambda v: {"kind": "stringer", "v": v}
PST = lambda v: {"kind": "pstringer", "v": v}

K = lambda kind, v: {"kind": kind, "v": str(v)}


def wrap64(z):
    """Go's int: the 64-bit two's complement value an arithmetic result wraps to"""
    return (z + 2 ** 63) % 2 ** 64 - 2 ** 63


def quot(a, b):
    """Go's integer division (truncation towards zero)"""
    q = abs(a) // abs(b)
    return q if (a >= 0) == (b >= 0) else -q


def add_replicas(o, R):
    """the replica count an add operation asks for (before clamping to 0..h.replicas)"""
    return R if o[0] == "add" else o[2] if o[0] == "addr" else quot(wrap64(R * o[2]), 100)


BIG = [2 ** 62, 2 ** 63 - 1, -2 ** 63, -2 ** 62, 92233720368547759, 92233720368547758, 184467440737095517,
       184467440737095518, 2 ** 53 + 1, 61489146912365173, 10 ** 18, -10 ** 18]

# names whose virtual-node strings repr+itoa(i) coincide ("1"+"10" == "11"+"0"), and equal reprs
AMBIGUOUS = [S("1"), S("11"), S("12"), S("2"), S("node1"), S("node11"), S("node12"), S("node2"),
             S("a"), S("a1"), I(1), I(11), I(2), ST("1"), ST("node1"), I64(11), PST("node11"), S(""),
             K("nil", ""), K("u8", 1), K("f64", "1"), K("i8", 11), K("u64", 12), K("pint", 2), K("bytes", "node1"),
             K("err", "a1"), K("i32", 110), K("struct", 1), S("{1 x}"), S("{1 x}1")]
# names no one of which is another one followed by digits; equal reprs across kinds are included
CLEAN = [S("alpha"), S("beta"), S("gamma"), S("delta"), S("10.0.0.1:6379."), S("10.0.0.2:6379."),
         S("cache-a"), S("cache-b"), S("x/y"), S("z_"), I(3), I(5), I(7), S("7"), ST("7"), ST("alpha"),
         PST("beta"), I64(5), K("bool", "true"), K("bool", "false"), K("f64", "2.5"), K("f32", "0.25"), K("u", 9),
         K("u16", 9), K("u32", 5), K("u64", "18446744073709551615"), K("i8", -3), K("i16", 300), K("i32", 7),
         K("bytes", "alpha"), K("err", "gamma"), K("pint", 13), K("ppstr", "delta"), K("struct", 4),
         K("verr", "beta"), K("ppstringer", "cache-a"), K("errstr", "zeta"), K("pperrstr", "zeta"), K("nilptr", "")]

# the single-key API of kv.Store (harness/cmd/c15/script.go kvOps), by the redis type of the key it is run on
KV_OPS = {
    "s": ["decr", "decrby", "eval", "exists", "expire", "expireat", "get", "getset", "incr", "incrby", "persist",
          "set", "setex", "setnx", "setnxex", "ttl"],
    "h": ["hdel", "hexists", "hget", "hgetall", "hincrby", "hkeys", "hlen", "hmget", "hset", "hsetnx", "hmset", "hvals"],
    "l": ["llen", "lindex", "lpop", "lpush", "lrange", "lrem", "rpush"],
    "p": ["pfadd", "pfcount"],
    "e": ["sadd", "scard", "sismember", "smembers", "spop", "srandmember", "srem", "sscan"],
    "z": ["zadd", "zaddfloat", "zadds", "zcard", "zcount", "zincrby", "zrank", "zrange", "zrangews", "zrangebs",
          "zrangebsl", "zrem", "zremrank", "zremscore", "zrevrange", "zrevbs", "zrevbsl", "zrevrank", "zscore"],
}
CACHE_OPS = ["get", "set", "setex", "take", "takemiss", "takex", "isnf"]
CLUSTER_WEIGHTS = [100, 100, 100, 50, 10, 1, 0, 150]
# a redis client's circuit breaker (one per address) lets everything through while it has seen fewer than
# 5 failures more than 1.5 x successes: scripts keep the injected failures per server below that
FAIL_BUDGET = 3
OVERLAY = {"core/stores/cache/zz_verif_c15.go": os.path.join(vlib.HARNESS, "overlay", "cache", "zz_verif_c15.go")}

REPLICAS = [0, -3, 1, 2, 5, 10, 11, 50, 99, 100, 101, 150, 1000]
WEIGHTS = [0, 1, 5, 10, 11, 50, 99, 100, 150, -5]


def probes(rng, n):
    ps = []
    for i in range(n):
        r = rng.random()
        if r < 0.7:
            ps.append(S("key%d" % rng.randrange(100000)))
        elif r < 0.85:
            ps.append(I(rng.randrange(100000)))
        elif r < 0.93:
            ps.append(ST("user:%d" % rng.randrange(1000)))
        else:
            ps.append(rng.choice([K("f64", "%d.5" % rng.randrange(1000)), K("u32", rng.randrange(10 ** 6)),
                                  K("bytes", "raw%d" % rng.randrange(1000)), K("bool", "true"), K("nil", ""),
                                  K("err", "e%d" % rng.randrange(100)),
                                  K("i64", -rng.randrange(10 ** 12)), K("struct", rng.randrange(50))]))
    return ps


# ---- node identity (kind "repr"): every kind lang.Repr distinguishes, boundary values ----------------
INT_RANGE = {"int": (-2 ** 63, 2 ** 63 - 1), "i8": (-128, 127), "i16": (-2 ** 15, 2 ** 15 - 1), "i32": (-2 ** 31, 2 ** 31 - 1),
             "i64": (-2 ** 63, 2 ** 63 - 1), "u": (0, 2 ** 64 - 1), "u8": (0, 255), "u16": (0, 2 ** 16 - 1),
             "u32": (0, 2 ** 32 - 1), "u64": (0, 2 ** 64 - 1), "pint": (-2 ** 63, 2 ** 63 - 1)}
TEXTS = ["", "a", "1", "01", "-1", "1.0", "2.5", "true", "<nil>", "{4 x}", "{e}", "node1", "node11", "10.0.0.1:6379",
         "\u043a\u043b\u044e\u0447\u00e9\u4e2d", "x y", "NaN", "+Inf", "255", "-128", "18446744073709551615", "[97 98]"]
TEXT_KINDS = ["str", "bytes", "stringer", "pstringer", "ppstringer", "err", "verr", "ppstr", "errstr", "pperrstr"]
F_IP = ["0", "1", "7", "12", "255", "1234", "100000", "999999", "1000000", "123456789012", "100000000000000000000"]
F_FP = ["", "5", "25", "125", "001", "0001", "00001", "000012345", "123456789"]


def float_sig(ip, fp):
    d = (ip + fp).lstrip("0")
    return len(d.rstrip("0") if not fp else d)


def float_text(rng, bits):
    """the shortest round-trip decimal text of a float32 / float64: at most 6 / 15 significant digits"""
    while True:
        ip, fp = rng.choice(F_IP), rng.choice(F_FP)
        if float_sig(ip, fp) <= (6 if bits == 32 else 15) and not (bits == 32 and len(ip) > 30):
            neg = rng.random() < 0.3 and (ip + fp).strip("0") != ""
            return ("-" if neg else "") + ip + ("." + fp if fp else "")


def repr_values(rng, n):
    vs = []
    for _ in range(n):
        r = rng.random()
        if r < 0.3:
            k = rng.choice(sorted(INT_RANGE))
            lo, hi = INT_RANGE[k]
            vs.append(K(k, rng.choice([lo, hi, 0, 1, max(lo, -1), hi // 2, rng.randint(lo, hi), rng.randint(max(lo, -300), min(hi, 300))])))
        elif r < 0.5:
            b = rng.choice([32, 64])
            vs.append(K("f%d" % b, rng.choice([float_text(rng, b)] * 6 + ["NaN", "+Inf", "-Inf"])))
        elif r < 0.9:
            vs.append(K(rng.choice(TEXT_KINDS), rng.choice(TEXTS + ["%d" % rng.randrange(300), "k%d" % rng.randrange(50)])))
        else:
            vs.append(rng.choice([K("nil", ""), K("nilptr", ""), K("bool", "true"), K("bool", "false"), K("struct", rng.randrange(-5, 300))]))
    return vs


def coq_bytes(text):
    return clist(["%d" % b for b in text.encode("utf-8")])


def coq_gval(v):
    k, t = v["kind"], v["v"]
    if k in INT_RANGE:
        lo, hi = INT_RANGE[k]
        assert lo <= int(t) <= hi, v
        return "(%s %s)" % ("VPtrInt" if k == "pint" else "VInt", cz(int(t)))
    if k in ("f32", "f64"):
        if t == "NaN":
            return "VNaN"
        if t in ("+Inf", "-Inf"):
            return "(VInf %s)" % ("true" if t[0] == "-" else "false")
        neg = t.startswith("-")
        ip, _, fp = t.lstrip("-").partition(".")
        return "(VFloat %s %s %s)" % ("true" if neg else "false", coq_bytes(ip), coq_bytes(fp))
    if k == "nil":
        return "VNil"
    if k == "bool":
        return "(VBool %s)" % ("true" if t == "true" else "false")
    if k == "struct":
        return "(VPair %s %s)" % (cz(int(t)), coq_bytes("x"))
    if k == "nilptr":
        return "VNilPtr"
    ctor = {"str": "VStr", "bytes": "VBytes", "stringer": "VStringer", "pstringer": "VStringer", "ppstringer": "VPPStringer",
            "err": "VErrPtr", "verr": "VErrVal", "ppstr": "VPPStr", "errstr": "VErrStr", "pperrstr": "VPPErrStr"}[k]
    return "(%s %s)" % (ctor, coq_bytes(t))


POINTER_KINDS = ("pstringer", "pint", "ppstr", "ppstringer", "verr", "err", "pperrstr")
VNODE_IDX = [0, 9, 10, 99]     # harness/cmd/c15/repr.go vnodeIdx


# ---- a twin of a universe value: a DIFFERENT value with the same repr --------------------------------
def twin(rng, v):
    k, t = v["kind"], v["v"]
    if k in ("str", "stringer", "pstringer", "bytes", "verr", "ppstringer", "ppstr"):
        ks = ["str", "stringer", "pstringer", "pstringer", "bytes", "verr", "ppstr"]
        if t.lstrip("-").isdigit() and str(int(t)) == t and abs(int(t)) < 100:
            ks += ["int", "i64", "i8", "pint"] + (["u8", "u"] if int(t) >= 0 else [])
        k2 = rng.choice([q for q in ks if q != k or q in ("pstringer", "ppstr")])
        return K(k2, t)
    if k in INT_RANGE:
        ks = ["str", "stringer", "pstringer", "pint", "pint"] + [q for q in INT_RANGE if INT_RANGE[q][0] <= int(t) <= INT_RANGE[q][1]]
        return K(rng.choice([q for q in ks if q != k or q == "pint"]), t)
    if k == "struct":
        return S("{%s x}" % t)
    if k == "bool":
        return S(t)
    if k in ("f32", "f64"):
        return S(t)
    return None


class C15(Property):
    id = "C15"
    title = "Consistent hashing: deterministic, member-only, minimally disruptive"
    quick_cases = 240
    thorough_cases = 5000
    design_ref = "DESIGN.md §6/C15"
    level_text = ("Unbounded Rocq theorems over the model of core/hash/consistenthash.go (keys, ring, nodes; Add/"
                  "AddWithReplicas/AddWithWeight/Remove/Get transcribed, the hash function a parameter) and over the "
                  "model of its users (Cluster.v: cacheCluster / clusterStore dispatch, multi-key Del grouping, the "
                  "cleaner's delayed retries). For every hash function and history: the ring invariant, Get never "
                  "fails, returns none iff no node has a live virtual node and otherwise a value of a node owning the "
                  "cyclic successor slot of the key's hash; a removed node is never returned. For every hash that is "
                  "injective on (node, index) pairs of the universe and every history: keys, buckets and Get are a "
                  "function of the nodes with >= 1 replica, their replica counts and values only (history "
                  "independence), and any operation on node n moves a key only to or from n. For every cluster "
                  "script (operations, multi-key Dels, injected store faults, cancelled contexts, ticks): every "
                  "command reaches dispatcher.Get(key)'s node, also as a retry, and a Del reaches the owner of each "
                  "key. The ring as a concurrent object (Conc.v: AddWithReplicas = [Remove] ; [insert], two atomic "
                  "actions): for every set of threads and every schedule the ring invariant holds, Get answers a "
                  "member owning the successor slot among the layers present, and a node whose Remove is followed by "
                  "no insertion is never returned. agrees => prop_ok is proved for ring histories, concurrent and identity cases. "
                  "The value a lookup returns is the one handed to the latest add of its repr (latest_value_wins, every hash). "
                  "Node identity: Repr.v models lang.Repr, innerRepr and the virtual-node strings repr+itoa(i) (pairwise "
                  "different per node); the strings the ring really hashes are observed through a recording hash.Func. Tied to the "
                  "source by differential execution: ring histories through the public API with murmur3 and a "
                  "small-range hash; cache.New / kv.NewStore clusters over miniredis servers whose command logs give "
                  "the (key, server) touches.")
    level_note = ("Trusted: Coq kernel + vm_compute; hand-written models; virtual-node and probe hashes are computed by "
                  "the harness with the same Func and lang.Repr and renumbered by rank; correspondence only on "
                  "generated histories / scripts; the key(s) of a redis command are read off its arguments by the "
                  "harness (script.go keysOf); harness/overlay/cache/zz_verif_c15.go adds a constructor so that the "
                  "executor owns the cleaner wheel's ticker. Known finding collision-bucket-insertion-order: with "
                  "coinciding virtual-node strings (node1/node11; a/a1/a12 three-way) the choice inside a bucket "
                  "depends on insertion order; the history/disruption theorems carry collision_free_on, "
                  "Pinned.bucket_order_refuted / add_moves_between_others_refuted are the witnesses, and two strict "
                  "corpus histories exhibit it on every run (KNOWN-FINDING); known() excuses only order-clause failures "
                  "located in slots shared by string-coinciding virtual nodes of a strict murmur history.")
    rule = ("ring: histories of 6..22 Add/AddWithReplicas/AddWithWeight/Remove over 2..6 nodes (every kind lang.Repr "
            "distinguishes, equal reprs, ambiguous names), replicas/weights from {<0, 0, 1, .., R, >R}, h.replicas "
            "100/120/150, 20 probe keys read after every op; 50% murmur3 + clean names, 20% murmur3 + ambiguous names, "
            "22% small-range hash, 8% a hash spread over the whole uint64 range (0, >= 2^63, MaxUint64: keys hashing exactly onto "
            "a virtual node, below the least, above the greatest); 45% of the universes carry twins (different values with the "
            "same repr: another pointer with the same String(), 7 / \"7\" / a Stringer / *int) re-added over each other with "
            "the same effective count (same call, or equal only after truncation to h.replicas). identity: values of every kind "
            "lang.Repr distinguishes (all integer widths at their bounds, float32/64 incl. NaN/Inf, string/[]byte/Stringer/"
            "error by value, by pointer, by pointer to pointer, nil, typed nil pointer, struct) through Get/Add/Remove with a "
            "recording hash func. clusters: 2-4 miniredis servers, 1-3 instances (cache.New / kv.NewStore, also "
            "single-node, same node set in different orders, 4-/5-digit colliding ports), scripts of single-key "
            "operations (the whole API of both), Del with 0/1/n keys, Del under an injected server fault or with a "
            "cancelled context, cleaner ticks (first and second retry), per-server snapshots; corpus: the whole API on "
            "every key. concurrency: 2-5 goroutines with 1-3 calls each on one ring, mostly on one contested node, a "
            "forced schedule at the granularity [Remove] ; [insert] (calls parked between their two critical sections "
            "by the node's String()), Get for 24 probes after every step, lookups parked between slot lookup and member "
            "pick (Stringer key on a shared slot) while a Remove / re-Add is started, add-type calls held inside the hashing "
            "of their virtual nodes (gated hash function) while a Remove + Add swap of other nodes is started. non-trivial = ring: two members, a remove or re-add, some probe changes owner; script: "
            "touches on >= 2 servers; distinct = canonical JSON hash of the case")
    trusted_base = [
        "models theories/C15/Model.v, Cluster.v are hand-written; tie = correspondence runs (harness/cmd/c15) through the public API",
        "the harness computes hashFunc(repr+itoa(i)), hashFunc(repr(key)), hashFunc(innerRepr(key)) itself (lang.Repr is "
        "the real one; the innerRepr format string is copied) — a change of these formulas shows up as a disagreement",
        "sort.Slice / sort.Search (Go standard library) are modelled as sorting and first-index->=",
        "cluster scripts: the key(s) named by a redis command are extracted from its arguments by the harness (keysOf); "
        "miniredis pre-hooks log and fail commands; harness/overlay/cache/zz_verif_c15.go ADDS VerifC15CleanerWheel to "
        "package cache (nothing replaced) so that ticks of the cleaner are explicit events",
        "node identity: Repr.v is a hand-written model of lang.Repr / fmt's %v on the harness's value kinds; a float is handed "
        "over as its shortest round-trip decimal text (<= 15 / 6 significant digits)",
        "hash.go: the hash function is a parameter of the model; hash.Hash / Md5 / Md5Hex are executed (functions of their "
        "input, input untouched, Md5Hex = hex of Md5) and compared with murmur3 x64_128 / RFC 1321 references for the record only",
        "forced schedules: a call is parked by its node's String() when that is evaluated by AddWithReplicas itself "
        "after its h.Remove(node) (recognised on the call stack); the executor reports which actions really ran and the "
        "model is run on that trace",
    ]
    assumptions = ["node identity is lang.Repr(node); the value returned is the value stored by the latest Add of that repr",
                   "the ring's critical sections (Remove; the insertion of AddWithReplicas; Get under the read lock) are atomic: "
                   "the RWMutex; calls interleave between them. Cluster scripts are sequential, the cleaner's goroutines are "
                   "awaited after every tick"]

    def regen(self, ctx):
        import c15consts
        return c15consts.regen()

    def prepare(self, ctx):
        ok, res = vlib.go_build("c15", overlay=OVERLAY)
        self.bin = res if ok else None
        return ok, ("" if ok else res)

    def extra(self, ctx):
        """Direct monitor: the empty-ring error path of the two users of the ring (white-box, the public
        constructors exit on a zero total weight): EVERY method of kv.Store / cache.Cache must fail with
        ErrNoRedisNode / the cluster's errNotFound, never panic or succeed."""
        import concurrent.futures

        def whitebox(pkg):
            rel = "core/stores/%s/verif_c15_test.go" % pkg
            rc, out, res = vlib.go_test_overlay("./core/stores/%s" % pkg,
                                                {rel: "%s/overlay/%s/verif_c15_test.go" % (vlib.HARNESS, pkg)},
                                                run="TestVerifC15Empty", cases=[], tag="c15" + pkg, timeout=600)
            if rc != 0 or len(res) != 1:
                raise ExecError("c15 empty-ring executor (%s) rc=%s: %s" % (pkg, rc, out[-1500:]))
            bad = [k for k in ("get", "set", "del", "incr", "all") if not res[0].get(k)] + (res[0].get("bad") or [])
            if bad:
                return [{"what": "%s cluster over an empty ring: %s did not report the no-node error" % (pkg, bad),
                         "replay": res[0]}]
            return []

        with concurrent.futures.ThreadPoolExecutor(max_workers=4) as ex:      # two go test builds, the hash and the lookups monitor
            jobs = [ex.submit(self._hash_monitor, ctx), ex.submit(whitebox, "kv"), ex.submit(whitebox, "cache"),
                    ex.submit(self._gets_monitor, ctx)]
            fails = [f for j in jobs for f in j.result()]
        if ctx.tier == "thorough":
            fails += self._free_monitor(ctx)
        return fails

    # ---- free-running goroutines under the race detector (thorough tier) --------------------------
    def _gen_free(self, rng):
        pool = rng.choice([["alpha", "beta", "gamma", "delta", "eps"], ["1", "11", "12", "2", "111"],
                           ["node1", "node11", "node2", "node12", "node"], ["a", "a1", "a12", "b", "a2"]])
        names = rng.sample(pool, rng.randint(2, 5))
        nodes = [(S if rng.random() < 0.5 else ST)(x) for x in names]
        if rng.random() < 0.4:
            nodes.append(ST(names[0]))           # another value with the same repr
        R = rng.choice([0, 0, 120, 150])
        Reff = max(R, 100)
        ps = probes(rng, 16)
        shared = self._shared_strings([n["v"] for n in nodes], Reff)
        if shared:
            ps = [S(k) for k in rng.sample(shared, min(6, len(shared)))] + ps[:10]
        threads = []
        for _ in range(rng.randint(3, 6)):
            ops = []
            for _ in range(rng.randint(30, 80)):
                x = rng.random()
                k = rng.randrange(len(nodes))
                if x < 0.55:
                    ops.append(["get", rng.randrange(len(ps))])
                elif x < 0.7:
                    ops.append(["add", k])
                elif x < 0.78:
                    ops.append(["addr", k, rng.choice([0, 1, 7, 50, Reff, Reff + 9, -2])])
                elif x < 0.88:
                    ops.append(["addw", k, rng.choice([0, 1, 10, 50, 100, 150])])
                else:
                    ops.append(["remove", k])
            threads.append(ops)
        if rng.random() < 0.2:
            # nothing but lookups once the ring stands (a write during a lookup is a data race for -race)
            threads = [[["add", k] for k in range(len(nodes))] + [["get", rng.randrange(len(ps))] for _ in range(60)]] + \
                      [[["get", rng.randrange(len(ps))] for _ in range(rng.randint(40, 80))] for _ in range(rng.randint(2, 5))]
        return {"kind": "free", "r": R, "nodes": nodes, "threads": threads, "probes": ps}

    def _free_judge(self, case, obs):
        """Every Get answer must be admissible for SOME linearisation point inside the call, given only the
        invocation/response intervals of the membership calls.  Per repr, a layer (replicas, value) of an
        add-type call c is
          certain at the lookup  iff c returned before the lookup was invoked and every other membership call
                                 on that repr returned before c was invoked or was invoked after the lookup returned;
          possible               iff c was invoked before the lookup returned and no membership call on that
                                 repr was invoked after c returned and returned before the lookup was invoked.
        An answer v is admissible iff some possible layer with value v has a virtual-node hash h such that no
        certain virtual-node hash lies strictly between the key's hash and h (cyclically); none is admissible
        iff no layer is certain.  (Reprs are treated independently: a superset of the exact set, so a correct
        ring is never flagged.)  Returns the list of inadmissible answers."""
        R = obs["r"]
        M = 2 ** 64
        vh = [[int(x) for x in row] for row in obs["vh"]]
        calls = {}     # repr -> [(inv, res, eff replicas or None for Remove, value idx)]
        gets = []
        for ops, evs in zip(case["threads"], obs["events"]):
            for o, (inv, res, ans) in zip(ops, evs):
                if o[0] == "get":
                    gets.append((inv, res, o[1], ans))
                else:
                    eff = None if o[0] == "remove" else max(0, min(add_replicas(o, R), R))
                    calls.setdefault(obs["reprs"][o[1]], []).append((inv, res, eff, o[1]))
        big = 10 ** 18
        gets += [(big, big, p, a) for p, a in enumerate(obs["gets"][0])]     # the final mapping
        bad = []
        for gi, gr, p, ans in gets:
            hp = int(obs["ph"][p][0])
            certain, possible = [], []       # hashes; (hashes, value)
            for rp, cs in calls.items():
                for c in cs:
                    inv, res, eff, k = c
                    if not eff:
                        continue
                    hs = vh[k][:eff]
                    if res < gi and all(c2 is c or c2[1] < inv or c2[0] > gr for c2 in cs):
                        certain += hs
                    if inv < gr and not any(c2[0] > res and c2[1] < gi for c2 in cs):
                        possible.append((hs, k))
            dist = lambda x: (x - hp) % M
            nearest = min((dist(x) for x in certain), default=None)
            if ans == -1:
                ok = nearest is None
            elif ans < 0:
                ok = False
            else:
                ok = any(k == ans and any(nearest is None or dist(x) <= nearest for x in hs) for hs, k in possible)
            if not ok:
                bad.append({"probe": p, "answer": ans, "interval": [gi, gr]})
        return bad

    def _free_monitor(self, ctx):
        import random
        out_bin = os.path.join(vlib.HARNESS, "bin", "c15-race")
        cmd = ["go", "build", "-race", "-modfile", vlib.harness_modfile(), "-tags", "verif", "-o", out_bin]
        ovp = vlib.write_overlay(OVERLAY, "build_c15race")
        if ovp:
            cmd += ["-overlay", ovp]
        rc, out = vlib.sh(cmd + ["./cmd/c15"], cwd=vlib.HARNESS, env=vlib.goenv(), timeout=1200)
        if rc != 0:
            raise ExecError("c15 -race build failed: %s" % out[-1500:])
        rng = random.Random(ctx.seed * 7919 + 15)
        cases = [self._gen_free(rng) for _ in range(120)]
        for i, c in enumerate(cases):
            c["id"] = i
        rc, out, res = vlib.go_run(out_bin, cases, tag="c15race", timeout=900,
                                   env={"VERIF_C15_AS_MB": "0", "GORACE": "halt_on_error=0 exitcode=66"})
        fails = []
        if "DATA RACE" in out or rc == 66:
            fails.append({"what": "the race detector reported a data race on ConsistentHash under free-running "
                                  "Add/AddWithReplicas/AddWithWeight/Remove/Get goroutines: " + out[-1800:],
                          "replay": {"kind": "free", "race_report": out[-6000:]}})
        elif rc != 0 or len(res) != len(cases):
            raise ExecError("c15 -race executor rc=%s: %s" % (rc, out[-2000:]))
        ngets = 0
        for c, o in zip(cases, res):
            ngets += sum(1 for ops in c["threads"] for q in ops if q[0] == "get")
            bad = self._free_judge(c, o)
            if bad:
                fails.append({"what": "free-running goroutines: Get answered a node that no linearisation of the "
                                      "overlapping Add/Remove calls admits (or none / a foreign value): %s" % bad[:3],
                              "replay": {"case": c, "observed": o, "inadmissible": bad[:10]}})
                if len(fails) >= 3:
                    break
        ctx.notes.append("C15 free-running -race monitor: %d cases, %d Get answers judged against the admissible owners" % (len(cases), ngets))
        return fails

    def corpus(self):
        return self._value_corpus() + self._repr_corpus() + self._ring_corpus() + [
            self._cluster("cache", [100, 100], ["a", "b", "c", "user:1", "user:2", "order#77", "x", "y"]),
            self._cluster("cache", [100, 1, 0, 50], ["k%d" % i for i in range(24)]),
            self._cluster("kv", [100], ["a", "b", "c"]),
            self._cluster("kv", [10, 100, 100], ["k%d" % i for i in range(24)]),
        ] + self._script_corpus() + self._conc_corpus() + self._gets_corpus()

    # ---- the VALUE of a member: last added value wins (seeded C15-10) ---------------------------------
    def _value_corpus(self):
        """Membership is keyed by the repr, a lookup returns the VALUE stored in the slots.  Different values
        with equal repr (two pointers with the same String(), int 7 / "7" / a Stringer printing 7 / int64,
        a struct and the string fmt.Sprint gives for it) are re-added over each other with the same effective
        replica count — same weight, same count, counts equal only after truncation to h.replicas, zero — and
        after a Remove: every answer must be the value of the LATEST add of that repr."""
        P = [S("key%d" % i) for i in range(34)] + [I(42), ST("user:7")]
        A = "10.0.0.1:6379"
        res = []
        for R, over, over2 in ((0, 150, 1000), (150, 200, 100000)):
            Reff = max(R, 100)
            nodes = [PST(A), PST(A), S("10.0.0.2:6379"), I(7), S("7"), ST("7"), I64(7), K("struct", 4), S("{4 x}"),
                     K("pint", 7), PST(A), K("bytes", "7")]
            ops = [["add", 0], ["add", 2], ["add", 1],                        # another pointer, same weight
                   ["addw", 3, 50], ["addw", 4, 50], ["addw", 5, 50],         # 7, "7", Stringer 7: equal weight
                   ["addr", 6, over], ["addr", 9, over2], ["add", 11],        # equal only after truncation; Add
                   ["add", 7], ["add", 8], ["addw", 7, 100],                  # struct / its text
                   ["remove", 1], ["add", 0], ["add", 10], ["addr", 1, Reff], # after a Remove; a third pointer
                   ["addr", 3, 1], ["addr", 4, 1], ["addw", 5, 1], ["addr", 6, 1],   # one virtual node each time
                   ["addw", 4, 0], ["addr", 5, -3], ["addw", 3, 0],           # no virtual node: nobody answers for 7
                   ["addw", 4, 99], ["addr", 3, Reff - 1],                    # 99 % of 100 / 150 is not Reff - 1 for 150
                   ["remove", 2], ["add", 10], ["add", 0]]
            res.append({"hash": "murmur", "mod": 0, "r": R, "nodes": nodes, "ops": ops, "probes": P})
        # the same class on a small-range and on an edge-valued hash function (shared slots: Remove filters by repr)
        for hk, mod in (("small", 37), ("edge", 16)):
            res.append({"hash": hk, "mod": mod, "r": 0, "nodes": [PST("n1"), PST("n1"), I(5), S("5"), S("other")],
                        "ops": [["add", 0], ["add", 4], ["add", 1], ["addw", 2, 10], ["addw", 3, 10], ["add", 0],
                                ["addr", 3, 200], ["addr", 2, 100], ["remove", 4], ["add", 1], ["remove", 0], ["add", 3], ["add", 2]],
                        "probes": P[:30]})
        # hash values at the ends of uint64 (0, 2^63 and above, MaxUint64): a key hashing exactly onto a virtual
        # node, below the least, above the greatest (wrap to the least)
        res.append({"hash": "edge", "mod": 256, "r": 0, "nodes": [S("alpha"), S("beta"), S("gamma")],
                    "ops": [["addr", 0, 3], ["addr", 1, 2], ["addr", 2, 4], ["remove", 0], ["addr", 0, 5], ["remove", 1], ["remove", 2],
                            ["remove", 0], ["addr", 1, 1]],
                    "probes": [S("key%d" % i) for i in range(80)]})
        return res

    # ---- node identity (harness/cmd/c15/repr.go, Repr.v) ------------------------------------------------
    def _repr_case(self, vals):
        return {"kind": "repr", "nodes": vals, "hash": "murmur", "mod": 0, "r": 0, "ops": [], "probes": []}

    def _repr_corpus(self):
        vals = []
        for k in sorted(INT_RANGE):
            lo, hi = INT_RANGE[k]
            vals += [K(k, x) for x in sorted(set([lo, hi, 0, 1, 7, 10, max(lo, -1), max(lo, -128), min(hi, 255)]))]
        for k in TEXT_KINDS:
            vals += [K(k, t) for t in TEXTS]
        vals += [K("nil", ""), K("nilptr", ""), K("bool", "true"), K("bool", "false"), K("struct", 4), K("struct", -1), K("struct", 0),
                 S("S:a"), S("E:a"), S("{a}")]
        for b, texts in ((64, ["0", "1", "7", "2.5", "-2.5", "0.1", "0.25", "255", "100000", "999999", "1000000", "1234567", "0.0001",
                               "0.00001", "0.000012345", "123456.789", "123456789012.125", "100000000000000000000", "-0.001", "NaN", "+Inf", "-Inf"]),
                         (32, ["0", "1", "7", "2.5", "-2.5", "0.1", "0.25", "255", "100000", "999999", "1000000", "0.0001", "0.00001",
                               "1234.5", "-1000000", "16777200", "NaN", "+Inf", "-Inf"])):
            vals += [K("f%d" % b, t) for t in texts]
        return [self._repr_case(vals)]

    def _coq_repr(self, case, obs):
        hx = lambda h: clist(["%d" % b for b in bytes.fromhex(h)])
        n = len(VNODE_IDX)
        rows = []
        for v, row in zip(case["nodes"], obs["rx"]):
            seen = [q for q in range(n) if row[3 + q] != "-" and row[3 + n + q] != "-"]      # "-": not observed
            adds = clist(["(%d, %s)" % (VNODE_IDX[q], hx(row[3 + q])) for q in seen])
            rems = clist(["(%d, %s)" % (VNODE_IDX[q], hx(row[3 + n + q])) for q in seen])
            rows.append("mkPval %s %s %s %s %s %s" % (coq_gval(v), hx(row[0]), hx(row[1]), hx(row[2]), adds, rems))
        return "ReprCase %s" % clist(rows)

    # ---- hash.go: Hash / Md5 / Md5Hex (direct monitor) ---------------------------------------------------
    @staticmethod
    def _murmur3_64(data):
        """murmur3 x64_128 with seed 0, first half: what github.com/spaolacci/murmur3 Sum64 computes"""
        M = 2 ** 64 - 1
        rotl = lambda x, r: ((x << r) | (x >> (64 - r))) & M
        c1, c2 = 0x87c37b91114253d5, 0x4cf5ad432745937f

        def fmix(k):
            k ^= k >> 33
            k = (k * 0xff51afd7ed558ccd) & M
            k ^= k >> 33
            k = (k * 0xc4ceb9fe1a85ec53) & M
            return k ^ (k >> 33)

        h1 = h2 = 0
        nb = len(data) // 16
        for i in range(nb):
            k1 = int.from_bytes(data[16 * i:16 * i + 8], "little")
            k2 = int.from_bytes(data[16 * i + 8:16 * i + 16], "little")
            k1 = (rotl((k1 * c1) & M, 31) * c2) & M
            h1 = ((rotl(h1 ^ k1, 27) + h2) * 5 + 0x52dce729) & M
            k2 = (rotl((k2 * c2) & M, 33) * c1) & M
            h2 = ((rotl(h2 ^ k2, 31) + h1) * 5 + 0x38495ab5) & M
        tail = data[16 * nb:]
        if len(tail) > 8:
            k2 = int.from_bytes(tail[8:], "little")
            h2 ^= (rotl((k2 * c2) & M, 33) * c1) & M
        if tail:
            k1 = int.from_bytes(tail[:8], "little")
            h1 ^= (rotl((k1 * c1) & M, 31) * c2) & M
        h1 ^= len(data)
        h2 ^= len(data)
        h1 = (h1 + h2) & M
        h2 = (h2 + h1) & M
        h1, h2 = fmix(h1), fmix(h2)
        return (h1 + h2) & M

    def _gets_monitor(self, ctx):
        """Free-running pure-lookup concurrency on ONE fixed ring (quick tier, no schedule forced): 8 goroutines
        run rounds over all probes as fast as they can; every answer must be the quiescent ring's answer
        (reads do not write).  No false alarm possible on a correct ring; a lookup that scribbles on shared
        state shows up with a probability that grows with the real parallelism of the machine — the forced
        schedules (conc steps "gg") are the deterministic counterpart."""
        five = [S("node-%d" % i) for i in range(5)]
        P = [S("user:%d" % (1000 + i)) for i in range(24)]
        SP = [S("11%d" % j) for j in range(10)] + [S("key:%d" % i) for i in range(14)]
        cases = [{"id": 0, "kind": "gets", "r": 0, "mod": 3000, "nodes": five, "threads": [[]] * 8, "probes": P},
                 {"id": 1, "kind": "gets", "r": 150, "mod": 3000, "nodes": [S("1"), S("11"), S("other")], "threads": [[]] * 8, "probes": SP}]
        rc, out, res = vlib.go_run(self.bin, cases, tag="c15", timeout=300)
        if rc != 0 or len(res) != len(cases):
            raise ExecError("c15 concurrent-lookups executor rc=%s: %s" % (rc, out[-1500:]))
        fails, total = [], 0
        for c, o in zip(cases, res):
            row = o["rx"][0]
            total += int(row[0])
            if int(row[1]):
                fails.append({"what": "free-running concurrent lookups on a fixed ring: %s of %s Get answers differ from the "
                                      "quiescent ring's (probe/got/want: %s)" % (row[1], row[0], row[2:]),
                              "replay": {"case": c, "observed": o}})
        ctx.notes.append("C15 free-running lookups on a fixed ring: %d Get answers compared with the quiescent answers" % total)
        return fails

    def _hash_monitor(self, ctx):
        """hash.go as the ring uses it: Hash is a FUNCTION of the bytes (equal results when evaluated again, the
        input left untouched — the ring hashes repr+itoa(i) when adding and again when removing, and every key
        at every lookup); Md5Hex is the hex text of Md5.  Reported, not judged (the property does not say which
        hash function): whether Hash is still murmur3 x64_128's first half and Md5 still RFC 1321."""
        import hashlib
        import random
        rng = random.Random(ctx.seed * 31 + 15)
        data = [b"", b"a", b"abc", b"node1" + b"10", b"node11" + b"0", bytes(range(256)), b"\x00", b"\xff" * 17,
                "\u043a\u043b\u044e\u0447".encode()] + [bytes(rng.randrange(256) for _ in range(n)) for n in (1, 7, 8, 9, 15, 16, 17, 31, 32, 33, 100, 1000)]
        rc, out, res = vlib.go_run(self.bin, [{"id": 0, "kind": "hashfn", "data": [d.hex() for d in data]}], tag="c15", timeout=300)
        if rc != 0 or len(res) != 1 or res[0].get("err") or len(res[0].get("rx") or []) != len(data):
            raise ExecError("c15 hash executor rc=%s: %s" % (rc, out[-1500:]))
        fails, murmur, md5ok = [], True, True
        for d, (h1, h2, x1, x2, m1, m2, same) in zip(data, res[0]["rx"]):
            if h1 != h2 or same != "1":
                fails.append({"what": "hash.Hash is not a function of its input: Hash(%s) = %s, again %s, input %s" %
                                      (d.hex()[:40], h1, h2, "unchanged" if same == "1" else "MODIFIED"),
                              "replay": {"kind": "hashfn", "data": d.hex(), "observed": [h1, h2, same]}})
            if not (x1 == x2 == m1 == m2):
                fails.append({"what": "Md5Hex / Md5 disagree or are not functions of their input on %s: %s" % (d.hex()[:40], [x1, x2, m1, m2]),
                              "replay": {"kind": "hashfn", "data": d.hex(), "observed": [x1, x2, m1, m2]}})
            murmur = murmur and int(h1) == self._murmur3_64(d)
            md5ok = md5ok and x1 == hashlib.md5(d).hexdigest()
        ctx.notes.append("C15 hash.go: %d inputs; Hash %s murmur3 x64_128 (first half, seed 0); Md5/Md5Hex %s RFC 1321 (hashlib)" %
                         (len(data), "==" if murmur else "IS NOT", "==" if md5ok else "ARE NOT"))
        return fails[:3]

    def _ring_corpus(self):
        P = [S("x"), S("key2"), S("key60"), S("key80"), S("key157"), I(42)] + [S("key%d" % i) for i in range(20)]
        return [
            # Remove of a node with fewer replicas whose never-added index string equals a live key
            {"hash": "murmur", "mod": 0, "r": 0, "nodes": [S("11"), S("1")],
             "ops": [["addw", 0, 1], ["addw", 1, 10], ["remove", 1]], "probes": P},
            {"hash": "murmur", "mod": 0, "r": 0, "nodes": [S("node11"), S("node2"), S("node1")],
             "ops": [["add", 0], ["add", 1], ["addw", 2, 10], ["remove", 2]], "probes": P},
            {"hash": "murmur", "mod": 0, "r": 0, "nodes": [S("node11"), S("node2"), S("node1")],
             "ops": [["add", 0], ["add", 1], ["addw", 2, 10], ["addw", 2, 5]], "probes": P},
            # bucket order
            {"hash": "murmur", "mod": 0, "r": 0, "nodes": [S("node1"), S("node11")],
             "ops": [["add", 0], ["add", 1], ["remove", 0], ["add", 0]], "probes": P},
            # EXHIBIT of the known finding collision-bucket-insertion-order: Add(node1);Add(node11), empty the
            # ring, Add(node11);Add(node1): same node map after op 2 and op 6, different answers for the keys
            # landing in the ten slots "node110".."node119" shared by the two nodes (real murmur3).  "strict"
            # makes prop_ok evaluate the order clauses although the universe has collisions.
            {"hash": "murmur", "mod": 0, "r": 0, "nodes": [S("node1"), S("node11")], "strict": True,
             "ops": [["add", 0], ["add", 1], ["remove", 0], ["remove", 1], ["add", 1], ["add", 0]], "probes": P},
            # the same finding with a THREE-way coincidence under real murmur3 (h.replicas = 150): "a"+"12x" ==
            # "a1"+"2x" == "a12"+"x" for x = 0..9.  key85 lands in such a slot: served by "a" while the bucket is
            # [a, a1] (inner hash % 2 = 0), by "a1" once "a12" joined (% 3 = 1) — adding a node moved a key
            # between two OTHER nodes.
            {"hash": "murmur", "mod": 0, "r": 150, "nodes": [S("a"), S("a1"), S("a12")], "strict": True,
             "ops": [["add", 0], ["add", 1], ["add", 2]],
             "probes": [S("key85"), S("key115"), S("key191"), S("key180")] + P},
            # a 7-slot hash (everything collides, by hash VALUE): not an instance of the known finding, hence not
            # strict — only the clauses that hold for every hash are judged, and the model must agree
            {"hash": "small", "mod": 7, "r": 0, "nodes": [S("alpha"), S("beta"), S("gamma")],
             "ops": [["add", 0], ["add", 1], ["add", 2], ["remove", 2], ["remove", 0], ["add", 0]], "probes": P},
            # equal reprs replace each other; zero replicas; > max
            {"hash": "murmur", "mod": 0, "r": 120, "nodes": [I(7), S("7"), ST("7"), S("alpha")],
             "ops": [["add", 0], ["add", 3], ["addr", 1, 5], ["addw", 2, 150], ["addr", 3, 0], ["remove", 0], ["remove", 3]],
             "probes": P},
            {"hash": "small", "mod": 7, "r": 0, "nodes": [S("alpha"), S("beta"), S("gamma")],
             "ops": [["add", 0], ["addw", 1, 3], ["add", 2], ["remove", 0], ["addr", 1, 1], ["remove", 2], ["remove", 1]],
             "probes": P},
        ]

    def gen(self, rng, n, tier):
        cases = []
        for _ in range(n):
            r = rng.random()
            if r < 0.5:
                hk, mod, pool = "murmur", 0, CLEAN
            elif r < 0.7:
                hk, mod, pool = "murmur", 0, AMBIGUOUS
            elif r < 0.92:
                hk, mod, pool = "small", rng.choice([7, 37, 211, 1009]), rng.choice([CLEAN, AMBIGUOUS])
            else:
                # values spread over the whole uint64 range, 0 and MaxUint64 included (m - 1 divides 2^64 - 1)
                hk, mod, pool = "edge", rng.choice([4, 6, 16, 18, 52, 256, 258, 772]), rng.choice([CLEAN, AMBIGUOUS])
            nodes = rng.sample(pool, rng.randint(2, 6))
            # twins: DIFFERENT values with the repr of a node of the universe (another pointer with the same
            # String(), 7 / "7" / a Stringer printing 7): a later add of a twin must replace the former value
            twins = {}
            if rng.random() < 0.45:
                for k in rng.sample(range(len(nodes)), rng.randint(1, min(2, len(nodes)))):
                    tw = twin(rng, nodes[k])
                    # a twin must be a DIFFERENT Go value: the same (kind, text) again is one only for pointer kinds
                    if tw is not None and (tw["kind"] in POINTER_KINDS or tw not in nodes):
                        twins.setdefault(k, []).append(len(nodes))
                        nodes = nodes + [tw]
            R = rng.choice([0, 0, 0, 0, 50, 120, 150])
            Reff = max(R, 100)
            bigw = rng.random() < 0.1   # weights whose product with h.replicas leaves Go's int: judged by agreement only
            ops = []
            for _ in range(rng.randint(6, 22)):
                k = rng.randrange(len(nodes))
                x = rng.random()
                last = ops[-1] if ops else None
                if twins and last and last[0] != "remove" and rng.random() < 0.5:
                    # the previous add again, on a twin of its node, with the same effective count: same call,
                    # or a count that is the same only after truncation to h.replicas
                    grp = next(([a] + b for a, b in twins.items() if last[1] == a or last[1] in b), None)
                    if grp:
                        k2 = rng.choice([q for q in grp if q != last[1]])
                        o = [last[0], k2] + last[2:]
                        eff = max(0, min(add_replicas(last, Reff), Reff))
                        if rng.random() < 0.4:
                            o = ["addr", k2, eff if eff < Reff or rng.random() < 0.5 else Reff + rng.choice([1, 50, 900])]
                        ops.append(o)
                        continue
                if x < 0.3:
                    ops.append(["add", k])
                elif x < 0.55:
                    ops.append(["addr", k, rng.choice(REPLICAS + [Reff, Reff - 1, Reff + 1] + (BIG if rng.random() < 0.15 else []))])
                elif x < 0.8:
                    ops.append(["addw", k, rng.choice(WEIGHTS + (BIG if bigw and rng.random() < 0.4 else []))])
                else:
                    ops.append(["remove", k])
            cases.append({"hash": hk, "mod": mod, "r": R, "nodes": nodes, "ops": ops, "probes": probes(rng, 20)})
        # node identity: random values of every kind
        for j in range(max(3, n // 60)):
            cases.append(self._repr_case(repr_values(rng, 40)))
        # users of the ring: 2-4 node clusters on miniredis through cache.New and kv.NewStore
        for j in range(max(8, n // 8)):
            k = rng.randint(2, 4)
            ws = [rng.choice([100, 100, 50, 10, 1, 0, 150]) for _ in range(k)]
            if sum(max(w, 0) for w in ws) <= 0:
                ws[0] = 100
            cases.append(self._cluster(("cache", "kv")[j % 2], ws,
                                       ["k%d" % rng.randrange(10 ** 6) for _ in range(24)]))
        for j in range(max(12, n // 4)):
            cases.append(self._gen_script(rng))
        for j in range(max(40, n // 4)):
            cases.append(self._gen_conc(rng))
        return cases

    # ---- cluster scripts (harness/cmd/c15/script.go) ------------------------------------------
    def _script(self, ports, insts, skeys, sops):
        return {"kind": "script", "ports": ports, "insts": insts, "skeys": skeys, "sops": sops,
                "hash": "murmur", "mod": 0, "r": 0, "nodes": [], "ops": [], "probes": []}

    def _kv_keys(self, i, tag, per_type=1):
        return [{"inst": i, "k": "%s%d:%s%d" % (t, i, tag, j)} for t in "shlpez" for j in range(per_type)]

    def _script_corpus(self):
        res = []
        # (1) a multi-key Del on a cache cluster while one node rejects it: the node retries ITS keys a tick
        # later; once with the fault lifted before the retry, once after (second retry 5 ticks later); each
        # node in turn.  Every key was written on every server first, so the snapshots show per server
        # exactly which keys were deleted.
        keys = [{"inst": 0, "k": "demo/%d" % j} for j in range(10)]
        sops = []
        for srv in (0, 1, 2):
            sops += [["populate"], ["fault", srv, 1], ["del", 0, list(range(10))], ["snap"], ["fault", srv, 0], ["tick"],
                     ["snap"], ["tick"]]
        # the context of the Del is already cancelled: no node can send its DEL, every node retries its own keys
        sops += [["populate"], ["delx", 0, list(range(10))], ["snap"], ["tick"], ["snap"], ["delx", 0, [3]], ["delx", 0, []],
                 ["tick"], ["tick"]]
        sops += [["populate"], ["fault", 1, 1], ["del", 0, [0, 1, 2, 3, 4, 5]], ["del", 0, [6]], ["tick"], ["snap"],
                 ["fault", 1, 0]] + [["tick"]] * 5 + [["snap"], ["del", 0, []], ["del", 0, [7, 7, 8]], ["snap"]]
        res.append(self._script([20101, 20102, 20103],
                                [{"kind": "cache", "nodes": [[0, 100], [1, 100], [2, 100]]}], keys, sops))
        # (2) two cache clusters and a kv store over the same three servers, configured in different orders
        # with the same weights (same rings), plus a kv store on a subset: EVERY operation of both APIs on
        # EVERY key of the right type (6 per type: an operation that dispatches on anything but its key is
        # caught whatever the owners happen to be)
        keys = [{"inst": 0, "k": "c0:%d" % j} for j in range(6)] + [{"inst": 1, "k": "c1:%d" % j} for j in range(6)]
        k2 = len(keys)
        keys += self._kv_keys(2, "a", 6)
        k3 = len(keys)
        keys += self._kv_keys(3, "b" + "z" * 70, 3)   # long keys differing only after the 70th byte
        sops = []
        for name in CACHE_OPS + ["get", "take", "takex"]:
            for j in range(6):
                sops += [["op", 0, name, j], ["op", 1, name, 6 + j]]
        for i, base, per in ((2, k2, 6), (3, k3, 3)):
            for ti, t in enumerate("shlpez"):
                for name in KV_OPS[t]:
                    sops += [["op", i, name, base + ti * per + q] for q in range(per)]
        sops += [["del", 0, [0, 1, 2, 3, 4, 5]], ["del", 1, [6, 7, 8, 9, 10, 11]], ["del", 2, list(range(k2, k3))],
                 ["del", 3, [k3]], ["del", 3, []], ["tick"]]
        res.append(self._script([20111, 20112, 20113],
                                [{"kind": "cache", "nodes": [[0, 100], [1, 50], [2, 100]]},
                                 {"kind": "cache", "nodes": [[2, 100], [0, 100], [1, 50]]},
                                 {"kind": "kv", "nodes": [[1, 50], [2, 100], [0, 100]]},
                                 {"kind": "kv", "nodes": [[2, 60], [1, 150]]}], keys, sops))
        # (3) a one-node "cluster" (cache.New returns the node itself) beside a two-node one
        keys = [{"inst": 0, "k": "one:%d" % j} for j in range(4)] + \
               [{"inst": 1, "k": "two:" + "y" * 80 + "\u00fc%d" % j} for j in range(6)]
        sops = [["op", 0, "set", 0], ["op", 0, "take", 1], ["fault", 1, 1], ["del", 0, [0, 1, 2]], ["del", 1, [4, 5, 6, 7, 8, 9]],
                ["fault", 1, 0], ["tick"], ["op", 1, "get", 4], ["populate"], ["del", 0, [3]], ["del", 1, [4, 5]], ["snap"]]
        res.append(self._script([20121, 20122],
                                [{"kind": "cache", "nodes": [[1, 10]]}, {"kind": "cache", "nodes": [[0, 100], [1, 100]]}],
                                keys, sops))
        # (4) the error path of the dispatch through the PUBLIC constructors: total weight > 0, yet no node gets a
        # virtual node (h.replicas * weight wraps Go's int to 0) — the ring is empty, every operation on a key must
        # answer the no-node error (kv.ErrNoRedisNode / the cluster's errNotFound) and send nothing; beside a
        # store with nodes over the same servers, which never answers it
        W0 = 92233720368547759
        keys = self._kv_keys(0, "e", 1) + [{"inst": 1, "k": "ce:%d" % j} for j in range(4)] + self._kv_keys(2, "f", 1)
        k1, k2 = 6, 10
        sops = [["populate"]]
        for ti, t in enumerate("shlpez"):
            sops += [["op", 0, name, ti] for name in KV_OPS[t]]
        sops += [["del", 0, [0]], ["del", 0, [0, 1, 2]], ["del", 0, []], ["delx", 0, [3, 4]]]
        sops += [["op", 1, name, k1 + q % 4] for q, name in enumerate(CACHE_OPS)]
        sops += [["del", 1, [k1]], ["del", 1, [k1, k1 + 1, k1 + 2]], ["del", 1, []], ["delx", 1, [k1 + 3]], ["tick"]]
        for ti, t in enumerate("shlpez"):
            sops += [["op", 2, KV_OPS[t][0], k2 + ti]]
        sops += [["del", 2, [k2, k2 + 1]], ["del", 2, []], ["snap"]]
        res.append(self._script([20131, 20132],
                                [{"kind": "kv", "nodes": [[0, W0], [1, W0]]}, {"kind": "cache", "nodes": [[1, W0], [0, W0]]},
                                 {"kind": "kv", "nodes": [[0, 100], [1, 50]]}], keys, sops))
        return res

    def _gen_script(self, rng):
        nsrv = rng.randint(2, 4)
        if rng.random() < 0.15:
            # a 4-digit and a 5-digit port whose virtual-node strings coincide ("...:2345"+"67" == "...:23456"+"7")
            p4 = rng.randrange(2011, 2999)
            ports = [p4, p4 * 10 + rng.randrange(10)] + rng.sample(range(20011, 29989), nsrv - 2)
            rng.shuffle(ports)
        else:
            ports = rng.sample(range(20011, 29989), nsrv)
        insts, skeys = [], []
        for i in range(rng.choice([1, 2, 2, 3])):
            kind = "cache" if (i == 0 and rng.random() < 0.8) or rng.random() < 0.5 else "kv"
            k = rng.choice([1, 2, nsrv, nsrv, nsrv])
            srv = rng.sample(range(nsrv), min(k, nsrv))
            nodes = [[sv, rng.choice(CLUSTER_WEIGHTS)] for sv in srv]
            if len(nodes) > 1 and rng.random() < 0.12:
                # a weight whose product with h.replicas wraps Go's int: 0, 1 or all virtual nodes (one per
                # instance: TotalWeights must not overflow; not on a single-node cache, which has no ring)
                nodes[rng.randrange(len(nodes))][1] = rng.choice([92233720368547759, 184467440737095518,
                                                                 92233720368547758, 2 ** 62, -5, -2 ** 62])
            if sum(max(w, 0) for _, w in nodes) <= 0:
                nodes[0][1] = 100
            insts.append({"kind": kind, "nodes": nodes})
            tag = "%d/" % rng.randrange(10 ** 6)
            r = rng.random()
            if r < 0.2:      # long keys sharing a long prefix
                tag += "x" * rng.choice([61, 64, 100, 255]) + "/"
            elif r < 0.3:    # not ASCII
                tag += "ключ\u00e9\u4e2d/"
            if kind == "cache":
                skeys += [{"inst": i, "k": "c%d:%s%d" % (i, tag, j)} for j in range(rng.randint(6, 12))]
                if rng.random() < 0.15 and not any(k["k"] in ("", "*") for k in skeys):
                    # sentinel data as keys: the empty key, and the not-found placeholder's text
                    skeys += [{"inst": i, "k": ""}, {"inst": i, "k": "*"}]
            else:
                skeys += self._kv_keys(i, tag, rng.choice([1, 2]))
        mine = lambda i: [q for q, k in enumerate(skeys) if k["inst"] == i]
        fails = [0] * nsrv
        sops = []
        faulty = set()

        def some_del(i, under_fault):
            ks = mine(i)
            r = rng.random()
            if insts[i]["kind"] == "kv" and under_fault:
                n = rng.randint(1, 2)
            else:
                n = 0 if r < 0.05 else 1 if r < 0.2 else rng.randint(2, len(ks))
            sel = rng.sample(ks, min(n, len(ks)))
            if sel and rng.random() < 0.1:
                sel.append(sel[0])
            return ["del", i, sel]

        def single(i):
            q = rng.choice(mine(i))
            if insts[i]["kind"] == "cache":
                return ["op", i, rng.choice(CACHE_OPS), q]
            return ["op", i, rng.choice(KV_OPS[skeys[q]["k"][0]]), q]

        for _ in range(rng.randint(2, 5)):
            i = rng.randrange(len(insts))
            if rng.random() < 0.45:
                for _ in range(rng.randint(3, 10)):
                    sops.append(some_del(i, False) if rng.random() < 0.25 else single(rng.randrange(len(insts))))
                continue
            if rng.random() < 0.25:
                # a Del whose context is already cancelled: nothing is sent; cache nodes retry a tick later
                d = some_del(i, False)
                sops += [["populate"], ["delx", i, d[2]]]
                if rng.random() < 0.5:
                    sops.append(some_del(rng.randrange(len(insts)), False))
                sops += [["snap"], ["tick"], ["snap"]]
                continue
            # a Del under an injected fault, with the retries that follow
            sv = rng.choice([n[0] for n in insts[i]["nodes"]])
            d = some_del(i, True)
            cost = max(1, len(d[2])) if insts[i]["kind"] == "kv" else 1
            late = rng.random() < 0.35
            if fails[sv] + cost + (1 if late else 0) > FAIL_BUDGET:
                sops.append(d)
                continue
            fails[sv] += cost + (1 if late else 0)
            if rng.random() < 0.8:
                sops.append(["populate"])
            sops += [["fault", sv, 1], d]
            if rng.random() < 0.3 and fails[sv] < FAIL_BUDGET:
                # another instance's Del meets the same outage
                i2 = rng.randrange(len(insts))
                d2 = some_del(i2, True)
                c2 = max(1, len(d2[2])) if insts[i2]["kind"] == "kv" else 1
                if fails[sv] + c2 <= FAIL_BUDGET:
                    fails[sv] += c2
                    sops.append(d2)
            if rng.random() < 0.5:
                sops.append(["snap"])
            if late:
                sops += [["tick"], ["fault", sv, 0]] + [["tick"]] * rng.choice([4, 5, 6]) + [["snap"]]
            else:
                sops += [["fault", sv, 0], ["tick"], ["snap"]]
                if rng.random() < 0.3:
                    sops.append(["tick"])
        return self._script(ports, insts, skeys, sops)

    # ---- forced schedules on one ring used by several goroutines (harness/cmd/c15/conc.go) --------
    def _conc(self, r, nodes, threads, sched, probes):
        return {"kind": "conc", "r": r, "nodes": [S(x) for x in nodes], "threads": threads, "sched": sched,
                "probes": probes, "hash": "murmur", "mod": 0, "ops": []}

    @staticmethod
    def _op_len(o):
        return 1 if o[0] == "remove" else 2

    @staticmethod
    def _tid(st):
        """a schedule step: a thread id, or ["g", probe, thread] (a lookup overlapping the thread's step)"""
        return st if isinstance(st, int) else (-1 if st[0] == "gg" else st[2])

    @staticmethod
    def _shared_strings(nodes, R):
        """virtual-node strings repr+itoa(i), i < R, produced by two or more different reprs: a key with that text
        lands exactly on a shared slot"""
        own = {}
        for rp in set(nodes):
            for i in range(R):
                own.setdefault(rp + str(i), set()).add(rp)
        return sorted(k for k, v in own.items() if len(v) >= 2)

    def _conc_corpus(self):
        P = [S("key:%d" % i) for i in range(40)]
        others = [["add", 1], ["add", 2], ["add", 3]]
        nodes = ["10.0.0.9:6379", "10.0.0.1:6379", "10.0.0.2:6379", "10.0.0.3:6379"]
        return [
            # two racing weight updates of one node: A (50) is parked after its Remove, B (100) runs completely,
            # A inserts: both layers are in the ring; then the node is removed (and once more)
            self._conc(0, nodes, [[["addw", 0, 50]], others + [["addw", 0, 100]], [["remove", 0], ["remove", 0]]],
                       [1, 1, 1, 1, 1, 1, 0, 1, 1, 0, 2, 2], P),
            # both past their Remove before either inserts; the smaller count lands last; Remove; re-add
            self._conc(0, nodes, [[["addw", 0, 10]], others + [["add", 0]], [["remove", 0], ["addr", 0, 3], ["remove", 0]]],
                       [1, 1, 1, 1, 1, 1, 0, 1, 1, 0, 2, 2, 2, 2], P),
            # three updaters, h.replicas = 150, the largest first, then a Remove racing with a fourth update
            self._conc(150, nodes, [[["addr", 0, 150]], [["addw", 0, 50], ["remove", 1]], [["addr", 0, 7]],
                                    others + [["remove", 0], ["addw", 0, 20]]],
                       [3, 3, 3, 3, 3, 3, 0, 1, 2, 0, 1, 2, 1, 3, 3, 3], P),
            # an update parked across a Remove of the same node: the insertion after the Remove makes it a member
            self._conc(0, nodes, [[["addw", 0, 50]], others + [["remove", 0]], [["remove", 0]]],
                       [1, 1, 1, 1, 1, 1, 0, 1, 0, 2], P),
        ] + [
            # lookups overlapping membership calls on SHARED slots: nodes "1" and "11" share the ten slots
            # "110".."119"; Get(key "11j") is parked between locating the slot and picking the member while
            # Remove / re-Add of the node that was added second (it sits last in the slot) is started
            self._conc(0, [first, second, "other"],
                       [[["add", 0], ["add", 1], ["add", 2]], [["remove", 1], ["add", 1]] * 10],
                       [0] * 6 + [st for j in range(10) for st in (["g", j, 1], ["g", (j + 3) % 10, 1])],
                       [S("11%d" % j) for j in range(10)] + [S("key:%d" % i) for i in range(10)])
            for first, second in (("1", "11"), ("11", "1"))
        ] + [
            # lookups held between hashing the key and reading the ring (gated hash function) while a Remove /
            # Add / re-Add with another weight of the owner, of another node, of a new node is started
            self._conc(R, ["alpha", "beta", "gamma", "delta"],
                       [[["add", 0], ["add", 1], ["add", 2]],
                        [["remove", 0], ["add", 3], ["addw", 1, 10], ["add", 0], ["remove", 1], ["remove", 2], ["remove", 3],
                         ["remove", 0], ["add", 1]]],
                       [0] * 6 + [["gh", j, 1] for j in range(9)] + [1] * 6,
                       [S("key:%d" % i) for i in range(6)] + [I(77), ST("user:5"), K("bytes", "raw1")] + [S("k%d" % i) for i in range(8)])
            for R in (0, 150)
        ] + [
            # Add(a) held inside the hashing of its virtual nodes while Remove(b) and Add(c) are started: b and c
            # have the same number of virtual nodes (the key count is the same before and after the swap);
            # then a swap with different counts, a lone Remove, a lone Add, a re-add of the held node itself
            self._conc(R, ["keep", "b", "a", "c", "d"],
                       [[["add", 0], ["add", 1]], [["add", 2], [kind, 4] + arg, ["addw", 2, 50]],
                        [["remove", 1], ["add", 3], ["remove", 3], ["addw", 1, 50], ["remove", 0], ["addr", 2, 7], ["add", 0]]],
                       [0, 0, 0, 0, ["h", 1, [2, 2]], ["h", 1, [2, 2]], 2, ["h", 1, [2, 2]], 2],
                       [S("key-%d" % i) for i in range(40)])
            for R, kind, arg in ((0, "add", []), (150, "addw", [100]))
        ]

    def _gets_corpus(self):
        """Concurrent LOOKUPS on an unchanged ring (seeded C15-11): Get(k) is held inside the hash function — at the
        key's hash, or at the inner hash of a shared slot — while complete lookups of other keys, owned by other
        nodes, run; every one must answer as on the quiescent ring."""
        five = ["node-%d" % i for i in range(5)]
        P = [S("user:%d" % (1000 + i)) for i in range(20)] + [I(77), ST("user:5"), K("bytes", "raw1"), K("f64", "2.5")]
        res = []
        for R in (0, 150):
            res.append(self._conc(R, five, [[["add", k] for k in range(5)]],
                                  [0] * 10 + [["gg", j, [(j + 1 + 3 * q) % 24 for q in range(1 + j % 4)], 1] for j in range(16)], P))
        # shared slots: nodes "1" and "11" share "110".."119"; the held lookup parks at its INNER hash
        SP = [S("11%d" % j) for j in range(10)] + [S("key:%d" % i) for i in range(8)]
        for first, second in (("1", "11"), ("11", "1")):
            res.append(self._conc(0, [first, second, "other"], [[["add", 0], ["add", 1], ["add", 2]]],
                                  [0] * 6 + [["gg", j, [(j + 1 + 5 * q) % 18 for q in range(1 + j % 3)], 2 - (j // 10)] for j in range(14)], SP))
        return res

    def _gen_conc(self, rng):
        pool = rng.choice([["alpha", "beta", "gamma", "delta"], ["10.0.0.1:6379", "10.0.0.2:6379", "10.0.0.3:6379", "10.0.0.9:6379"],
                           ["node1", "node11", "node2", "node12"], ["a", "a1", "a12", "b"], ["1", "11", "12", "2"],
                           ["node1", "node11", "node2", "node12"], ["1", "11", "12", "2"]])
        nodes = rng.sample(pool, rng.randint(2, 4))
        if rng.random() < 0.2:
            nodes.append(nodes[0])          # a second universe value with the same repr
        R = rng.choice([0, 0, 0, 120, 150])
        Reff = max(R, 100)
        hot = rng.randrange(len(nodes))     # the node the threads fight over
        threads = []
        for _ in range(rng.randint(2, 4)):
            ops = []
            for _ in range(rng.randint(1, 3)):
                k = hot if rng.random() < 0.65 else rng.randrange(len(nodes))
                x = rng.random()
                if x < 0.25:
                    ops.append(["add", k])
                elif x < 0.45:
                    ops.append(["addr", k, rng.choice([0, 1, 5, 10, 50, Reff - 1, Reff, Reff + 50, -3])])
                elif x < 0.7:
                    ops.append(["addw", k, rng.choice([0, 1, 10, 50, 99, 100, 150])])
                else:
                    ops.append(["remove", k])
            threads.append(ops)
        if rng.random() < 0.7:              # the hot node goes away at the end
            threads.append([["remove", hot]])
        sched = [i for i, ops in enumerate(threads) for o in ops for _ in range(self._op_len(o))]
        rng.shuffle(sched)
        if threads[-1] == [["remove", hot]] and rng.random() < 0.7:
            sched.remove(len(threads) - 1)
            sched.append(len(threads) - 1)
        ps = probes(rng, 24)
        shared = self._shared_strings(nodes, Reff)
        if shared:
            ps = [S(k) for k in rng.sample(shared, min(8, len(shared)))] + ps[:16]
        if rng.random() < 0.6:
            # lookups that overlap a step (parked between slot lookup and member pick when the slot is shared)
            for pos in rng.sample(range(len(sched)), min(len(sched), rng.randint(2, 6))):
                p = rng.randrange(min(8, len(shared))) if shared and rng.random() < 0.8 else rng.randrange(len(ps))
                if rng.random() < 0.5:
                    # held when Get evaluates the hash function on the key: any key, any slot
                    sched[pos] = ["gh", rng.randrange(len(ps)), sched[pos]]
                elif ps[p]["kind"] == "str":
                    sched[pos] = ["g", p, sched[pos]]
        if rng.random() < 0.5 and all(isinstance(st, int) for st in sched):
            # a call held inside its hashing while others run: rebuild the schedule around it.  Thread A contributes
            # one add-type call at a call boundary; the calls started meanwhile often form a swap (Remove of one
            # node, Add of another with the same count)
            ta = rng.randrange(len(threads))
            k = rng.randrange(len(nodes))
            threads[ta] = [rng.choice([["add", k], ["addw", k, rng.choice([100, 50, 10])], ["addr", k, rng.choice([Reff, 50, 3])]])]
            others = [i for i in range(len(threads)) if i != ta]
            out_n, in_n = rng.sample(range(len(nodes)), 2) if len(nodes) >= 2 else (0, 0)
            cnt = rng.choice([["add"], ["addw", 50], ["addr", 7]])
            swapper = len(threads)
            same = rng.random() < 0.7
            threads.append([[cnt[0], out_n] + cnt[1:], ["remove", out_n],
                            ([cnt[0], in_n] + cnt[1:]) if same else ["addr", in_n, rng.choice([1, 50, Reff])]])
            pre = [i for i in others for o in threads[i] for _ in range(self._op_len(o))]
            rng.shuffle(pre)
            cut = rng.randint(0, len(pre))
            inner = [swapper, swapper] if rng.random() < 0.8 else [swapper]
            if others and rng.random() < 0.3:
                inner.append(rng.choice(others))    # one more call (or the second half of a parked one)
            # the swapper's first call completes, A is held, the swap runs (or blocks), the rest follows;
            # surplus steps of a thread that has nothing left are idle steps
            sched = pre[:cut] + [swapper, swapper, ["h", ta, inner]] + pre[cut:] + [swapper, swapper]
        if rng.random() < 0.5:
            # lookups overlapping LOOKUPS: one held inside the hash function (key hash; inner hash when the key is
            # a shared virtual-node string), 1-4 others complete meanwhile
            for _ in range(rng.randint(1, 4)):
                p = rng.randrange(len(ps))
                nth = 2 if shared and p < min(8, len(shared)) and rng.random() < 0.6 else 1
                others = [rng.randrange(len(ps)) for _ in range(rng.randint(1, 4))]
                sched.insert(rng.randint(0, len(sched)), ["gg", p, others, nth])
        return self._conc(R, nodes, threads, sched, ps)

    def _conc_steps(self, case, obs):
        """per schedule step: the actions that really ran, in order, as (kind, node index, requested replicas)"""
        R = obs["r"]
        nxt = [0] * len(case["threads"])
        parked = [None] * len(case["threads"])

        def one(ti, what):
            acts = []
            if what == "ins":
                o = parked[ti]
                parked[ti] = None
                acts.append(("ins", o[1], add_replicas(o, R)))
            elif what in ("rem", "remins"):
                o = case["threads"][ti][nxt[ti]]
                nxt[ti] += 1
                acts.append(("rem", o[1], None))
                if what == "remins":
                    acts.append(("ins", o[1], add_replicas(o, R)))
                elif o[0] != "remove":
                    parked[ti] = o
            return acts

        steps = []
        for st, what in zip(case["sched"], obs.get("res") or []):
            if not isinstance(st, int) and st[0] == "gg":
                steps.append([])          # lookups only
                continue
            if not isinstance(st, int) and st[0] == "h":
                # the held call's Remove, the calls that finished inside its hashing, its insertion, the others
                _, wa, inside, ws = what.split("|")
                ws = ws.split(",") if ws else []
                held = one(st[1], wa)
                inner = [one(ti, w) for ti, w in zip(st[2], ws)]
                k = int(inside)
                acts = held[:1] + [x for l in inner[:k] for x in l] + held[1:] + [x for l in inner[k:] for x in l]
                steps.append(acts)
            else:
                steps.append(one(self._tid(st), what))
        return steps

    def _coq_conc(self, case, obs):
        ids = self._ids(obs)
        allh = set(int(a) for a, _ in obs["ph"])
        for row in obs["vh"]:
            allh.update(int(h) for h in row)
        rank = {h: i for i, h in enumerate(sorted(allh))}
        rows, seen = [], set()
        for k, r in enumerate(obs["reprs"]):
            if r in seen:
                continue
            seen.add(r)
            rows.append("(%d, %s)" % (ids[r], clist(["%d" % rank[int(h)] for h in obs["vh"][k]])))
        steps = []
        gobs = obs.get("gobs") or [[]] * len(case["sched"])
        b = lambda x: "true" if x else "false"
        rows_out = [obs["gets"][0]]
        for st, acts, go, row in zip(case["sched"], self._conc_steps(case, obs), gobs, obs["gets"][1:]):
            if not isinstance(st, int) and st[0] == "gg":
                # concurrent lookups on an unchanged ring: every one of them is judged (and compared with the
                # model) in the state of the step — the held one and those that ran while it was held
                looks = [(go[0], go[1], go[2])] + [(go[i], go[i + 1], go[2]) for i in range(4, len(go), 2)]
                for q, a, ovl in looks:
                    steps.append("([], Some (%d, %s, %s, false))" % (q, cz(a), b(ovl)))
                    rows_out.append(row)
                continue
            steps.append("(%s, %s)" % (
                clist(["ARemove %d" % ids[obs["reprs"][k]] if kind == "rem" else
                       "AInsert (mkNode %d %d) %s" % (ids[obs["reprs"][k]], k, cz(r)) for kind, k, r in acts]),
                "Some (%d, %s, %s, %s)" % (go[0], cz(go[1]), b(go[2]), b(go[3])) if go else "None"))
            rows_out.append(row)
        ps = clist(["(%d, %s)" % (rank[int(a)], b) for a, b in obs["ph"]])
        gets = clist([clist([cz(g) for g in row]) for row in rows_out])
        return "ConcCase (mkConc %s %s %s %s %s)" % (cz(obs["r"]), clist(rows), clist(steps), ps, gets)

    def _cluster(self, kind, weights, keys):
        return {"kind": kind, "weights": weights, "hash": "murmur", "mod": 0, "r": 0, "nodes": [], "ops": [],
                "probes": [S(k) for k in keys]}

    def execute(self, cases, ctx):
        # one process per 300 cases: the redis clients, their pools and the Stat goroutines of go-zero live as
        # long as the process, and the quiescence census after a tick walks every goroutine
        def wire(c):
            # JSON numbers reach the executor as float64: integers beyond 2^53 travel as strings
            if not any(len(o) > 2 and isinstance(o[2], int) and abs(o[2]) >= 2 ** 53 for o in c.get("ops") or []):
                return c
            c = dict(c)
            c["ops"] = [[o[0], o[1], str(o[2])] if len(o) > 2 and isinstance(o[2], int) and abs(o[2]) >= 2 ** 53 else o
                        for o in c["ops"]]
            return c

        def hostile(c):
            """inputs on which a changed tree may allocate without bound: integers beyond 2^31"""
            big = lambda v: isinstance(v, int) and abs(v) >= 2 ** 31
            return any(big(x) for o in c.get("ops") or [] for x in o[2:]) or \
                any(big(w) for it in c.get("insts") or [] for _, w in it["nodes"])

        SMALL = {"VERIF_C15_AS_MB": "3072"}

        def crashed(c, out):
            """The executor process died while running this case (runtime fatal error such as out of memory
            under the address-space limit): the operations did not return.  Reported on this very input: the
            tables come from a run of the same universe without operations / instances; a ring history then
            shows -2 for every observation after the first, a script no touch at all."""
            if c.get("kind") == "script":
                rc, out0, r0 = vlib.go_run(self.bin, [dict(c, insts=[], sops=[])], tag="c15", timeout=300)
                if rc != 0 or len(r0) != 1:
                    raise ExecError("c15 executor rc=%s: %s" % (rc, out0[-2000:]))
                o = r0[0]
                o["touch"] = [[] for _ in c["sops"]]
                o["res"] = ["err" for _ in c["sops"]]
                o["snap"] = [[] for q in c["sops"] if q[0] == "snap"]
            elif c.get("kind"):
                raise ExecError("c15 executor died on a %s case: %s" % (c["kind"], out[-1500:]))
            else:
                rc, out0, r0 = vlib.go_run(self.bin, [dict(wire(c), ops=[])], tag="c15", timeout=300)
                if rc != 0 or len(r0) != 1:
                    raise ExecError("c15 executor rc=%s: %s" % (rc, out0[-2000:]))
                o = r0[0]
                o["gets"] = o["gets"][:1] + [[-2] * len(c["probes"]) for _ in c["ops"]]
            o["crashed"] = out[-600:]
            return o

        # hostile inputs run last, in a process of their own: if a changed tree blows up on them, everything
        # else has been observed, and the culprits are found one process per case under a small memory limit
        order = [i for i, c in enumerate(cases) if not hostile(c)]
        nh = len(order)
        order += [i for i, c in enumerate(cases) if hostile(c)]
        res = [None] * len(cases)
        bounds = list(range(0, nh, 300)) + [nh]
        chunks = [order[a:b] for a, b in zip(bounds, bounds[1:])] + ([order[nh:]] if nh < len(order) else [])
        for idx in chunks:
            chunk = [wire(cases[i]) for i in idx]
            rc, out, r = vlib.go_run(self.bin, chunk, tag="c15", timeout=600)
            if rc != 0 or len(r) != len(chunk):
                r = []
                for i, w in zip(idx, chunk):
                    rc1, out1, r1 = vlib.go_run(self.bin, [w], tag="c15", timeout=300, env=SMALL)
                    r.append(r1[0] if rc1 == 0 and len(r1) == 1 else crashed(cases[i], out1))
            for i, o in zip(idx, r):
                res[i] = o
        for r in res:
            if r.get("err"):
                raise ExecError("c15 executor: case %s: %s" % (r.get("id"), r["err"]))
        return res

    # ---- rendering ---------------------------------------------------------
    def _ops(self, case):
        """cluster cases: cache.New / kv.NewStore add node i with AddWithWeight(node_i, weight_i), in order"""
        if case.get("kind"):
            return [["addw", i, w] for i, w in enumerate(case["weights"])]
        return case["ops"]

    def _ids(self, obs):
        ids = {}
        for r in obs["reprs"]:
            ids.setdefault(r, len(ids))
        return ids

    def _coq_script(self, case, obs):
        ids = self._ids(obs)
        allh = set(int(a) for a, _ in obs["ph"])
        for row in obs["vh"]:
            allh.update(int(h) for h in row)
        rank = {h: i for i, h in enumerate(sorted(allh))}
        rows, seen = [], set()
        for k, r in enumerate(obs["reprs"]):
            if r in seen:
                continue
            seen.add(r)
            rows.append("(%d, %s)" % (ids[r], clist(["%d" % rank[int(h)] for h in obs["vh"][k]])))
        insts = clist(["(%s, %s)" % ("true" if it["kind"] == "cache" else "false",
                                     clist(["OAddW (mkNode %d %d) %s" % (ids[obs["reprs"][sv]], sv, cz(w)) for sv, w in it["nodes"]]))
                       for it in case["insts"]])
        keys = clist(["(%d, (%d, %s))" % (k["inst"], rank[int(a)], b) for k, (a, b) in zip(case["skeys"], obs["ph"])])
        ops = []
        for o in case["sops"]:
            if o[0] == "op":
                ops.append("CDel %d []" % o[1] if o[2] == "isnf" else "CSingle %d %d" % (o[1], o[3]))
            elif o[0] in ("del", "delx"):
                ops.append("%s %d %s" % ("CDel" if o[0] == "del" else "CDelX", o[1], clist(["%d" % q for q in o[2]])))
            elif o[0] == "fault":
                ops.append("CFault %d %s" % (o[1], "true" if o[2] else "false"))
            else:
                ops.append({"tick": "CTick", "populate": "CPopulate", "snap": "CSnap"}[o[0]])
        zl = lambda rows_: clist([clist([cz(x) for x in row]) for row in rows_])
        res = clist(["%d" % {"ok": 0, "nonode": 1}.get(r, 2) for r in obs.get("res") or []])
        return "UserCase (mkUser %s %s %s %s %s %s %s %s)" % (cz(obs["r"]), clist(rows), insts, keys, clist(ops),
                                                             zl(obs.get("touch") or []), zl(obs.get("snap") or []), res)

    def coq_case(self, case, obs):
        if case.get("kind") == "repr":
            return self._coq_repr(case, obs)
        if case.get("kind") == "conc":
            return self._coq_conc(case, obs)
        if case.get("kind") == "script":
            return self._coq_script(case, obs)
        ids = self._ids(obs)
        # The algorithm only compares virtual-node hashes and key hashes with each other (<, ==), so the
        # 64-bit values are renumbered by rank (order- and equality-preserving) to keep Coq's binary
        # integers small; the inner hash, which is reduced modulo the bucket size, is passed as is.
        allh = set(int(a) for a, _ in obs["ph"])
        for row in obs["vh"]:
            allh.update(int(h) for h in row)
        rank = {h: i for i, h in enumerate(sorted(allh))}
        rows, seen = [], set()
        for k, r in enumerate(obs["reprs"]):
            if r in seen:
                continue
            seen.add(r)
            rows.append("(%d, %s)" % (ids[r], clist(["%d" % rank[int(h)] for h in obs["vh"][k]])))
        node = lambda k: "(mkNode %d %d)" % (ids[obs["reprs"][k]], k)
        ops = []
        for o in self._ops(case):
            if o[0] == "add":
                ops.append("OAdd %s" % node(o[1]))
            elif o[0] == "addr":
                ops.append("OAddR %s %s" % (node(o[1]), cz(o[2])))
            elif o[0] == "addw":
                ops.append("OAddW %s %s" % (node(o[1]), cz(o[2])))
            else:
                ops.append("ORemove %s" % node(o[1]))
        ps = clist(["(%d, %s)" % (rank[int(a)], b) for a, b in obs["ph"]])
        gets = clist([clist([cz(g) for g in row]) for row in obs["gets"]])
        return "RingCase (mkCase %s %s %s %s %s %s %s)" % (cz(obs["r"]), clist(rows), clist(ops), ps, gets,
                                                           "true" if case.get("kind") else "false",
                                                           "true" if case.get("strict") else "false")

    # ---- known finding: collision-bucket-insertion-order ---------------------------------
    def _core_ok(self, case, obs):
        """The clauses that hold for every hash, recomputed on the observations: every answer is a value
        owning the first live virtual-node hash >= the key's hash (wrapping), none iff there is no live
        virtual node, never a panic / unknown value.  (Mirror of Check.core_ok; used only to classify.)"""
        import bisect
        R = obs["r"]
        php = [int(a) for a, _ in obs["ph"]]
        live = {}   # repr -> (effective replicas, value index)

        def row_ok(row):
            vs = []
            for rp, (r, v) in live.items():
                k = obs["reprs"].index(rp)
                vs += [(int(h), v) for h in obs["vh"][k][:r]]
            if not vs:
                return all(g == -1 for g in row)
            hs = sorted(set(h for h, _ in vs))
            for hp, g in zip(php, row):
                i = bisect.bisect_left(hs, hp)
                succ = hs[i] if i < len(hs) else hs[0]
                if g not in set(v for h, v in vs if h == succ):
                    return False
            return True

        if not row_ok(obs["gets"][0]):
            return False
        for o, row in zip(case["ops"], obs["gets"][1:]):
            rp = obs["reprs"][o[1]]
            if o[0] == "remove":
                live.pop(rp, None)
            else:
                live.pop(rp, None)
                live[rp] = (self._eff(o, R), o[1])
            if not row_ok(row):
                return False
        return len(obs["gets"]) == len(case["ops"]) + 1

    def _exhibits(self):
        if not hasattr(self, "_exh"):
            import json
            with open(os.path.join(vlib.ROOT, "corpus", "C15", "known_exhibits.json")) as f:
                self._exh = json.load(f)
        return self._exh

    def _eff(self, o, R):
        return max(0, min(add_replicas(o, R), R))

    def _order_fail_sites(self, case, obs):
        """Mirror of the order clauses of Check.hist_ok on the observations: [(step, probe, earlier step or None)]
        where `moved_ok` (a key moved between two nodes neither of which is the operation's) or `seen_ok` (same
        node map as at an earlier step, different answer) fails."""
        R = obs["r"]
        live = {}    # repr -> (effective replicas, value index)
        canon = lambda: tuple(sorted((rp, r, v) for rp, (r, v) in live.items() if r > 0))
        val = lambda m, rp: m[rp][1] if rp in m and m[rp][0] > 0 else None
        seen = [(canon(), 0)]
        sites = []
        for t, o in enumerate(case["ops"], 1):
            rp = obs["reprs"][o[1]]
            before = dict(live)
            live.pop(rp, None)
            if o[0] != "remove":
                live[rp] = (self._eff(o, R), o[1])
            prev, cur = obs["gets"][t - 1], obs["gets"][t]
            for p, (b, a) in enumerate(zip(prev, cur)):
                if not (a == b or val(before, rp) == b or val(live, rp) == a):
                    sites.append((t, p, None))
            cm = canon()
            for m0, t0 in seen:
                if m0 == cm:
                    sites += [(t, p, t0) for p, (x, y) in enumerate(zip(obs["gets"][t0], cur)) if x != y]
            seen.append((cm, t))
        return sites

    def _string_shared_slot(self, case, obs, t, p):
        """After step t: is the successor slot of probe p owned by two or more different nodes whose
        virtual-node STRINGS (repr + itoa(index)) coincide?  (Decided on the strings, not on hash values.)"""
        import bisect
        R = obs["r"]
        live = {}
        for o in case["ops"][:t]:
            rp = obs["reprs"][o[1]]
            live.pop(rp, None)
            if o[0] != "remove":
                live[rp] = self._eff(o, R)
        slots = {}   # hash -> {(repr, string)}
        for rp, r in live.items():
            k = obs["reprs"].index(rp)
            for i in range(r):
                slots.setdefault(int(obs["vh"][k][i]), set()).add((rp, rp + str(i)))
        if not slots:
            return False
        hs = sorted(slots)
        i = bisect.bisect_left(hs, int(obs["ph"][p][0]))
        own = slots[hs[i] if i < len(hs) else hs[0]]
        return len(set(rp for rp, _ in own)) >= 2 and len(set(st for _, st in own)) == 1

    def known(self, case, obs):
        """'collision-bucket-insertion-order' — only for a history that really contains what the entry
        describes.  All of:
        * a ring history marked strict (generated histories on colliding universes are judged by the clauses that
          hold for every hash only, so they can never be excused), under the default hash, whose nodes, operations,
          probes AND observed answers are exactly those of the committed table corpus/C15/known_exhibits.json
          (recorded on the unchanged tree);
        * every answer is still an owner of the successor slot, none iff no live virtual node, no panic
          (`_core_ok`): membership, removed-never-returned, none-iff-empty hold;
        * the order clauses fail somewhere, and EVERY place where they fail is a probe whose successor slot is,
          at that moment (for a move: before or after the operation), shared by different nodes whose
          virtual-node strings repr+itoa(i) are equal.
        An order dependence anywhere else — a slot with one owner, or a slot shared only by hash value — is a
        VIOLATION."""
        if case.get("kind") or not case.get("strict") or case.get("hash") != "murmur" or self._cf(obs):
            return None
        # the exact failing shape of the UNCHANGED tree, from the committed table corpus/C15/known_exhibits.json:
        # same nodes, operations, probes, and exactly the answers recorded there (real murmur3, fixed names:
        # deterministic).  Any other answer in a strict history — also another wrong answer inside a shared
        # slot — is not this finding.
        if not any(e["nodes"] == case["nodes"] and e["r"] == case["r"] and e["ops"] == case["ops"] and
                   e["probes"] == case["probes"] and e["gets"] == obs["gets"] for e in self._exhibits()):
            return None
        if not self._core_ok(case, obs):
            return None
        sites = self._order_fail_sites(case, obs)
        if not sites:
            return None
        for t, p, t0 in sites:
            if not (self._string_shared_slot(case, obs, t, p) or
                    (t0 is None and self._string_shared_slot(case, obs, t - 1, p))):
                return None
        return "collision-bucket-insertion-order"

    def _f18_shape(self, case, obs):
        """Shape of the repaired defect F18: a Remove / re-Add runs on a node holding fewer than h.replicas
        virtual nodes while one of its never-added index hashes equals a live key of another node."""
        R = obs["r"]
        live = {}   # repr -> effective replicas
        for o in case["ops"]:
            k = o[1]
            rp = obs["reprs"][k]
            if rp in live:
                mine = obs["vh"][k]
                others = set()
                for q, rq in live.items():
                    kq = obs["reprs"].index(q)
                    others.update(obs["vh"][kq][:rq] if q != rp else [])
                if any(h in others for h in mine[max(live[rp], 0):R]):
                    return True
            if o[0] == "remove":
                live.pop(rp, None)
            else:
                live[rp] = self._eff(o, R)
        return False

    # ---- evidence ------------------------------------------------------------
    def _cf(self, obs):
        hs = []
        seen = set()
        for k, r in enumerate(obs["reprs"]):
            if r not in seen:
                seen.add(r)
                hs += obs["vh"][k]
        return len(hs) == len(set(hs))

    def shrink_candidates(self, case):
        if case.get("kind") == "repr":
            vs = case["nodes"]
            if len(vs) <= 1:
                return []
            if len(vs) > 12:     # chunks only: the class clause is quadratic in the number of values
                q = max(1, len(vs) // 8)
                return [dict(case, nodes=vs[i:i + q]) for i in range(0, len(vs), q)] + \
                       [dict(case, nodes=vs[:len(vs) // 2]), dict(case, nodes=vs[len(vs) // 2:])]
            return [dict(case, nodes=vs[:i] + vs[i + 1:]) for i in range(len(vs))]
        if case.get("kind") == "conc" and any(not isinstance(st, int) and st[0] == "h" for st in case["sched"]):
            # schedules with a held hashing: cut the schedule after a step; fewer calls inside the window; fewer probes
            res = []
            sc = case["sched"]
            for i in range(len(sc) - 1, 0, -1):
                res.append(dict(case, sched=sc[:i]))
            for i, st in enumerate(sc):
                if not isinstance(st, int) and st[0] == "h" and len(st[2]) > 1:
                    res.append(dict(case, sched=sc[:i] + [["h", st[1], st[2][:-1]]] + sc[i + 1:]))
            if len(case["probes"]) > 4:
                res.append(dict(case, probes=case["probes"][:len(case["probes"]) // 2]))
                res.append(dict(case, probes=case["probes"][len(case["probes"]) // 2:]))
            return res
        if case.get("kind") == "conc":
            res = []
            for ti, ops in enumerate(case["threads"]):
                for j, o in enumerate(ops):
                    # drop call j of thread ti together with its schedule steps
                    first = sum(self._op_len(p) for p in ops[:j])
                    drop = set(range(first, first + self._op_len(o)))
                    sched, seen = [], 0
                    for st in case["sched"]:
                        if self._tid(st) == ti:
                            if seen not in drop:
                                sched.append(st)
                            seen += 1
                        else:
                            sched.append(st)
                    c = dict(case)
                    c["threads"] = [l if i != ti else ops[:j] + ops[j + 1:] for i, l in enumerate(case["threads"])]
                    c["sched"] = sched
                    res.append(c)
            # a lookup step becomes a plain step; a concurrent-lookups step goes, or loses one of its lookups
            for i, st in enumerate(case["sched"]):
                if not isinstance(st, int) and st[0] == "gg":
                    res.append(dict(case, sched=case["sched"][:i] + case["sched"][i + 1:]))
                    if len(st[2]) > 1:
                        res += [dict(case, sched=case["sched"][:i] + [["gg", st[1], st[2][:q] + st[2][q + 1:], st[3]]] + case["sched"][i + 1:])
                                for q in range(len(st[2]))]
                elif not isinstance(st, int):
                    res.append(dict(case, sched=case["sched"][:i] + [st[2]] + case["sched"][i + 1:]))
            if not any(isinstance(st, int) or st[0] != "gg" for st in case["sched"][-1:]) and len(case["sched"]) > 1:
                res.append(dict(case, sched=case["sched"][:-1]))
            if len(case["probes"]) > 4 and all(isinstance(st, int) for st in case["sched"]):
                res.append(dict(case, probes=case["probes"][:len(case["probes"]) // 2]))
                res.append(dict(case, probes=case["probes"][len(case["probes"]) // 2:]))
            return res
        if case.get("kind") != "script":
            return Property.shrink_candidates(self, case)
        ops = case["sops"]
        res, n = [], len(ops)
        if n > 8:   # one operation alone (dispatch errors need no history)
            step = max(1, n // 150)
            res += [dict(case, sops=[o]) for o in ops[::step] if o[0] in ("op", "del")]
        chunk = max(1, n // 2)
        while chunk >= 1 and n > 1:
            for i in range(0, n, chunk):
                c = dict(case)
                c["sops"] = ops[:i] + ops[i + chunk:]
                if c["sops"]:
                    res.append(c)
            if chunk == 1:
                break
            chunk //= 2
        # fewer keys in a multi-key Del
        for i, o in enumerate(ops):
            if o[0] in ("del", "delx") and len(o[2]) > 2:
                for q in range(len(o[2])):
                    c = dict(case)
                    c["sops"] = ops[:i] + [[o[0], o[1], o[2][:q] + o[2][q + 1:]]] + ops[i + 1:]
                    res.append(c)
        return res[:400]

    def nontrivial(self, case, obs):
        if case.get("kind") == "repr":
            by = {}
            for v, row in zip(case["nodes"], obs["rx"]):
                by.setdefault(row[0], set()).add(v["kind"])
            return len(by) >= 2 and any(len(ks) >= 2 for ks in by.values())
        if case.get("kind") == "conc":
            return any(w == "ins" or w.startswith("h|") for w in obs.get("res") or []) and len(set(map(tuple, obs["gets"]))) >= 2
        if case.get("kind") == "script":
            return len(set(t % 64 for row in obs.get("touch") or [] for t in row)) >= 2
        gets = obs["gets"]
        if case.get("kind"):
            return len(set(g for g in gets[0] if g >= 0)) >= 2
        changed = any(a != b for g0, g1 in zip(gets, gets[1:]) for a, b in zip(g0, g1) if a >= 0 and b >= 0)
        two = any(len(set(g for g in row if g >= 0)) >= 2 for row in gets)
        seen, readd = set(), False
        for o in case["ops"]:
            if o[0] == "remove" or o[1] in seen:
                readd = True
            seen.add(o[1])
        return changed and two and readd

    def features(self, case, obs):
        if case.get("kind") == "repr":
            return sorted(set(["repr"] + ["repr_kind=" + v["kind"] for v in case["nodes"]]))
        if case.get("kind") == "conc":
            fs = ["conc", "conc_threads=%d" % len(case["threads"]), "R=%d" % obs["r"],
                  "collision_free" if self._cf(obs) else "collisions"]
            layers, mixed, removed_mixed = {}, False, False
            for acts in self._conc_steps(case, obs):
                for kind, k, r in acts:
                    rp = obs["reprs"][k]
                    if kind == "rem":
                        if len(layers.get(rp, [])) >= 2:
                            removed_mixed = True
                        layers[rp] = []
                    else:
                        layers.setdefault(rp, []).append(r)
                        if len(layers[rp]) >= 2:
                            mixed = True
                            if layers[rp][-1] < max(layers[rp][:-1]):
                                fs.append("conc_smaller_layer_inserted_last")
            if mixed:
                fs.append("conc_two_layers_of_one_node")
            if removed_mixed:
                fs.append("conc_remove_of_a_layered_node")
            for w in obs.get("res") or []:
                if w.startswith("h|"):
                    fs.append("conc_call_held_in_hashing")
                    if int(w.split("|")[2]) > 0:
                        fs.append("conc_calls_ran_inside_hashing")
            for st, go in zip(case["sched"], obs.get("gobs") or []):
                if go and not isinstance(st, int) and st[0] == "gg":
                    fs.append("conc_lookups_overlapping_a_lookup")
                    if go[2]:
                        fs.append("conc_lookup_held_in_its_%s_hash" % ("key", "inner")[st[3] - 1])
                    continue
                if go:
                    fs.append("conc_lookup_overlapping_a_step")
                    if go[2]:
                        fs.append("conc_lookup_parked")
                    if go[3]:
                        fs.append("conc_step_ran_inside_lookup")
            if "remins" in (obs.get("res") or []):
                fs.append("conc_call_not_parked")
            if any(w == "ins" for w in obs.get("res") or []):
                fs.append("conc_call_split_by_other_actions")
            return sorted(set(fs))
        if case.get("kind") == "script":
            fs = ["script", "script_servers=%d" % len(case["ports"]), "script_instances=%d" % len(case["insts"]),
                  "collision_free" if self._cf(obs) else "collisions"]
            fs += ["script_has_" + it["kind"] for it in case["insts"]]
            if any(len(it["nodes"]) == 1 for it in case["insts"]):
                fs.append("script_single_node_instance")
            kinds = {}
            for it in case["insts"]:
                kinds.setdefault(tuple(sorted(map(tuple, it["nodes"]))), []).append(it)
            if any(len(v) > 1 for v in kinds.values()):
                fs.append("script_same_node_set_twice")
            faulted = False
            for o, row in zip(case["sops"], obs.get("touch") or []):
                if o[0] == "op":
                    fs.append("api:%s.%s" % (case["insts"][o[1]]["kind"], o[2]))
                elif o[0] == "del":
                    fs.append("api:%s.del%s" % (case["insts"][o[1]]["kind"], "N" if len(o[2]) > 1 else str(len(o[2]))))
                    if faulted:
                        fs.append("script_del_under_fault")
                elif o[0] == "delx":
                    fs.append("api:%s.delctx_cancelled" % case["insts"][o[1]]["kind"])
                elif o[0] == "fault":
                    faulted = bool(o[2])
                elif o[0] == "tick" and row:
                    fs.append("script_retry_fired")
                elif o[0] == "snap":
                    fs.append("script_snapshot")
            return sorted(set(fs))
        if case.get("kind"):
            return ["cluster=" + case["kind"], "cluster_nodes=%d" % len(case["weights"]),
                    "collision_free" if self._cf(obs) else "collisions"]
        fs = ["hash=" + case["hash"] + ("%d" % case["mod"] if case["mod"] else ""), "R=%d" % obs["r"],
              "collision_free" if self._cf(obs) else "collisions", "nodes=%d" % len(case["nodes"]),
              "ops<=%d" % (10 * (1 + len(case["ops"]) // 10))]
        fs += ["has_" + k for k in sorted(set(o[0] for o in case["ops"]))]
        if len(set(obs["reprs"])) < len(obs["reprs"]):
            fs.append("equal_reprs")
            live = {}
            for o in case["ops"]:
                rp = obs["reprs"][o[1]]
                if o[0] == "remove":
                    live.pop(rp, None)
                    continue
                e = self._eff(o, obs["r"])
                if rp in live and live[rp][1] != o[1] and live[rp][0] == e:
                    fs.append("other_value_same_repr_same_count" + ("_zero" if e == 0 else ""))
                    if add_replicas(o, obs["r"]) > obs["r"]:
                        fs.append("other_value_same_count_after_truncation")
                live[rp] = (e, o[1])
            fs = sorted(set(fs), key=fs.index)
        if any(g == -2 for row in obs["gets"] for g in row):
            fs.append("get_panicked")
        if self._f18_shape(case, obs):
            fs.append("shape:F18-remove-on-low-weight-node-with-foreign-hash")
        if case.get("strict"):
            fs.append("strict_order_clauses")
        if any(o[0] == "addw" and not -2 ** 63 <= obs["r"] * o[2] < 2 ** 63 for o in case["ops"]):
            fs.append("weight_product_overflows_int64(judged_by_agreement_only)")
        if any(o[0] in ("addw", "addr") and abs(o[2]) >= 2 ** 53 for o in case["ops"]):
            fs.append("huge_replicas_or_weight")
        return fs

    def describe_failure(self, case, obs):
        if case.get("kind") == "repr":
            return ("node identity: the strings the ring hashes for a value (rx rows, hex: repr(v) at Get, lang.Repr(v) "
                    "asked again, innerRepr(v), repr(v)+itoa(i) for i in 0, 9, 10, 99 at Add, the same at Remove) differ "
                    "between evaluations, Remove does not hash the strings Add hashed, or two values that lang.Repr is "
                    "specified to identify / distinguish (Repr.v) are distinguished / identified")
        if case.get("kind") == "conc":
            return ("concurrent ring: after a schedule step Get answered a node that has no layer left (its last "
                    "action is a Remove), none although a node has live virtual nodes, or a value that does not own "
                    "the successor slot among the live virtual nodes of all layers; or a lookup overlapping a step "
                    "answered a value that is right neither before nor after the step (gobs = [probe, answer, "
                    "parked, step ran inside the lookup]; -3 = a value never added, e.g. nil) (res = what each step did)")
        if case.get("kind") == "script":
            return ("cluster script: a command naming a key reached a server other than the one the instance's ring "
                    "designates for that key (touches = key*64+server per step), a key of the operation reached no "
                    "server, or a key disappeared from a server that does not own it (snapshots)")
        if case.get("kind"):
            return ("%s cluster: a key was read / written / deleted on a server other than the one the ring "
                    "designates (rows: Get, Set, multi-key Del; -3 = none or several servers)" % case["kind"])
        if obs.get("crashed"):
            return "the executor process died while running this history (e.g. runtime: out of memory): " + obs["crashed"][-300:]
        if any(g == -2 for row in obs["gets"] for g in row):
            return "Get panicked (keys empty while the ring is not)"
        return ("Get returned a non-member / none with members present, or (collision-free universe) the assignment "
                "differs from the one determined by the node->replicas map, or a key moved between two nodes that "
                "were not the operation's node")


# The shared evaluator puts 400 cases in one coqc process; C15 cases cost ~0.1-0.3 s each in Coq, so they
# are spread over all cores (only for this property).
_orig_eval = vlib.coq_eval_cases


def _eval_sharded(prop, check_module, terms, preamble="", shard=400, timeout=900):
    if prop == "C15":
        shard = max(2, (len(terms) + vlib.NCPU - 1) // vlib.NCPU)
        timeout = max(timeout, 3000)   # a loaded machine must not turn into an alarm
        # the corpus (the expensive fixed cases) comes first: deal the cases out over the shards instead of
        # cutting the list into contiguous pieces, and put the results back in order
        k = max(1, -(-len(terms) // max(8, shard)))
        order = sorted(range(len(terms)), key=lambda i: (i % k, i))
        dealt = [terms[i] for i in order]

        def back(rs):
            res = [None] * len(terms)
            for i, r in zip(order, rs):
                res[i] = r
            return res

        try:
            return back(_orig_eval(prop, check_module, dealt, preamble=preamble, shard=shard, timeout=timeout))
        except RuntimeError:
            # a coqc process that died half-way (killed on an overloaded machine: seen once, after five
            # results of its shard, no error message) is not a verdict: evaluate once more, in smaller
            # shards; an ill-formed term or a genuine error fails again and is raised
            import time
            time.sleep(3)
            return back(_orig_eval(prop, check_module, dealt, preamble=preamble, shard=max(2, shard // 2), timeout=timeout))
    return _orig_eval(prop, check_module, terms, preamble=preamble, shard=shard, timeout=timeout)


vlib.coq_eval_cases = _eval_sharded

PROPERTY = C15()
