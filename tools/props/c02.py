"""C02 — adaptive load shedder."""
import os
import re
from fractions import Fraction

import vlib
from runner import Property, ExecError
from vlib import cz, clist, cbool

BASE = 10 ** 12            # virtual clock base (0 means "unset" for overloadTime)
SEC = 10 ** 9
MS = 10 ** 6
COOL = SEC
DEFAULTS = {"window": 5 * SEC, "buckets": 50, "threshold": 900}   # = Model.default_config = today's source (GenProofs.v)
OVERLAY = {
    "core/load/verif_c02_test.go": os.path.join(vlib.HARNESS, "overlay/load/verif_c02_test.go"),
    "core/load/verif_c02_conc_test.go": os.path.join(vlib.HARNESS, "overlay/load/verif_c02_conc_test.go"),
    "core/stat/verif_cpu.go": os.path.join(vlib.HARNESS, "overlay/stat/verif_cpu.go"),
    "core/timex/relativetime.go": os.path.join(vlib.HARNESS, "overlay/timex/relativetime.go"),
}
_CLOCK_CPU = {k: v for k, v in OVERLAY.items() if not k.endswith("_test.go")}
OVERLAY_REST = dict(_CLOCK_CPU, **{"rest/handler/verif_c02_rest_test.go":
                                   os.path.join(vlib.HARNESS, "overlay/resthandler/verif_c02_rest_test.go")})
OVERLAY_RPC = dict(_CLOCK_CPU, **{"zrpc/internal/serverinterceptors/verif_c02_rpc_test.go":
                                  os.path.join(vlib.HARNESS, "overlay/serverinterceptors/verif_c02_rpc_test.go")})
EXECUTORS = {   # executor -> (package, overlay, test)
    "shed": ("./core/load", OVERLAY, "^TestVerifC02$"),
    "group": ("./core/load", OVERLAY, "^TestVerifC02Group$"),
    "conc": ("./core/load", OVERLAY, "^TestVerifC02Conc$"),
    "rest": ("./rest/handler", OVERLAY_REST, "^TestVerifC02Rest$"),
    "rpc": ("./zrpc/internal/serverinterceptors", OVERLAY_RPC, "^TestVerifC02Rpc$"),
}
EXEC_OF = {"conc": "conc", "shed": "shed", "multi": "shed", "group": "group", "rest": "rest", "wrest": "rest", "rpc": "rpc", "wrpc": "rpc"}
REST_CODES = [200, 201, 204, 301, 400, 404, 429, 500, 502, 503, 503, 504]
RPC_OUTS = ["ok", "err", "deadline", "wrapped", "status_deadline", "panic",
            # the request's own outcome collides with the shedder's values
            "overloaded", "own_exhausted", "canceled", "panic_overloaded"]
RPC_COQ = {"ok": "GOk", "err": "GErr", "deadline": "GDeadline", "wrapped": "GWrappedDeadline",
           "status_deadline": "GStatusDeadline", "panic": "GPanic", "overloaded": "GOverloaded",
           "own_exhausted": "GExhausted", "canceled": "GCanceled", "panic_overloaded": "GPanicOverloaded"}
TWO30 = Fraction(2 ** 30)

# The runner evaluates cases in shards of 400 per coqc process; a C02 case costs ~50-100 ms
# (exact rationals, two windows, reference window), so use small shards to fill the cores.
_coq_eval_cases = vlib.coq_eval_cases


EXCL_CACHE = {}     # case term -> prop_ok_excl (only for the terms that can hit the known NaN corner)
_CORNER_RE = re.compile(r"^CShed \(mkCase \(mkCfg \S+ \S+ 1000 true\)")


def _coq_eval_cases_small_shards(prop, check_module, terms, preamble="", shard=400, timeout=900):
    """C02: small shards (a case costs 50-100 ms), and for the histories with cpuThreshold = cpuMax the verdict of
    the property WITH shed_when_saturated's excluding hypothesis is computed in the same coqc run (known() needs
    it to tell the known finding from anything else) instead of one coqc process per failing case later."""
    if prop != "C02" or not terms:
        return _coq_eval_cases(prop, check_module, terms, preamble=preamble, shard=shard, timeout=timeout)
    import concurrent.futures
    shard = max(4, min(40, (len(terms) + vlib.NCPU - 1) // vlib.NCPU))
    shards = [terms[i:i + shard] for i in range(0, len(terms), shard)]

    def work(ix):
        body = ["From Coq Require Import List ZArith String.", "From GZ Require Import %s." % check_module,
                "Import ListNotations.", "Open Scope Z_scope.", preamble]
        extra = []
        for j, t in enumerate(shards[ix]):
            body.append("Definition c%d : case := %s." % (j, t))
            body.append("Eval vm_compute in (agrees c%d, prop_ok c%d)." % (j, j))
            if _CORNER_RE.match(t):
                body.append("Eval vm_compute in (prop_ok_excl c%d, true)." % j)
                extra.append(j)
        rc, out = vlib._coqc_tmp("%s_cases_%d_%d" % (prop, os.getpid(), ix), "\n".join(body) + "\n", timeout)
        if rc != 0:
            raise RuntimeError("coqc failed on case shard %d:\n%s" % (ix, out[-4000:]))
        pairs = [(a == "true", b == "true") for a, b in vlib.PAIR_RE.findall(out)]
        if len(pairs) != len(shards[ix]) + len(extra):
            raise RuntimeError("case shard %d: expected %d results, got %d\n%s"
                               % (ix, len(shards[ix]) + len(extra), len(pairs), out[-2000:]))
        rs, k = [], 0
        for j, t in enumerate(shards[ix]):
            rs.append(pairs[k])
            k += 1
            if j in extra:
                # recognised as the known finding only if the model - which pins the NaN corner exactly at
                # threshold = cpuMax = reading - reproduces the whole history (agrees) and every other clause holds
                EXCL_CACHE[t] = pairs[k][0] and rs[-1][0]
                k += 1
        return rs

    with concurrent.futures.ThreadPoolExecutor(max_workers=vlib.NCPU) as ex:
        parts = list(ex.map(work, range(len(shards))))
    return [r for p_ in parts for r in p_]


vlib.coq_eval_cases = _coq_eval_cases_small_shards


def dyadic(m, e):
    return Fraction(m) * (Fraction(2) ** e)


class C02(Property):
    id = "C02"
    title = "Adaptive load shedder: sheds only when overloaded and over capacity"
    quick_cases = int(os.environ.get("VERIF_C02_CASES", "260"))     # VERIF_C02_CASES=0: the fixed corpus alone
    thorough_cases = 9000
    design_ref = "DESIGN.md §6/C02"
    level_text = ("Unbounded Rocq theorems over every configuration, every history of Allow/Pass/Fail with arbitrary clock "
                  "readings and every CPU trace: a shed implies (CPU reading >= threshold now, or an earlier shed and an "
                  "overloaded Allow less than coolOffDuration ago) and flying, avgFlying > 0.1 x capacity; overloaded with "
                  "flying and avgFlying above capacity implies shed; both also for the k-th operation of any history with in-flight "
                  "= admissions - resolutions and the average = EMA of that count over every resolution (Pass and Fail); flying = "
                  "handed out - resolved >= 0 when no promise is named by two Pass/Fail operations; idle and disabled shedders never shed "
                  "(shed-only-if, shed-when-saturated, idle and conservation are also proved for every interleaving of the "
                  "atomic steps of concurrent calls, on the possibly stale values each call read); capacity "
                  "= max(1, peak bucket pass count x min average latency x windowScale) over the buckets Reduce visits, windowScale "
                  "= 10^6 / bucket duration for every bucket duration; the reference capacity prop_ok uses is proved equal to the model's; "
                  "'shedding in progress' as a function of the history alone (an episode starts with a shed and ends at the first cool Allow "
                  "after the cool-off) is proved equal to the shedder's cool-off state and is what prop_ok judges with; over histories of the "
                  "whole process (Disable / NewAdaptiveShedder / NewShedderGroup / GetShedder / traffic in any order) every shedder lives its "
                  "own single-shedder history, a group member takes the flag of its first GetShedder, and a shedder built after a Disable() at "
                  "any position never sheds; over request histories with overlapping requests the wrappers name every promise at most once, "
                  "Fail iff overload class. "
                  "The model is tied to core/load, rest/handler and zrpc serverinterceptors by differential execution of generated "
                  "scenarios (single shedder, several shedders with load.Disable() and a ShedderGroup, the REST / zRPC wrapper in front "
                  "of one long-lived real shedder with overlapping requests) in overlay tests with a virtual clock and an injected CPU "
                  "gauge; constants are re-extracted from the source.")
    level_note = ("Trusted: Coq kernel + vm_compute; hand-written model (exact rationals for float64, near-tie decisions "
                  "skipped); correspondence executes every Allow/Pass/Fail one at a time (the interleaving theorems rest on the "
                  "atomicity of sync/atomic, the spin lock and the window's RWMutex); stat.CpuUsage() is an input.")
    rule = ("single-shedder histories: WithWindow x WithBuckets x WithCpuThreshold, each also left out; bucket durations dividing 1 s, "
            "not dividing it (75 ms, 600 ms, random), above it (1.2 s, 2 s, 60 s), 1 ns..100 ns, 1..50 buckets; thresholds 900, corner "
            "values 0 / 1 / -5 / 999 / 1000 (= cpuMax) / 1100 / 10^15; 20..160 Allow/Pass/Fail ops with clock gaps around bucket / cool-off "
            "/ window boundaries (rarely 10^15 ns), CPU traces low/high/at-threshold/spiky/ramp, checker reading split from the factor "
            "reading in ~20%, fail-heavy and multi-phase (overload - drain - pause - refill) families; multi: 2..4 shedders, a "
            "ShedderGroup, Disable() between constructions, interleaved; order: 1-2 groups, NewShedderGroup / Disable() (0-2 times) / "
            "first and repeated GetShedder / NewAdaptiveShedder in every order, options passed twice, every shedder driven to saturation; "
            "53 fixed histories first (ties, cool-off and bucket boundaries, episode end, sheds during the cool-off, construction off the "
            "bucket grid, configuration orders, constants); wrest/wrpc: 20..90 start/finish events of overlapping "
            "requests with every handler outcome class through the real wrapper and a real shedder; "
            "non-trivial = (single) at least one shed, one Allow let in while hot and one completed Pass / (multi) two live shedders "
            "with traffic and a shed / (wrapper) a shed, a Pass, a Fail and >= 3 requests in flight at once; distinct = canonical JSON "
            "hash of the case")
    trusted_base = [
        "model theories/C02/Model.v is hand-written; tie = white-box overlay test harness/overlay/load/verif_c02_test.go on generated scenarios",
        "wrapper scenarios: overlay tests in rest/handler and zrpc/internal/serverinterceptors drive the real wrapper + a real shedder; flying/avgFlying read by reflection on the field names",
        "overlay core/timex/relativetime.go (virtual clock) replaces the 17-line real file; overlay core/stat/verif_cpu.go adds a setter for the CPU gauge",
        "float64 arithmetic is modelled by exact rationals; decisions with relative margin < 2^-30 are not compared",
        "Lib/RollingWindow.v is the shared hand-written window model (compared here through maxPass()/minRt() before every Allow)",
        "constant extractor harness/cmd/c02consts (go/types) is trusted to print the constants of adaptiveshedder.go",
    ]
    assumptions = ["stat.CpuUsage() may return any int64; the theorems quantify over both readings of every Allow",
                   "each atomic action of Allow/Pass/Fail (atomic add/load, spin-locked avgFlying access, RWMutex-protected window op) is one step",
                   "shed_when_saturated excludes cpuThreshold = cpuMax = CPU reading (0/0 = NaN in overloadFactor; documented precondition "
                   "threshold < cpuMax); prop_ok does NOT exclude it: such histories fail and are reported as KNOWN-FINDING "
                   "nan-factor-threshold-eq-cpumax iff they pass prop_ok_excl"]

    # ---- translators ---------------------------------------------------------
    def regen(self, ctx):
        import c02consts
        return c02consts.regen()

    # ---- cases -----------------------------------------------------------------
    def corpus(self):
        cs = []
        B = BASE
        # exact tie: window 3.2s/50 -> bucket 64ms, windowScale = 1/64; 8 passes of 8ms -> maxFlight = 1;
        # flying = 1, avgFlying > 1, cpu = threshold (factor 1): 1 > 1 is false -> admitted
        ops = [["allow", B, 0, 0] for _ in range(8)]
        ops += [["pass", i, B + 8 * MS] for i in range(8)]
        t = B + 70 * MS
        ops += [["allow", t, 0, 0] for _ in range(5)]
        ops += [["fail", 16 + i] for i in range(4)]
        ops += [["allow", t, 900, 900], ["allow", t, 900, 900], ["allow", t, 900, 900]]
        cs.append(self._case(3200 * MS, 50, 900, B, ops))
        # tie at the lower bound: capacity 10 (10 passes x 64ms / 64), cpu far above: factor 0.1 -> bound 1
        ops = [["allow", B, 0, 0] for _ in range(10)]
        ops += [["pass", i, B + 64 * MS - 1] for i in range(10)]
        t = B + 130 * MS
        ops += [["allow", t, 0, 0] for _ in range(6)]
        ops += [["fail", 20 + i] for i in range(5)]
        ops += [["allow", t, 1000, 1000], ["allow", t, 1000, 1000], ["allow", t, 1000, 1000]]
        cs.append(self._case(3200 * MS, 50, 900, B, ops))
        # cool-off boundary: shed at t, then cpu low at t+1s-1 (still hot), t+1s (cooled)
        pre = [["allow", B, 0, 0] for _ in range(6)] + [["fail", i] for i in range(3)]
        for d in (COOL - 1, COOL, COOL + 1):
            ops = pre + [["allow", B + 5, 950, 950], ["allow", B + 5 + d, 0, 0], ["allow", B + 5 + d, 0, 0]]
            cs.append(self._case(5 * SEC, 50, 900, B, ops))
        # known finding nan-factor-threshold-eq-cpumax, exhibited: threshold = cpuMax, capacity 1, flying 10,
        # avgFlying ~ 8.9, CPU reading exactly 1000 -> overloaded and saturated, yet admitted (NaN factor);
        # at 1001 the factor is -Inf -> clamped to 0.1 -> shed
        ops = [["allow", B, 0, 0] for _ in range(20)] + [["pass", i, B + 5 * MS] for i in range(10)]
        ops += [["allow", B + 150 * MS, 1000, 1000], ["allow", B + 150 * MS, 1001, 1001]]
        cs.append(self._case(5 * SEC, 50, 1000, B, ops))
        # NaN corner: threshold = cpuMax = reading
        ops = pre + [["allow", B + 5, 1000, 1000], ["allow", B + 6, 1001, 1001], ["allow", B + 7, 1000, 999]]
        cs.append(self._case(5 * SEC, 50, 1000, B, ops, mode="split"))
        # disabled, directly and through a group
        ops = ([["allow", B, 1000, 1000] for _ in range(20)] + [["pass", 0, B + 1]] + [["fail", i] for i in range(1, 10)]
               + [["allow", B + 2, 1000, 1000]])
        cs.append(self._case(5 * SEC, 50, 900, B, ops, enabled=False))
        cs.append(self._case(5 * SEC, 50, 900, B, ops, enabled=False, via="group"))
        # bucket boundary: passes land in bucket 0; read at the last instant of bucket 1 / first of bucket `size`
        for tt in (2 * 100 * MS - 1, 10 * 100 * MS - 1, 10 * 100 * MS, 11 * 100 * MS):
            ops = [["allow", B, 0, 0] for _ in range(12)] + [["pass", i, B + 99 * MS] for i in range(6)]
            ops += [["fail", 6], ["fail", 7], ["allow", B + tt, 990, 990], ["allow", B + tt, 990, 990]]
            cs.append(self._case(SEC, 10, 900, B, ops))
        # virtual clock at 0: timex.Now() = 0 is "unset" for overloadTime - an overloaded Allow at clock 0 followed by
        # a shed leaves droppedRecently set with overloadTime = 0 (stillHot's "overloadTime == 0" return)
        ops = [["allow", 0, 0, 0] for _ in range(20)] + [["fail", 0], ["fail", 1], ["allow", 0, 1000, 1000],
                                                          ["allow", 0, 0, 0], ["allow", 5, 0, 0], ["allow", 5, 1000, 1000], ["allow", 6, 0, 0]]
        cs.append(self._case(5 * SEC, 50, 900, 0, ops))
        # buckets longer than a second / not dividing it, warmed up, CPU high: capacity far above the floor of 1
        for (w, b) in ((10 * SEC, 5), (60 * SEC, 50), (3750 * MS, 50), (3 * SEC, 5)):
            bd = w // b
            ops = [["allow", B, 0, 0] for _ in range(24)] + [["pass", i, B + 30 * MS] for i in range(20)]
            t = B + bd + 1
            ops += [["allow", t, 0, 0] for _ in range(6)] + [["fail", 44 + i] for i in range(4)]
            ops += [["allow", t, 1000, 1000], ["allow", t, 950, 950], ["allow", t + 2 * bd, 1000, 1000]]
            cs.append(self._case(w, b, 900, B, ops))
        # two shedders with the same configuration + a group member, Disable() before the last construction
        sh = [{"window": SEC, "buckets": 10, "threshold": 900, "via": "direct", "key": ""},
              {"window": SEC, "buckets": 10, "threshold": 900, "via": "direct", "key": ""},
              {"window": 2 * SEC, "buckets": 4, "threshold": 500, "via": "group", "key": "a"},
              {"window": 2 * SEC, "buckets": 4, "threshold": 500, "via": "group", "key": "b"}]
        ops = [["new", 0, B], ["new", 1, B], ["new", 2, B]]
        ops += [["allow", 0, B, 0, 0] for _ in range(12)]                          # ops 3..14
        ops += [["pass", 0, 3 + i, B + 20 * MS] for i in range(8)]                 # 15..22
        ops += [["allow", 2, B + 20 * MS, 0, 0] for _ in range(5)]                 # 23..27
        ops += [["disable"], ["new", 3, B + 30 * MS]]                              # 28, 29
        ops += [["allow", 1, B + 150 * MS, 1000, 1000], ["allow", 0, B + 150 * MS, 1000, 1000],
                ["allow", 3, B + 150 * MS, 1000, 1000], ["fail", 2, 23], ["fail", 2, 24],
                ["allow", 2, B + 150 * MS, 1000, 1000], ["allow", 3, B + 151 * MS, 1000, 1000], ["pass", 3, 32, B + 152 * MS]]
        cs.append({"kind": "multi", "t0": B, "mode": "real",
                   "group": {"window": 2 * SEC, "buckets": 4, "threshold": 500, "via": "group", "key": ""},
                   "shedders": sh, "ops": ops})
        cs += self._order_corpus()
        cs += self._episode_corpus()
        cs += self._constants_corpus()
        # overlapping Allows with nothing in flight: 40 let in and drained one by one (capacity estimate 1, average ~ 8),
        # then 3 calls parked inside Allow at once, CPU over the threshold: the first one released is let in (nothing in
        # flight), the others see 1 and 2 in flight
        ops = [["allow", B, 0, 0] for _ in range(40)] + [["pass", i, B + MS] for i in range(40)]
        ops += [["enter"], ["enter"], ["enter"]]
        ops += [["decide", 80, B + 2 * MS, 1000, 1000], ["fail", 83], ["decide", 81, B + 2 * MS, 1000, 1000], ["fail", 85],
                ["decide", 82, B + 2 * MS, 1000, 1000], ["fail", 87], ["finish", 80], ["finish", 81], ["finish", 82]]
        cs.append({"kind": "conc", "window": 10 * SEC, "buckets": 10, "threshold": 900, "t0": B, "ops": ops})
        ops = [["allow", B, 0, 0] for _ in range(12)] + [["pass", i, B + MS] for i in range(12)]
        ops += [["enter"], ["enter"], ["enter"], ["enter"]]
        ops += [["decide", 24, B + 2 * MS, 1000, 1000], ["decide", 25, B + 2 * MS, 1000, 1000], ["decide", 26, B + 2 * MS + 1, 0, 0],
                ["finish", 25], ["decide", 27, B + 2 * MS + 2, 0, 0], ["finish", 26], ["finish", 27], ["fail", 28]]
        cs.append({"kind": "conc", "window": 10 * SEC, "buckets": 10, "threshold": 900, "t0": B, "ops": ops})
        # completions while somebody else is on avgFlying: 30 let in, the lock is taken, requests complete four at a time
        # (Fail: capacity stays 10), every sample 29..10 is above 10; then CPU = threshold (factor 1): 10 in flight is
        # not above 10 -> let in, 11 in flight and an average above 10 -> shed
        ops = [["allow", B, 0, 0] for _ in range(30)]
        for g in range(5):
            ops += [["hold"]] + [["fail", 4 * g + j] for j in range(4)] + [["release"]]
        ops += [["allow", B + MS, 999, 999], ["allow", B + MS, 999, 999], ["allow", B + MS, 999, 999]]
        cs.append({"kind": "conc", "window": 5 * SEC, "buckets": 50, "threshold": 999, "t0": B, "ops": ops})
        # wrappers in front of a real shedder: handlers that panic / answer 503 / time out while others are in flight
        reqs = [{"codes": [], "body": True, "panic": False} for _ in range(14)]
        reqs[1] = {"codes": [500], "body": False, "panic": True}
        reqs[2] = {"codes": [503], "body": False, "panic": False}
        reqs[3] = {"codes": [200, 503], "body": False, "panic": True}
        ops = [["start", B, 0, i] for i in range(12)] + [["finish", i, B + 5 * MS] for i in range(6)]
        ops += [["start", B + 150 * MS, 950, 12], ["start", B + 150 * MS, 950, 13], ["finish", 18, B + 151 * MS]]
        ops += [["finish", i, B + 160 * MS] for i in range(6, 12)] + [["start", B + 161 * MS, 1000, 0]]
        cs.append({"kind": "wrest", "window": 5 * SEC, "buckets": 50, "threshold": 900, "t0": B, "reqs": reqs, "ops": ops})
        outs = ["ok", "panic", "deadline", "wrapped", "err", "status_deadline", "overloaded", "own_exhausted", "canceled",
                "panic_overloaded"] + ["ok"] * 4
        cs.append({"kind": "wrpc", "window": 5 * SEC, "buckets": 50, "threshold": 900, "t0": B,
                   "reqs": [{"out": o} for o in outs], "ops": ops})
        # wrappers: every outcome class, shed and let in, with and without panic / body; no shedder configured
        reqs = [{"shed": True, "codes": [200], "body": True, "panic": False},
                {"nil": True, "shed": False, "codes": [], "body": True, "panic": False},
                {"nil": True, "shed": False, "codes": [503], "body": False, "panic": True}]
        for codes in ([], [200], [503], [500], [500, 503], [503, 200], [204, 503, 404]):
            for pn in (False, True):
                reqs.append({"shed": False, "codes": codes, "body": not pn, "panic": pn})
        cs.append({"kind": "rest", "reqs": reqs})
        cs.append({"kind": "rpc", "reqs": [{"shed": True, "out": "ok"}, {"shed": True, "out": "panic"}]
                   + [{"shed": False, "out": o} for o in RPC_OUTS]})
        cs.append({"kind": "group", "keys": [1, 2, 1, 3, 2, 1, 1, 30]})
        for c in cs:
            c["corpus"] = True
        for fn in sorted(os.listdir(os.path.join(vlib.ROOT, "corpus", "C02"))) if os.path.isdir(os.path.join(vlib.ROOT, "corpus", "C02")) else []:
            if fn.endswith(".json"):
                import json
                obj = json.load(open(os.path.join(vlib.ROOT, "corpus", "C02", fn)))
                cs.append(obj.get("case", obj))
        return cs

    # ---- the ORDER of the configuration calls (seeded C02-10: ShedderGroup deciding "nop or adaptive" when it is
    # made instead of when a member is built).  A script is a list of tokens
    #   "D" load.Disable() | ("G", g) NewShedderGroup | ("N", k) build shedder k (NewAdaptiveShedder, or the first
    #   GetShedder of its key) | ("R", k) GetShedder again | ("T", k) a burst on shedder k that ends saturated under
    #   a CPU of 1000: 20 let in, 10 failed, then two Allows - a live shedder sheds both (in flight 10, average ~ 8.9,
    #   capacity 1), a shedder built after Disable() lets both in | ("L", k) a few requests let in and left open
    #   | ("X", k) resolve what ("L", k) left open
    def _order_case(self, shedders, groups, script, t0=BASE, mode="real"):
        ops, t = [], t0
        left = {}
        for tok in script:
            if tok == "D":
                ops.append(["disable"])
            elif tok[0] == "G":
                ops.append(["group", tok[1]])
            elif tok[0] == "N":
                t += 7 * MS
                ops.append(["new", tok[1], t])
            elif tok[0] == "R":
                ops.append(["get", tok[1]])
            elif tok[0] == "L":
                for _ in range(3):
                    left.setdefault(tok[1], []).append(len(ops))
                    ops.append(["allow", tok[1], t, 0, 0])
            elif tok[0] == "X":
                for i in left.pop(tok[1], []):
                    ops.append(["fail", tok[1], i])
            else:
                k = tok[1]
                t += MS
                first = len(ops)
                ops += [["allow", k, t, 1000, 1000] for _ in range(20)]
                ops += [["fail", k, first + i] for i in range(10)]
                ops += [["allow", k, t + 1, 1000, 1000], ["allow", k, t + 2, 1000, 1000]]
                ops += [["fail", k, first + i] for i in range(10, 20)]
        return {"kind": "multi", "t0": t0, "mode": mode, "group": None, "groups": groups, "shedders": shedders, "ops": ops}

    def _order_corpus(self):
        g0 = {"window": 2 * SEC, "buckets": 4, "threshold": 500, "via": "group", "key": ""}
        g1 = {"window": 5 * SEC, "buckets": 50, "threshold": 900, "via": "group", "key": "", "omit": ["window", "buckets", "threshold"]}

        def mem(g, key, gc):
            return {"window": gc["window"], "buckets": gc["buckets"], "threshold": gc["threshold"], "via": "group",
                    "key": key, "grp": g}

        def direct(w, b, th, **kw):
            return dict({"window": w, "buckets": b, "threshold": th, "via": "direct", "key": ""}, **kw)
        cs = []
        # Disable() AFTER NewShedderGroup, BEFORE the first GetShedder: the member is a nopShedder
        cs.append(self._order_case([mem(0, "a", g0)], [g0], [("G", 0), "D", ("N", 0), ("T", 0)]))
        # ... the group made before the first operation (no "group" op), two keys
        cs.append(self._order_case([mem(0, "a", g0), mem(0, "b", g0)], [g0], ["D", ("N", 0), ("N", 1), ("T", 1), ("T", 0)]))
        # one scenario, every position: group, member a, direct 1 (live) | Disable | member b, direct 3 (nop); a again
        sh = [mem(0, "a", g0), direct(SEC, 10, 900), mem(0, "b", g0), direct(SEC, 10, 900, dup=True)]
        cs.append(self._order_case(sh, [g0], [("G", 0), ("N", 0), ("N", 1), ("L", 0), "D", ("N", 2), ("N", 3), ("R", 0), ("X", 0),
                                              ("T", 2), ("T", 0), ("T", 3), ("T", 1), ("R", 2), ("R", 0)]))
        # Disable() first of all: group, member and direct shedder are all built afterwards
        cs.append(self._order_case([mem(0, "a", g0), direct(3 * SEC, 5, 0)], [g0], ["D", ("G", 0), ("N", 0), ("N", 1), ("T", 0), ("T", 1)]))
        # two groups, Disable() between their constructions, members of both built afterwards (the second group with
        # the default options); Disable() twice
        sh = [mem(0, "a", g0), mem(1, "a", g1), mem(1, "b", g1)]
        cs.append(self._order_case(sh, [g0, g1], [("G", 0), "D", ("G", 1), ("N", 1), ("N", 0), "D", ("N", 2), ("T", 0), ("T", 1), ("T", 2)]))
        # the control: no Disable() at all - every shedder is live, sheds when saturated, options passed twice
        sh = [mem(0, "a", dict(g0, dup=True)), direct(SEC, 10, 900), mem(1, "k", g1)]
        cs.append(self._order_case(sh, [dict(g0, dup=True), g1], [("G", 1), ("G", 0), ("N", 0), ("N", 1), ("N", 2), ("T", 0), ("T", 1), ("T", 2), ("R", 0)]))
        # Disable() in the middle of the traffic of a live member: it stays live (requests in flight are resolved, it
        # sheds again), the next key gets a nopShedder
        sh = [mem(0, "a", g0), mem(0, "b", g0)]
        cs.append(self._order_case(sh, [g0], [("N", 0), ("L", 0), "D", ("X", 0), ("T", 0), ("N", 1), ("T", 1), ("R", 0)]))
        return cs

    # ---- "while shedding was already in progress" (seeded C02-8: a fast path that skips the cool-off bookkeeping
    # when nothing is in flight).  An episode starts with a shed request and ends at the first Allow under a cool CPU
    # at least coolOffDuration after the last overloaded one; a later CPU spike that sheds nothing must not re-open it.
    def _episode_corpus(self):
        B = BASE
        cs = []
        for idle_allows, with_flight in ((3, False), (2, True)):
            ops = [["allow", B, 0, 0] for _ in range(20)] + [["fail", i] for i in range(10)]      # 0..29: 10 in flight, avg ~ 8.9
            ops += [["allow", B + 1, 1000, 1000]]                                                  # 30: shed - the episode starts
            ops += [["fail", i] for i in range(10, 20)]                                           # 31..40: drained
            t = B + 1 + COOL                                                                       # the cool-off is over
            for j in range(idle_allows):                                                           # strictly sequential idle traffic
                i = len(ops)
                if with_flight and j == 0:
                    ops += [["allow", t, 0, 0], ["allow", t, 0, 0], ["fail", i], ["fail", i + 1]]  # one Allow sees another in flight
                else:
                    ops += [["allow", t + j, 0, 0], ["pass", i, t + j + MS]]
            t += 10 * SEC
            i = len(ops)
            ops += [["allow", t, 0, 0] for _ in range(20)] + [["fail", i + k] for k in range(9)]   # 11 in flight, avg high again
            ops += [["allow", t + 1, 1000, 1000]]          # a spike; sheds (saturated): a NEW episode - fine in both readings
            ops += [["fail", i + k] for k in range(9, 20)]
            # drain, cool off again with idle sequential traffic only, then a spike that sheds NOTHING (1 in flight, average
            # decayed), then load under a cool CPU within the second after the spike: let in (no episode is open)
            t2 = t + 1 + COOL + 5
            i = len(ops)
            ops += [["allow", t2, 0, 0], ["pass", i, t2 + MS]]
            for j in range(60):                              # the moving average decays to ~ 0 (60 resolutions at 0)
                i = len(ops)
                ops += [["allow", t2 + 2 * MS + j, 0, 0], ["fail", i]]
            t3 = t2 + 3 * SEC
            i = len(ops)
            ops += [["allow", t3, 0, 0], ["allow", t3, 1000, 1000]]       # the spike: 1 in flight, average ~ 0 -> let in
            j = len(ops)
            ops += [["allow", t3 + 1, 0, 0] for _ in range(20)] + [["fail", j + k] for k in range(10)]
            ops += [["allow", t3 + COOL // 2, 0, 0], ["allow", t3 + COOL - 1, 0, 0]]   # cool CPU, saturated, < 1 s after the spike
            cs.append(self._case(5 * SEC, 50, 900, B, ops))
        # requests shed DURING the cool-off do not extend it (seeded C02-1: overloadTime stamped by every shed): 25 in
        # flight, average ~ 24, capacity 10; shed under an overloaded CPU at B+1, shed again 0.6 s later under a cool CPU
        # (still hot), let in one second after the overloaded Allow - 0.4 s after the last shed
        for d in (COOL - 1, COOL, COOL + 400 * MS):
            ops = [["allow", B, 0, 0] for _ in range(40)] + [["fail", i] for i in range(15)]
            ops += [["allow", B + 1, 1000, 1000], ["allow", B + 1 + 600 * MS, 0, 0], ["allow", B + 1 + 900 * MS, 0, 0],
                    ["allow", B + 1 + d, 0, 0], ["allow", B + 1 + d + 1, 0, 0]]
            cs.append(self._case(5 * SEC, 50, 900, B, ops))
        # a shedder built at an instant that is NOT a multiple of its bucket duration (seeded C02-5: maxFlight() memoised
        # per timex.Now() / bucketDuration while the windows' buckets are aligned with the construction time): 10 passes
        # of 50 ms complete in bucket 0 = [t0, t0 + 100 ms); an overloaded Allow at t0 + 80 ms (capacity 10: that bucket is
        # the current one) and one at t0 + 110 ms (capacity 5 = 10 x 50 / 100; 9 in flight, average ~ 9: shed) lie in
        # the same 100 ms period of the process clock
        for ph in (30 * MS, 70 * MS):
            t0 = B + ph
            ops = [["allow", t0, 0, 0] for _ in range(20)] + [["pass", i, t0 + 50 * MS] for i in range(10)]
            ops += [["fail", 10], ["fail", 11]]
            near = t0 + 80 * MS if ph == 30 * MS else t0 + 40 * MS       # same process-clock period as t0 + 110 ms? (ph = 70: no)
            ops += [["allow", near, 900, 900], ["allow", t0 + 110 * MS, 900, 900], ["allow", t0 + 125 * MS, 900, 900]]
            cs.append(self._case(5 * SEC, 50, 900, t0, ops))
        return cs

    # ---- every constant of adaptiveshedder.go decides something in a fixed history (tools/c02consts.py falls back on
    # these when a constant cannot be located in the source any more): the three defaults with every option left out
    # (a pass seen 49 buckets later and gone after 50, threshold 900 vs 899), the overload factor half way between the
    # threshold and cpuMax, the 10 % floor, defaultMinRt on an empty window, the cool-off second
    def _constants_corpus(self):
        B = BASE
        cs = []
        for tt in (49 * 100 * MS, 50 * 100 * MS):
            # 14 in flight, average ~ 15; capacity 6 x 99 / 100 while the passes are in the window, 10 afterwards
            ops = [["allow", B, 0, 0] for _ in range(30)] + [["pass", i, B + 99 * MS] for i in range(6)]
            ops += [["fail", i] for i in range(6, 16)]
            ops += [["allow", B + tt, 899, 899], ["allow", B + tt, 900, 900], ["allow", B + tt, 950, 950]]
            cs.append(self._case(5 * SEC, 50, 900, B, ops, omit=("window", "buckets", "threshold")))
        # capacity 40 (10 passes of 400 ms in one bucket x 400 / 100); CPU 950: factor 1/2 -> bound 20; 990: 1/10 -> 4;
        # 1000: 0, raised to the 10 % floor -> 4; 900: 1 -> 40
        for nfl, cpu in ((19, 950), (21, 950), (3, 990), (5, 990), (3, 1000), (5, 1000), (39, 900), (41, 900)):
            ops = [["allow", B, 0, 0] for _ in range(10)] + [["pass", i, B + 400 * MS] for i in range(10)]
            t = B + 550 * MS
            i = len(ops)
            ops += [["allow", t, 0, 0] for _ in range(nfl + 8)] + [["fail", i + k] for k in range(8)]
            for _ in range(12):                         # the average settles just above the in-flight count
                j = len(ops)
                ops += [["allow", t, 0, 0], ["fail", j]]
            ops += [["allow", t, cpu, cpu], ["allow", t, cpu, cpu]]
            cs.append(self._case(5 * SEC, 50, 900, B, ops, omit=("window", "buckets")))
        return cs

    def _case(self, window, buckets, th, t0, ops, enabled=True, via="direct", mode="real", omit=()):
        c = {"window": window, "buckets": buckets, "threshold": th, "t0": t0, "enabled": enabled,
             "via": via, "mode": mode, "ops": ops}
        if omit:
            c["omit"] = sorted(omit)
        return c

    @staticmethod
    def _omit(rng, window, buckets, th):
        """leave some options out: the constructor's defaults apply (and the case says so)"""
        omit = [k for k in ("window", "buckets", "threshold") if rng.random() < 0.45]
        vals = {"window": window, "buckets": buckets, "threshold": th}
        for k in omit:
            vals[k] = DEFAULTS[k]
        if vals["window"] < vals["buckets"]:     # a bucket must last at least 1 ns
            omit = [k for k in omit if k not in ("window", "buckets")]
            vals["window"], vals["buckets"] = window, buckets
        return vals["window"], vals["buckets"], vals["threshold"], omit

    CONFIGS = [(5 * SEC, 50), (5 * SEC, 50), (SEC, 10), (SEC, 1), (2 * SEC, 2), (3 * SEC, 10), (10 * SEC, 50), (10 * SEC, 7),
               (3200 * MS, 50), (3200 * MS, 50), (1600 * MS, 25), (6400 * MS, 50), (50 * MS, 50), (500 * MS, 10), (64 * MS, 4),
               (7 * SEC, 33), (4 * SEC, 3),
               # bucket durations that do not divide one second (75 ms, 600 ms, 333.333 us), that exceed it (1.2 s =
               # WithWindow(time.Minute), 2 s, one 60 s bucket), tiny windows (1 ns / 3 ns / 100 ns buckets)
               (3750 * MS, 50), (750 * MS, 10), (3 * SEC, 5), (60 * SEC, 50), (60 * SEC, 50), (10 * SEC, 5), (60 * SEC, 1),
               (MS, 3), (50, 50), (7, 2), (1000, 10), (3 * SEC, 4), (1500 * MS, 1)]
    THRESHOLDS = [900] * 8 + [500, 100, 990, 936, 0, 0, 1000, 1000, 1100, 999, 1, -5, 10 ** 15]

    def _config(self, rng):
        r = rng.random()
        if r < 0.75:
            return rng.choice(self.CONFIGS)
        if r < 0.9:
            return rng.randint(1, 10) * SEC, rng.randint(1, 50)
        b = rng.randint(1, 50)      # any window >= buckets ns (a bucket lasts at least 1 ns)
        return rng.choice([b * rng.randint(1, 2000), rng.randint(b, 90 * SEC), b * 75 * MS + rng.randrange(b)]), b

    def _gen_other(self, rng):
        r = rng.random()
        if r < 0.4:
            reqs = []
            for _ in range(rng.randint(3, 30)):
                codes = [rng.choice(REST_CODES) for _ in range(rng.choice([0, 1, 1, 1, 2, 3]))]
                reqs.append({"shed": rng.random() < 0.3, "codes": codes, "body": rng.random() < 0.5,
                             "panic": rng.random() < 0.15})
            return {"kind": "rest", "reqs": reqs}
        if r < 0.8:
            return {"kind": "rpc", "reqs": [{"shed": rng.random() < 0.3, "out": rng.choice(RPC_OUTS)}
                                            for _ in range(rng.randint(3, 30))]}
        nk = rng.randint(1, 6)
        return {"kind": "group", "keys": [rng.randrange(nk) + rng.choice([0, 0, 26]) for _ in range(rng.randint(2, 25))]}

    def gen(self, rng, n, tier):
        cases = []
        for _ in range(n):
            if rng.random() < 0.12:
                cases.append(self._gen_other(rng))
                continue
            r0 = rng.random()
            if r0 < 0.06:
                cases.append(self._gen_order(rng))
                continue
            if r0 < 0.22:
                cases.append(self._gen_multi(rng, tier))
                continue
            if r0 < 0.34:
                cases.append(self._gen_wreal(rng, tier))
                continue
            if r0 < 0.42:
                cases.append(self._gen_phased(rng))
                continue
            if r0 < 0.52:
                cases.append(self._gen_conc(rng))
                continue
            window, buckets = self._config(rng)
            th = rng.choice(self.THRESHOLDS)
            omit = []
            if rng.random() < 0.25:
                window, buckets, th, omit = self._omit(rng, window, buckets, th)
            bd = window // buckets
            t0 = BASE + rng.choice([0, 1, rng.randrange(10 * SEC)])
            enabled = rng.random() > 0.04
            via = "group" if rng.random() < 0.15 else "direct"
            mode = "split" if rng.random() < 0.2 else "real"
            trace = rng.choice(["low", "high", "high", "at", "spiky", "spiky", "mixed", "mixed", "ramp"])
            double = rng.random() < 0.04
            nops = rng.randint(20, 110) if tier != "search" else rng.randint(10, 70)
            ops = []
            t = t0
            open_ids = []
            done_ids = []
            lat_style = rng.choice(["short", "bucket", "long", "mixed"])
            # fail-heavy family: in-flight builds up under an overloaded CPU and most promises are resolved with
            # Fail, so that avgFlying is driven by Fail (shed_when_saturated is judged with the recomputed average)
            fail_heavy = rng.random() < 0.25
            p_pass, p_fail = (0.62, 0.74) if not fail_heavy else (0.44, 0.78)
            if fail_heavy:
                trace = rng.choice(["high", "high", "at", "mixed"])
                if rng.random() < 0.6:
                    window, buckets = rng.choice([(SEC, 1), (2 * SEC, 2), (4 * SEC, 3), (10 * SEC, 7), (3 * SEC, 2)])
                    bd = window // buckets
                    omit = [k for k in omit if k == "threshold"]
                lat_style = rng.choice(["short", "short", "mixed"])
            step = 0
            while len(ops) < nops:
                r = rng.random()
                if r < 0.40:
                    for _ in range(rng.choice([1, 1, 2, 3, 5, 8, 12])):
                        c1 = self._cpu(rng, th, trace, step)
                        c2 = c1 if mode == "real" else self._cpu(rng, th, rng.choice(["low", "high", "at", "mixed"]), step)
                        open_ids.append(len(ops))
                        ops.append(["allow", t, c1, c2])
                        step += 1
                elif r < p_pass and open_ids:
                    for _ in range(rng.choice([1, 1, 2, 4, 8])):
                        if not open_ids:
                            break
                        i = open_ids.pop(rng.randrange(len(open_ids)))
                        done_ids.append(i)
                        ops.append(["pass", i, t])
                elif r < p_fail and open_ids:
                    for _ in range(rng.choice([1, 1, 2, 4])):
                        if not open_ids:
                            break
                        i = open_ids.pop(rng.randrange(len(open_ids)))
                        done_ids.append(i)
                        ops.append(["fail", i])
                elif r < p_fail + 0.02 and double and done_ids:
                    i = rng.choice(done_ids)
                    ops.append(rng.choice([["pass", i, t], ["fail", i]]))
                else:
                    t += self._gap(rng, bd, window, lat_style)
            cases.append(self._case(window, buckets, th, t0, ops[:nops], enabled, via, mode, omit))
        return cases

    # overlapping Allow calls under a forced schedule: a burst drains one by one (the average lags behind the count),
    # then N calls are parked inside Allow at once and released in a chosen order, droppers parked again at the log line
    def _gen_conc(self, rng):
        window, buckets = rng.choice([(10 * SEC, 10), (10 * SEC, 10), (5 * SEC, 50), (SEC, 10), (3 * SEC, 5), (60 * SEC, 50),
                                      (2 * SEC, 2), (SEC, 1), (3750 * MS, 50)])
        bd = window // buckets
        th = rng.choice([900, 900, 900, 500, 0, 990])
        t0 = BASE + rng.choice([0, 1, rng.randrange(10 * SEC)])
        hi = [max(th, 0), max(th, 0) + 1, 1000, 1000, 950 if th <= 950 else 1000]
        lo = [th - 1, th - 100, 0] if th > 0 else [-1]
        ops, holders = [], []       # holders: op indices (allow / decide) whose promise may be open
        t = t0
        for phase in range(rng.choice([1, 2, 2, 3])):
            for _ in range(rng.choice([3, 6, 12, 25, 40])):          # a burst is let in ...
                holders.append(len(ops))
                ops.append(["allow", t, rng.choice(lo), rng.choice(lo)])
            t += rng.choice([1, MS, 5 * MS, bd // 3 + 1])
            keep = rng.choice([0, 0, 0, 1, 2, 5, 12, 20])            # ... and drains one by one
            rng.shuffle(holders)
            contended = rng.random() < 0.6
            while len(holders) > keep:
                if contended and rng.random() < 0.35:
                    # somebody else is inside the avgFlying critical section while 1..4 requests complete: they get
                    # past their decrement, wait for the lock, and fold their samples in afterwards - none is lost
                    ops.append(["hold"])
                    for _ in range(min(rng.choice([1, 2, 3, 4, 4]), len(holders) - keep)):
                        i = holders.pop()
                        ops.append(["pass", i, t] if rng.random() < 0.5 else ["fail", i])
                    ops.append(["release"])
                    continue
                i = holders.pop()
                ops.append(["pass", i, t] if rng.random() < 0.7 else ["fail", i])
            t += rng.choice([0, 1, MS, bd, bd + 1, COOL // 2])
            n = rng.choice([2, 3, 3, 4, 6])
            parked = []
            for _ in range(n):
                parked.append(len(ops))
                ops.append(["enter"])
            undecided, droppers = list(parked), []
            trace = rng.choice(["hi", "hi", "hi", "mixed"])
            while undecided or droppers:
                r = rng.random()
                if undecided and (r < 0.6 or not droppers):
                    tid = undecided.pop(rng.randrange(len(undecided)))
                    t += rng.choice([0, 0, 1, MS])
                    c1 = rng.choice(hi) if trace == "hi" or rng.random() < 0.6 else rng.choice(lo)
                    c2 = c1 if rng.random() < 0.8 else rng.choice(hi + lo)
                    holders.append(len(ops))
                    droppers.append(tid)
                    ops.append(["decide", tid, t, c1, c2])
                elif droppers and r < 0.85:
                    ops.append(["finish", droppers.pop(rng.randrange(len(droppers)))])
                elif r < 0.92 and holders:
                    i = holders.pop(rng.randrange(len(holders)))
                    ops.append(["pass", i, t] if rng.random() < 0.5 else ["fail", i])
                else:
                    holders.append(len(ops))
                    ops.append(["allow", t, rng.choice(hi + lo), rng.choice(hi)])
            t += rng.choice([1, MS, COOL - 1, COOL, bd, window])
            if len(ops) > 150:
                break
        return {"kind": "conc", "window": window, "buckets": buckets, "threshold": th, "t0": t0, "ops": ops}

    # multi-phase history on one shedder: warm up - overload and shed - drain to idle - pause - refill and overload
    # again - drain - an Allow on the idle shedder under full CPU (never shed)
    def _gen_phased(self, rng):
        window, buckets = rng.choice([(5 * SEC, 50), (SEC, 10), (3 * SEC, 5), (3750 * MS, 50), (10 * SEC, 5), (2 * SEC, 2), (60 * SEC, 50)])
        bd = window // buckets
        th = rng.choice([900, 900, 500, 0, 990])
        t0 = BASE + rng.choice([0, 1, rng.randrange(10 * SEC)])
        ops, open_ids = [], []
        t = t0

        def allows(n, cpu):
            for _ in range(n):
                open_ids.append(len(ops))
                ops.append(["allow", t, cpu, cpu])

        def resolve(n, how):
            for _ in range(min(n, len(open_ids))):
                i = open_ids.pop(rng.randrange(len(open_ids)))
                ops.append(["pass", i, t] if how == "pass" or (how == "mix" and rng.random() < 0.6) else ["fail", i])

        hi = max(th, 0) + rng.choice([0, 1, 50, 1000])
        lo = th - rng.choice([1, 100]) if th > 0 else -1
        for phase in range(rng.choice([2, 2, 3])):
            allows(rng.randint(4, 14), lo)                          # warm up: a bucket of passes with some latency
            t += rng.choice([MS, 5 * MS, 30 * MS, bd // 2])
            resolve(rng.randint(3, 12), "pass")
            t += rng.choice([bd, bd + 1, 2 * bd])                   # that bucket is complete now
            allows(rng.randint(6, 20), lo)
            resolve(rng.randint(2, 8), rng.choice(["fail", "mix"]))  # the average follows
            allows(rng.randint(2, 5), hi)                           # overloaded: sheds when above the estimate
            t += rng.choice([1, MS, COOL - 1 - MS, COOL // 2])
            allows(rng.randint(1, 4), lo)                           # cooling off
            resolve(len(open_ids), rng.choice(["pass", "mix", "fail"]))   # drain to idle
            allows(1, hi)                                           # idle + overloaded: let in
            resolve(1, "fail")
            t += rng.choice([COOL - 1, COOL, COOL + 1, bd, window - bd, window, 2 * window + 1, 10 * window])
            allows(1, lo)
            resolve(1, "pass")
        return self._case(window, buckets, th, t0, ops[:160])

    # the order of the configuration calls, drawn at random: 1-2 groups, 1-3 members, 0-2 directly built shedders,
    # Disable() (once, twice or never) at any position, NewShedderGroup anywhere before its first member, GetShedder
    # repeated, every shedder driven to saturation afterwards (a live one sheds, one built after Disable() does not)
    def _gen_order(self, rng):
        ng = rng.choice([1, 1, 2])
        groups = []
        for g in range(ng):
            w, b = rng.choice([(2 * SEC, 4), (SEC, 10), (5 * SEC, 50), (3 * SEC, 5), (10 * SEC, 10)])
            gc = {"window": w, "buckets": b, "threshold": rng.choice([900, 500, 0, 990]), "via": "group", "key": ""}
            if rng.random() < 0.25:
                gc = dict(gc, window=DEFAULTS["window"], buckets=DEFAULTS["buckets"], threshold=DEFAULTS["threshold"],
                          omit=["window", "buckets", "threshold"])
            elif rng.random() < 0.3:
                gc["dup"] = True
            groups.append(gc)
        shedders, items = [], []
        for g in range(ng):
            for j in range(rng.choice([1, 1, 2, 3]) if g == 0 else rng.choice([1, 2])):
                gc = groups[g]
                shedders.append({"window": gc["window"], "buckets": gc["buckets"], "threshold": gc["threshold"],
                                 "via": "group", "key": "k%d" % j, "grp": g})
        for _ in range(rng.choice([0, 1, 1, 2])):
            w, b = rng.choice([(SEC, 10), (5 * SEC, 50), (3 * SEC, 5), (2 * SEC, 2)])
            d = {"window": w, "buckets": b, "threshold": rng.choice([900, 500, 0]), "via": "direct", "key": ""}
            if rng.random() < 0.3:
                d["dup"] = True
            shedders.append(d)
        order = list(range(len(shedders)))
        rng.shuffle(order)
        script = [("N", k) for k in order]
        # NewShedderGroup: anywhere before the first member of the group (or before the first operation: no op)
        for g in range(ng):
            if rng.random() < 0.75:
                first = min(i for i, t in enumerate(script) if t[0] == "N" and shedders[t[1]].get("grp", -1) == g
                            and shedders[t[1]]["via"] == "group")
                script.insert(rng.randint(0, first), ("G", g))
        for _ in range(rng.choice([0, 1, 1, 1, 2])):
            script.insert(rng.randint(0, len(script)), "D")
        # traffic: every shedder saturated once, somewhere after it was built; now and then requests left open across
        # the Disable(), GetShedder repeated
        for k in order:
            born = next(i for i, t in enumerate(script) if t == ("N", k))
            script.insert(rng.randint(born + 1, len(script)), ("T", k))
            if rng.random() < 0.3:
                a = rng.randint(born + 1, len(script))
                script.insert(a, ("L", k))
                script.insert(rng.randint(a + 1, len(script)), ("X", k))
            if shedders[k]["via"] == "group" and rng.random() < 0.5:
                script.insert(rng.randint(born + 1, len(script)), ("R", k))
        return self._order_case(shedders, groups, script, t0=BASE + rng.choice([0, 1, rng.randrange(10 * SEC)]),
                                mode="split" if rng.random() < 0.2 else "real")

    # several shedders of one process (directly built and members of ONE ShedderGroup), built at different
    # moments, load.Disable() possibly in between, their Allow / Pass / Fail operations interleaved
    def _gen_multi(self, rng, tier):
        n = rng.choice([2, 2, 3, 4])
        gcfg = None
        shedders = []
        for k in range(n):
            window, buckets = self._config(rng)
            th = rng.choice([t for t in self.THRESHOLDS if t != 1000])
            if rng.random() < 0.35:
                if gcfg is None:
                    gcfg = {"window": window, "buckets": buckets, "threshold": th, "via": "group", "key": ""}
                shedders.append({"window": gcfg["window"], "buckets": gcfg["buckets"], "threshold": gcfg["threshold"],
                                 "via": "group", "key": "key%d" % k})
            else:
                # same configuration as another shedder now and then: nothing may be shared all the same
                if shedders and rng.random() < 0.3:
                    o = rng.choice(shedders)
                    window, buckets, th = o["window"], o["buckets"], o["threshold"]
                shedders.append({"window": window, "buckets": buckets, "threshold": th, "via": "direct", "key": ""})
        t0 = BASE + rng.choice([0, 1, rng.randrange(10 * SEC)])
        mode = "split" if rng.random() < 0.2 else "real"
        nops = rng.randint(25, 110) if tier != "search" else rng.randint(12, 70)
        births = sorted(rng.sample(range(nops), n - 1)) if rng.random() < 0.6 else [0] * (n - 1)
        disable_at = rng.randrange(nops) if rng.random() < 0.35 else None
        traces = [rng.choice(["high", "high", "at", "spiky", "mixed", "mixed", "low"]) for _ in range(n)]
        styles = [rng.choice(["short", "bucket", "long", "mixed"]) for _ in range(n)]
        # NewShedderGroup: before the first operation (no op), as the first operation, or only just before the first member
        # is asked for - Disable() may fall before it, between it and the first GetShedder, or later
        group_when = rng.choice(["implicit", "first", "lazy"]) if gcfg is not None else "implicit"
        ops = [["group", 0]] if group_when == "first" else []
        if group_when == "lazy" and shedders[0]["via"] == "group":
            ops.append(["group", 0])
            group_when = "done"
        ops.append(["new", 0, t0])
        alive = [0]
        pending = list(range(1, n))
        open_ids = {k: [] for k in range(n)}
        steps = [0] * n
        t = t0
        while len(ops) < nops:
            if disable_at is not None and len(ops) >= disable_at:
                ops.append(["disable"])
                disable_at = None
                continue
            if pending and len(ops) >= births[0]:
                k = pending.pop(0)
                births.pop(0)
                if group_when == "lazy" and shedders[k]["via"] == "group":
                    ops.append(["group", 0])
                    group_when = "done"
                ops.append(["new", k, t])
                alive.append(k)
                continue
            if rng.random() < 0.02:
                members = [k for k in alive if shedders[k]["via"] == "group"]
                if members:
                    ops.append(["get", rng.choice(members)])
                    continue
            k = rng.choice(alive)
            cfg = shedders[k]
            th = cfg["threshold"]
            r = rng.random()
            if r < 0.42:
                for _ in range(rng.choice([1, 1, 2, 3, 5, 8, 12])):
                    c1 = self._cpu(rng, th, traces[k], steps[k])
                    c2 = c1 if mode == "real" else self._cpu(rng, th, rng.choice(["low", "high", "at", "mixed"]), steps[k])
                    open_ids[k].append(len(ops))
                    ops.append(["allow", k, t, c1, c2])
                    steps[k] += 1
            elif r < 0.62 and open_ids[k]:
                for _ in range(rng.choice([1, 1, 2, 4, 8])):
                    if open_ids[k]:
                        ops.append(["pass", k, open_ids[k].pop(rng.randrange(len(open_ids[k]))), t])
            elif r < 0.76 and open_ids[k]:
                for _ in range(rng.choice([1, 1, 2, 4])):
                    if open_ids[k]:
                        ops.append(["fail", k, open_ids[k].pop(rng.randrange(len(open_ids[k])))])
            else:
                t += self._gap(rng, cfg["window"] // cfg["buckets"], cfg["window"], styles[k])
        return {"kind": "multi", "t0": t0, "mode": mode, "group": gcfg, "shedders": shedders, "ops": ops}

    # the REST / zRPC wrapper in front of one long-lived real shedder; requests overlap (handlers wait on gates)
    def _gen_wreal(self, rng, tier):
        rest = rng.random() < 0.5
        window, buckets = self._config(rng) if rng.random() < 0.5 else rng.choice([(5 * SEC, 50), (SEC, 10), (3 * SEC, 4), (SEC, 1)])
        bd = window // buckets
        th = rng.choice([900] * 6 + [500, 100, 990, 0, 999, 1100])
        t0 = BASE + rng.choice([0, 1, rng.randrange(10 * SEC)])
        trace = rng.choice(["high", "high", "at", "spiky", "mixed", "mixed", "ramp"])
        style = rng.choice(["short", "bucket", "mixed", "short"])
        nops = rng.randint(20, 90) if tier != "search" else rng.randint(10, 50)
        # overload-class outcomes (503 / DeadlineExceeded -> Fail) are frequent in some cases
        failish = rng.random() < 0.3
        reqs, ops, open_ids = [], [], []
        t, step = t0, 0
        while len(ops) < nops:
            r = rng.random()
            if r < 0.45:
                for _ in range(rng.choice([1, 1, 2, 3, 5, 8, 12])):
                    if rest:
                        codes = [rng.choice(REST_CODES + ([503] * 8 if failish else []))
                                 for _ in range(rng.choice([0, 1, 1, 1, 2, 3]))]
                        reqs.append({"codes": codes, "body": rng.random() < 0.5, "panic": rng.random() < 0.12})
                    else:
                        reqs.append({"out": rng.choice(RPC_OUTS + (["deadline", "wrapped"] * 3 if failish else []))})
                    open_ids.append(len(ops))
                    ops.append(["start", t, self._cpu(rng, th, trace, step), len(reqs) - 1])
                    step += 1
            elif r < 0.78 and open_ids:
                for _ in range(rng.choice([1, 1, 2, 4, 8])):
                    if open_ids:
                        ops.append(["finish", open_ids.pop(rng.randrange(len(open_ids))), t])
            else:
                t += self._gap(rng, bd, window, style)
        return {"kind": "wrest" if rest else "wrpc", "window": window, "buckets": buckets, "threshold": th, "t0": t0,
                "reqs": reqs, "ops": ops}

    def _cpu(self, rng, th, trace, step):
        below = [th - 1, th - 50, th - 400, 0, th - 1]
        above = [th, th + 1, th + 50, th + (1000 - th) // 2, th + (1000 - th) * 3 // 4, 1000, 1050, 999]
        if trace == "low":
            v = rng.choice(below)
        elif trace == "high":
            v = rng.choice(above)
        elif trace == "at":
            v = rng.choice([th, th, th - 1, th + 1])
        elif trace == "spiky":
            v = rng.choice(above) if rng.random() < 0.15 else rng.choice(below)
        elif trace == "ramp":
            v = max(0, th - 200 + 7 * step)
        else:
            v = rng.choice(below + above)
        return max(0, v)

    def _gap(self, rng, bd, window, style):
        k = rng.choice([1, 1, 2, 3, 5])
        edge = [0, 1, bd - 1, bd, bd + 1, k * bd - 1, k * bd, k * bd + 1, COOL - 1, COOL, COOL + 1,
                window - bd, window - 1, window, window + 1, 2 * window + 3]
        if style == "short":
            pool = [rng.randrange(1, 3 * MS), rng.randrange(1, 40 * MS), rng.choice(edge), bd // 3 + 1]
        elif style == "bucket":
            pool = [rng.choice(edge), rng.choice(edge), rng.randrange(1, 2 * bd + 1), bd // 2 + 1]
        elif style == "long":
            pool = [rng.randrange(1, 900 * MS), rng.choice(edge), rng.randrange(1, window + 1), 100 * MS]
        else:
            pool = [rng.randrange(1, 3 * MS), rng.randrange(1, 300 * MS), rng.choice(edge), rng.randrange(1, 2 * bd + 1)]
        if rng.random() < 0.01:
            return rng.choice([10 ** 15, 3 * 10 ** 16])       # days, a year: every bucket expired, latencies of 10^9 ms
        return max(0, rng.choice(pool))

    # ---- execution -----------------------------------------------------------
    @staticmethod
    def _to_scenario(case):
        """single-shedder history -> the executor's scenario format (promise ids = global op indices)"""
        pre = ([] if case["enabled"] else [["disable"]]) + [["new", 0, case["t0"]]]
        off = len(pre)
        ops = list(pre)
        for o in case["ops"]:
            if o[0] == "allow":
                ops.append(["allow", 0, o[1], o[2], o[3]])
            elif o[0] == "pass":
                ops.append(["pass", 0, o[1] + off, o[2]])
            else:
                ops.append(["fail", 0, o[1] + off])
        cfg = {"window": case["window"], "buckets": case["buckets"], "threshold": case["threshold"],
               "via": case["via"], "key": "k", "omit": case.get("omit", [])}
        return {"t0": case["t0"], "mode": case["mode"], "group": cfg if case["via"] == "group" else None,
                "shedders": [cfg], "ops": ops}, off

    whitebox = True     # False: the white-box overlay of core/load could not be built against this tree (see prepare)

    def _executors(self):
        """EXECUTORS with the overlay sources adapted to today's unexported identifiers of core/load (tools/c02names.py)"""
        if getattr(self, "_ov", None) is None:
            import c02names
            self._names, self._missing, self._name_notes = c02names.resolve()
            self._ov = {ex: (pkg, c02names.materialize(ov, self._names), test) for ex, (pkg, ov, test) in EXECUTORS.items()}
        return self._ov

    def _run_executor(self, ex, sub):
        pkg, ov, test = self._executors()[ex]
        return vlib.go_test_overlay(pkg, ov, run=test, cases=sub, tag="c02" + ex, timeout=900)

    @staticmethod
    def _to_wrest(case):
        """black-box fall-back: a single-shedder history as requests through the real SheddingHandler (public API of
        core/load, CPU stub, virtual clock): Allow = a request arrives, Pass / Fail = its handler ends with 200 / 503.
        None when the history needs what only the white-box executor can do."""
        if (case.get("kind", "shed") != "shed" or case["mode"] != "real" or not case["enabled"] or case["via"] != "direct"
                or case.get("omit") or case["threshold"] == 1000 or case["t0"] == 0):
            return None
        how, seen = {}, set()
        for o in case["ops"]:
            if o[0] != "allow":
                if o[1] in seen:
                    return None         # double resolution: a handler ends once
                seen.add(o[1])
                how[o[1]] = o[0]
        reqs, ops, t = [], [], case["t0"]
        for i, o in enumerate(case["ops"]):
            if o[0] == "allow":
                t = o[1]
                reqs.append({"codes": [503] if how.get(i) == "fail" else [], "body": how.get(i) != "fail", "panic": False})
                ops.append(["start", t, o[2], len(reqs) - 1])
            elif o[0] == "pass":
                t = o[2]
                ops.append(["finish", o[1], t])
            else:
                ops.append(["finish", o[1], t])
        return {"kind": "wrest", "window": case["window"], "buckets": case["buckets"], "threshold": case["threshold"],
                "t0": case["t0"], "reqs": reqs, "ops": ops, "from_shed": True}

    def execute(self, cases, ctx):
        out = [None] * len(cases)
        jobs = {}
        if not self.whitebox:
            # black-box fall-back: single-shedder histories go through the REST wrapper, the other white-box kinds are
            # not executed (and say so)
            for i, c in enumerate(cases):
                if EXEC_OF[c.get("kind", "shed")] in ("shed", "conc", "group"):
                    w = self._to_wrest(c)
                    cases[i] = dict(w, id=c.get("id"), corpus=c.get("corpus", False)) if w else dict(c, skipped=True)
        for i, c in enumerate(cases):
            if c.get("skipped"):
                out[i] = {"skipped": True}
        for ex in EXECUTORS:
            idx = [i for i, c in enumerate(cases) if EXEC_OF[c.get("kind", "shed")] == ex and not c.get("skipped")]
            if not idx:
                continue
            sub, offs = [], []
            for j, i in enumerate(idx):
                c = cases[i]
                if c.get("kind", "shed") == "shed":
                    sc, off = self._to_scenario(c)
                    sub.append(dict(sc, id=j))
                    offs.append(off)
                else:
                    sub.append(dict(c, id=j))
                    offs.append(0)
            jobs[ex] = (idx, sub, offs)
        # the executors are independent go test processes: run them side by side
        if vlib.COVER or len(jobs) <= 1:
            done = {ex: self._run_executor(ex, jobs[ex][1]) for ex in jobs}
        else:
            import concurrent.futures
            with concurrent.futures.ThreadPoolExecutor(max_workers=len(jobs)) as pool:
                futs = {ex: pool.submit(self._run_executor, ex, jobs[ex][1]) for ex in jobs}
                done = {ex: f.result() for ex, f in futs.items()}
        for ex, (idx, sub, offs) in jobs.items():
            rc, log_, res = done[ex]
            if rc != 0 or len(res) != len(sub):
                raise ExecError("c02 %s executor rc=%s (%d/%d results): %s" % (ex, rc, len(res), len(sub), log_[-3000:]))
            for i, r, off in zip(idx, res, offs):
                kind = cases[i].get("kind", "shed")
                if kind == "conc":
                    # a forced schedule that cannot be carried out on this tree (a call that should park inside the
                    # overload checker never gets there, ...) is a disagreement with the interleaving model on THIS case,
                    # not a reason to stop judging the others
                    bad = [b["bad"] for b in (r.get("obs") or []) if b.get("bad")]
                    if bad or (r.get("err") and "cpu gauge" not in r["err"]):
                        out[i] = {"broken": (bad[0] if bad else r["err"])}
                        continue
                if r.get("err"):
                    raise ExecError("c02 executor: case %s: %s" % (cases[i].get("id"), r["err"]))
                if kind in ("shed", "multi"):
                    bad = [b["bad"] for b in r["obs"] if b.get("bad")]
                    if bad:
                        raise ExecError("c02 executor: case %s: %s" % (cases[i].get("id"), bad[0]))
                if kind == "shed":
                    nw = r["obs"][off - 1]
                    out[i] = {"obs": r["obs"][off:], "same": nw["same"], "nop": nw["nop"], "ws": [nw["wm"], nw["we"]],
                              "tries": r.get("tries", 1)}
                elif kind in ("multi", "wrest", "wrpc"):
                    out[i] = {"obs": r["obs"], "tries": r.get("tries", 1)}
                elif kind == "conc":
                    out[i] = {"obs": r["obs"], "ws": r["ws"], "tries": r.get("tries", 1)}
                else:
                    out[i] = {"obs": r["obs"]}
        return out

    def prepare(self, ctx):
        # compile the overlay tests once (also proves they still build against the current tree)
        def one(ex):
            return self._run_executor(ex, [])
        exs = [ex for ex in EXECUTORS if ex not in ("group", "conc")]
        self._executors()
        ctx.notes += ["white-box identifiers: " + x for x in self._name_notes]
        if vlib.COVER:
            rs = [one(ex) for ex in exs]
        else:
            import concurrent.futures
            with concurrent.futures.ThreadPoolExecutor(max_workers=len(exs)) as pool:
                rs = list(pool.map(one, exs))
        for ex, (rc, out, res) in zip(exs, rs):
            if rc != 0 and ex == "shed" and all(r[0] == 0 for e2, r in zip(exs, rs) if e2 != "shed") \
                    and not ({"flying", "avgFlying"} & set(self._missing)):
                # the white-box overlay of core/load does not build against this tree (an unexported identifier it names
                # could not be located: %s): fall back on the black-box executors - public API, CPU stub, virtual clock
                self.whitebox = False
                ctx.notes.append("WHITE-BOX OVERLAY UNAVAILABLE (roles not located: %s; %s): single-shedder histories run "
                                 "through the REST wrapper (verdicts, flying / avgFlying by reflection), multi / conc / group "
                                 "kinds and the -race monitor are skipped in this run"
                                 % (", ".join(self._missing) or "none", out.strip().split("\n")[-1][:200]))
                continue
            if rc != 0:
                return False, out
        return True, ""

    def extra(self, ctx):
        """(skipped when the white-box overlay is unavailable) free-running -race monitor of conservation / idle-never-sheds / one sample per resolution under real concurrency
        (both tiers since round 4: it takes a few seconds and is the only thing that notices a lock or an atomic taken away -
        mutation sweep C02-m006 / C02-m042: `defer rw.lock.Unlock()` run at once)."""
        if not self.whitebox:
            return []
        rc, out, res = vlib.go_test_overlay("./core/load", self._executors()["shed"][1], run="^TestVerifC02Race$", cases=[], tag="c02r",
                                            timeout=600, race=True, env={"VERIF_C02_RACE": "1"})
        ctx.checker_cmds.append("go test -race -run TestVerifC02Race ./core/load (overlay): 16 goroutines x 3000 Allow/Pass/Fail; 4000 rounds of two concurrent resolutions against a lock contender")
        if rc != 0 or not res:
            if "DATA RACE" in out:
                return [{"what": "data race in core/load under concurrent Allow/Pass/Fail", "replay": out[-3000:]}]
            raise ExecError("c02 race monitor rc=%s: %s" % (rc, out[-2000:]))
        r = res[0]
        ctx.notes.append("race monitor: %s" % r)
        fails = []
        if r["final"] != 0 or r["admitted"] != r["resolved"] or r["negative"] != 0:
            fails.append({"what": "flying != admitted - resolved under concurrency", "replay": r})
        if r["idleShed"] != 0:
            fails.append({"what": "idle shedder shed a request", "replay": r})
        if r.get("avgMismatch", 0) != 0 or r.get("avgRounds", 0) == 0:
            fails.append({"what": "a resolution's sample for the moving average was lost (or folded twice) under contention "
                                  "for avgFlyingLock: avgFlying is not the fold of the two samples in either order", "replay": r})
        return fails

    def coq_case(self, case, obs):
        kind = case.get("kind", "shed")
        if obs.get("skipped"):
            return "CGroup [] []"       # nothing was executed, nothing is judged (counted under the feature below)
        if kind == "rest":
            items = []
            for q, o in zip(case["reqs"], obs["obs"]):
                ro = "(mkRO %s %s)" % (clist([cz(c) for c in q["codes"]]), cbool(q["panic"]))
                if q.get("nil"):
                    rq = "WRestNoShedder %s" % ro
                else:
                    rq = "WRest %s %s" % ("VShed" if q["shed"] else "VGrant", ro)
                ob = "WO %s %s %s %s (VisStatus %s) %s" % (cz(o["runs"]), cz(o["allows"]), cz(o["passes"]), cz(o["fails"]), cz(o["code"]), cbool(o["panic"]))
                items.append("(%s, %s)" % (rq, ob))
            return "CWrap %s" % clist(items)
        if kind == "rpc":
            items = []
            for q, o in zip(case["reqs"], obs["obs"]):
                rq = "WRpc %s %s" % ("VShed" if q["shed"] else "VGrant", RPC_COQ[q["out"]])
                ob = "WO %s %s %s %s %s %s" % (cz(o["runs"]), cz(o["allows"]), cz(o["passes"]), cz(o["fails"]),
                                               self._rpc_vis(o, q["out"]), cbool(o["panic"]))
                items.append("(%s, %s)" % (rq, ob))
            return "CWrap %s" % clist(items)
        if kind == "group":
            return "CGroup %s %s" % (clist([cz(k) for k in case["keys"]]),
                                     clist(["(%s, %s)" % (cz(a), cz(b)) for a, b in obs["obs"]]))
        if kind == "multi":
            return "CWorld %s %s" % (self._coq_world(case),
                                     clist(["(%s)" % self._coq_shed(c, o) for c, o in self._split(case, obs)]))
        if kind in ("wrest", "wrpc"):
            return self._coq_wreal(case, obs)
        if kind == "conc":
            return self._coq_conc(case, obs)
        return "CShed (%s)" % self._coq_shed(case, obs)

    @staticmethod
    def _rpc_vis(o, out=None):
        """what the caller saw.  The executor classifies the error by its value; codes.ResourceExhausted is the
        shed answer when the handler did not run and the handler's own error when it did (and asked for it)."""
        v = o["vis"]
        if v == "exhausted":
            if o.get("runs") and out == "own_exhausted":
                return "(VisStatus (-2))" if not o["val"] else "(VisRpc GExhausted)"
            return "VisExhausted"
        vis = "(VisRpc %s)" % RPC_COQ[v] if v in RPC_COQ else "(VisStatus (-1))"
        if v in RPC_COQ and not v.startswith("panic") and not o["val"]:
            vis = "(VisStatus (-2))"   # the handler's value was lost
        return vis

    def _coq_conc(self, case, obs):
        if obs.get("broken"):
            # the schedule could not be executed: agrees = false (window scale 0), nothing to judge (no operations)
            return "CConc (mkCfg %s %s %s true) %s (0, 0) []" % (cz(case["window"]), cz(case["buckets"]), cz(case["threshold"]),
                                                                 cz(case["t0"]))
        items = []
        for o, b in zip(case["ops"], obs["obs"]):
            ka = "KA %s %s %s %s %s %s %s %s" % (cbool(b["shed"]), cz(b["fl"]), cz(b["mp"]), cz(b["rt"]), cz(b["am"]), cz(b["ae"]),
                                                 cz(b["cm"]), cz(b["ce"]))
            kn = "KN %s %s %s %s" % (cbool(b["ok"]), cz(b["fl"]), cz(b["am"]), cz(b["ae"]))
            kr = "KR %s %s %s %s" % (cbool(b["done"]), cz(b["fl"]), cz(b["am"]), cz(b["ae"]))
            if o[0] == "allow":
                items.append("(KAllow %s %s %s, %s)" % (cz(o[1]), cz(o[2]), cz(o[3]), ka))
            elif o[0] == "pass":
                items.append("(KPass %s %s, %s)" % (cz(o[1]), cz(o[2]), kr))
            elif o[0] == "fail":
                items.append("(KFail %s, %s)" % (cz(o[1]), kr))
            elif o[0] == "enter":
                items.append("(KEnter, %s)" % kn)
            elif o[0] == "decide":
                items.append("(KDecide %s %s %s %s, %s)" % (cz(o[1]), cz(o[2]), cz(o[3]), cz(o[4]), ka))
            elif o[0] == "hold":
                items.append("(KHold, %s)" % kn)
            elif o[0] == "release":
                items.append("(KRelease, %s)" % kn)
            else:
                items.append("(KFinish %s, %s)" % (cz(o[1]), kn))
        cfg = "(mkCfg %s %s %s true)" % (cz(case["window"]), cz(case["buckets"]), cz(case["threshold"]))
        return "CConc %s %s (%s, %s) %s" % (cfg, cz(case["t0"]), cz(obs["ws"][0]), cz(obs["ws"][1]), clist(items))

    def _coq_wreal(self, case, obs):
        rest = case["kind"] == "wrest"
        items = []
        for o, b in zip(case["ops"], obs["obs"]):
            if o[0] == "start":
                q = case["reqs"][o[3]]
                if rest:
                    wo = "(WoRest (mkRO %s %s))" % (clist([cz(c) for c in q["codes"]]), cbool(q["panic"]))
                    vis = "(VisStatus %s)" % cz(b["code"] if b["shed"] else 0)
                else:
                    wo = "(WoRpc %s)" % RPC_COQ[q["out"]]
                    vis = self._rpc_vis(dict(b, val=True), q["out"]) if b["shed"] else "(VisStatus 0)"
                op = "WStart %s %s %s" % (cz(o[1]), cz(o[2]), wo)
                ob = "WSO %s %s %s %s %s %s %s" % (cbool(b["shed"]), cz(b["allows"]), cz(b["runs"]), vis, cz(b["fl"]), cz(b["am"]), cz(b["ae"]))
            else:
                if rest:
                    vis = "(VisStatus %s)" % cz(b["code"])
                else:
                    st = case["ops"][o[1]]
                    vis = self._rpc_vis(b, case["reqs"][st[3]]["out"]) if b["done"] else "(VisStatus 0)"
                op = "WFinish %s %s" % (cz(o[1]), cz(o[2]))
                ob = "WFO %s %s %s %s %s %s %s %s" % (cbool(b["done"]), cz(b["passes"]), cz(b["fails"]), vis, cbool(b["panic"]),
                                                      cz(b["fl"]), cz(b["am"]), cz(b["ae"]))
            items.append("(%s, %s)" % (op, ob))
        cfg = "(mkCfg %s %s %s true)" % (cz(case["window"]), cz(case["buckets"]), cz(case["threshold"]))
        return "CWReal %s %s %s" % (cfg, cz(case["t0"]), clist(items))

    @staticmethod
    def _split(case, obs):
        """a scenario -> one (single-shedder case, observation) pair per shedder, promise ids local"""
        per = {}      # in the order in which the shedders were built
        disabled = False
        where = {}    # global op index of an Allow -> (shedder, local index)
        for gi, (o, b) in enumerate(zip(case["ops"], obs["obs"])):
            if o[0] == "disable":
                # load.Disable() counts for every shedder BUILT afterwards - a group member is built by the first
                # GetShedder of its key, whenever its group was made (the Coq side re-derives this from the order
                # of the configuration calls: Check.world_ok)
                disabled = True
            elif o[0] == "group":
                pass
            elif o[0] == "get":
                per[o[1]][1]["same"] = per[o[1]][1]["same"] and b["same"]
            elif o[0] == "new":
                cfg = case["shedders"][o[1]]
                if cfg["via"] == "group":
                    cfg = dict(C02._groups(case)[cfg.get("grp", 0)], via="group")
                per[o[1]] = ({"window": cfg["window"], "buckets": cfg["buckets"], "threshold": cfg["threshold"],
                              "t0": o[2], "enabled": not disabled, "via": cfg["via"], "mode": case["mode"], "ops": []},
                             {"obs": [], "same": b["same"], "nop": b["nop"], "ws": [b["wm"], b["we"]]})
            else:
                c, ob = per[o[1]]
                if o[0] == "allow":
                    where[gi] = (o[1], len(c["ops"]))
                    c["ops"].append(["allow", o[2], o[3], o[4]])
                else:
                    k, li = where.get(o[2], (None, -1))
                    li = li if k == o[1] else -1
                    c["ops"].append(["pass", li, o[3]] if o[0] == "pass" else ["fail", li])
                ob["obs"].append(b)
        return list(per.values())

    @staticmethod
    def _groups(case):
        return case.get("groups") or ([case["group"]] if case.get("group") else [])

    def _coq_world(self, case):
        """the configuration calls of a scenario, in the order in which they were made, as World.wev events;
        groups and shedders are numbered in the order in which they were built"""
        groups = self._groups(case)
        explicit = {o[1] for o in case["ops"] if o[0] == "group"}
        gno, evs, keys = {}, [], {}

        def opts(c):
            return "(mkOpts %s %s %s)" % (cz(c["window"]), cz(c["buckets"]), cz(c["threshold"]))
        for g, gc in enumerate(groups):
            if g not in explicit:       # built before the first operation
                gno[g] = len(gno)
                evs.append("XGroup %s" % opts(gc))
        for o in case["ops"]:
            if o[0] == "disable":
                evs.append("XDisable")
            elif o[0] == "group":
                gno[o[1]] = len(gno)
                evs.append("XGroup %s" % opts(groups[o[1]]))
            elif o[0] in ("new", "get"):
                cfg = case["shedders"][o[1]]
                t = o[2] if o[0] == "new" else 0
                if cfg["via"] == "group":
                    g = cfg.get("grp", 0)
                    key = keys.setdefault((g, cfg["key"]), len(keys))
                    evs.append("XGet %d %s %s" % (gno[g], cz(key), cz(t)))
                    if o[0] == "new":       # the executor calls GetShedder twice and compares
                        evs.append("XGet %d %s %s" % (gno[g], cz(key), cz(t)))
                else:
                    evs.append("XNew %s %s" % (opts(cfg), cz(t)))
        return clist(evs)

    def _coq_shed(self, case, obs):
        items = []
        for o, b in zip(case["ops"], obs["obs"]):
            if o[0] == "allow":
                op = "OAllow %s %s %s" % (cz(o[1]), cz(o[2]), cz(o[3]))
                ob = "OA %s %s %s %s %s %s %s %s" % (cbool(b["shed"]), cz(b["fl"]), cz(b["mp"]), cz(b["rt"]), cz(b["am"]), cz(b["ae"]),
                                                     cz(b["cm"]), cz(b["ce"]))
            elif o[0] == "pass":
                op = "OPass %s %s" % (cz(o[1]), cz(o[2]))
                ob = "OR %s %s %s %s" % (cbool(b["done"]), cz(b["fl"]), cz(b["am"]), cz(b["ae"]))
            else:
                op = "OFail %s" % cz(o[1])
                ob = "OR %s %s %s %s" % (cbool(b["done"]), cz(b["fl"]), cz(b["am"]), cz(b["ae"]))
            items.append("(%s, %s)" % (op, ob))
        cfg = "(mkCfg %s %s %s %s)" % (cz(case["window"]), cz(case["buckets"]), cz(case["threshold"]), cbool(case["enabled"]))
        return "mkCase %s %s %s %s true (%s, %s) %s" % (cfg, cz(case["t0"]), cbool(obs["same"]), cbool(obs["nop"]),
                                                        cz(obs["ws"][0]), cz(obs["ws"][1]), clist(items))

    # ---- measurement -----------------------------------------------------------
    def _walk(self, case, obs):
        """per Allow: (hot, shed, near) from the observables (independent of Coq)."""
        th = case["threshold"]
        bd = case["window"] // case["buckets"]
        res = []
        fl, avg = 0, Fraction(0)
        over_t, dropped = None, False
        for o, b in zip(case["ops"], obs["obs"]):
            if o[0] == "allow":
                now, c1, c2 = o[1], o[2], o[3]
                over = c1 >= th
                if over:
                    over_t = now
                still = False
                if not over and dropped and over_t is not None:
                    if now - over_t < COOL:
                        still = True
                    else:
                        dropped = False
                hot = over or still
                near = False
                if hot and b["mp"] and th != 1000:
                    raw = Fraction(b["mp"] * b["rt"] * MS, bd)
                    f = min(Fraction(1), max(Fraction(1, 10), Fraction(1000 - c2, 1000 - th)))
                    m = max(raw, Fraction(1)) * f
                    for x in (Fraction(fl), avg):
                        if abs(m - x) * TWO30 <= max(abs(m), abs(x)):
                            near = True
                if b["shed"]:
                    dropped = True
                res.append((hot, b["shed"], near, over))
            fl = b["fl"]
            avg = dyadic(b["am"], b["ae"])
        return res

    def _views(self, case, obs):
        """the single-shedder histories contained in a case: [(legacy case, observation)]"""
        kind = case.get("kind", "shed")
        if obs.get("broken") or obs.get("skipped"):
            return []
        if kind == "shed":
            return [(case, obs)]
        if kind == "multi":
            return self._split(case, obs)
        if kind == "conc":
            ops, ob = [], []
            for o, b in zip(case["ops"], obs["obs"]):
                if o[0] in ("allow", "decide"):
                    a = o[1:] if o[0] == "allow" else o[2:]
                    ops.append(["allow", a[0], a[1], a[2]])
                    ob.append(b)
                elif o[0] in ("pass", "fail"):
                    ops.append(list(o))
                    ob.append(b)
                else:
                    ops.append(["fail", -1])
                    ob.append({"done": False, "fl": b["fl"], "am": b["am"], "ae": b["ae"]})
            return [({"window": case["window"], "buckets": case["buckets"], "threshold": case["threshold"], "t0": case["t0"],
                      "enabled": True, "via": "direct", "mode": "split", "ops": ops}, {"obs": ob, "nop": False, "same": True})]
        if kind in ("wrest", "wrpc"):
            ops, ob = [], []
            for o, b in zip(case["ops"], obs["obs"]):
                if o[0] == "start":
                    ops.append(["allow", o[1], o[2], o[2]])
                    ob.append({"shed": b["shed"], "fl": b["fl"], "am": b["am"], "ae": b["ae"], "mp": 0, "rt": 0})
                else:
                    ops.append(["fail" if b["fails"] else "pass", o[1], o[2]])
                    ob.append({"done": b["done"], "fl": b["fl"], "am": b["am"], "ae": b["ae"]})
            return [({"window": case["window"], "buckets": case["buckets"], "threshold": case["threshold"], "t0": case["t0"],
                      "enabled": True, "via": "direct", "mode": "real", "ops": ops}, {"obs": ob, "nop": False, "same": True})]
        return []

    def nontrivial(self, case, obs):
        kind = case.get("kind", "shed")
        if obs.get("broken") or obs.get("skipped"):
            return False
        if kind == "conc":
            # overlapping Allows whose verdicts differ, at least one of them parked as a dropper while another decided
            ob = obs["obs"]
            dec = [b["shed"] for o, b in zip(case["ops"], ob) if o[0] == "decide"]
            return len(dec) >= 3 and any(dec) and not all(dec)
        if kind in ("multi", "wrest", "wrpc"):
            vs = self._views(case, obs)
            live = [(c, o) for c, o in vs if not o["nop"]]
            if kind == "multi":
                # at least two live shedders with traffic, one of them shedding
                busy = [1 for c, o in live if sum(1 for x in c["ops"] if x[0] == "allow") >= 3]
                return len(busy) >= 2 and any(b.get("shed") for c, o in live for b in o["obs"])
            w = self._walk(*live[0])
            ob = obs["obs"]
            return (any(x[1] for x in w) and any(b["k"] == "finish" and b["fails"] for b in ob)
                    and any(b["k"] == "finish" and b["passes"] for b in ob)
                    and any(b["k"] == "start" and not b["shed"] and b["fl"] >= 3 for b in ob))
        if kind in ("rest", "rpc"):
            qs = case["reqs"]
            return any(q["shed"] for q in qs) and any(o["fails"] for o in obs["obs"]) and any(o["passes"] for o in obs["obs"])
        if kind == "group":
            return len(set(case["keys"])) > 1 and len(case["keys"]) > len(set(case["keys"]))
        if obs["nop"]:
            return False
        w = self._walk(case, obs)
        shed = any(s for (_, s, _, _) in w)
        hot_admit = any(h and not s for (h, s, _, _) in w)
        passed = any(o[0] == "pass" and b["done"] for o, b in zip(case["ops"], obs["obs"]))
        return shed and hot_admit and passed

    def features(self, case, obs):
        kind = case.get("kind", "shed")
        if obs.get("skipped"):
            return ["kind=" + kind, "skipped_white_box_overlay_unavailable"]
        if obs.get("broken"):
            return ["kind=" + kind, "forced_schedule_not_executable"]
        if kind in ("multi", "wrest", "wrpc", "conc"):
            fs = ["kind=" + kind]
            vs = self._views(case, obs)
            if kind == "conc":
                par, mx = 0, 0
                for o in case["ops"]:
                    par += 1 if o[0] == "enter" else -1 if o[0] == "decide" else 0
                    mx = max(mx, par)
                fs.append("allows_parked_at_once=%d" % mx)
                if any(o[0] == "decide" and b["shed"] for o, b in zip(case["ops"], obs["obs"])):
                    fs.append("conc_dropper_parked_at_log")
                if any(o[0] == "decide" and not b["shed"] and b["fl"] >= 2 for o, b in zip(case["ops"], obs["obs"])):
                    fs.append("conc_let_in_while_others_decide")
                waits, held = [], 0
                for o in case["ops"]:
                    if o[0] == "hold":
                        held = 0
                    elif o[0] in ("pass", "fail"):
                        held += 1
                    elif o[0] == "release":
                        waits.append(held)
                if waits:
                    fs.append("resolutions_waiting_for_avg_lock<=%d" % max(waits))
            elif kind == "multi":
                fs.append("shedders=%d" % len(vs))
                if any(o["nop"] for c, o in vs) and any(not o["nop"] for c, o in vs):
                    fs.append("disable_between_constructions")
                if any(c["via"] == "group" for c, o in vs):
                    fs.append("group_members")
                cfgs = [(c["window"], c["buckets"], c["threshold"]) for c, o in vs]
                if len(set(cfgs)) < len(cfgs):
                    fs.append("two_shedders_same_config")
            else:
                ob = obs["obs"] if kind != "conc" else []
                if any(b["k"] == "finish" and b["panic"] for b in ob):
                    fs.append("wrapper_handler_panics")
                if kind != "conc":
                    fs.append("max_in_flight<=%d" % (5 * (1 + max([b["fl"] for b in ob] + [0]) // 5)))
            for c, o in vs:
                if o["nop"]:
                    continue
                bd = c["window"] // c["buckets"]
                fs.append("bucket_" + ("divides_1s" if SEC % bd == 0 else "gt_1s" if bd > SEC else "not_dividing_1s"))
                w = self._walk(c, o)
                if any(x[1] for x in w):
                    fs.append(kind + "_sheds")
                if any(s_ and not ov for (_, s_, _, ov) in w):
                    fs.append("shed_while_cooling_off")
            return sorted(set(fs))
        if kind != "shed":
            fs = ["kind=" + kind]
            if kind != "group":
                if any(o["panic"] for o in obs["obs"]):
                    fs.append("wrapper_handler_panics")
                if any(q["shed"] for q in case["reqs"]):
                    fs.append("wrapper_shed")
                if kind == "rest" and any(not q["codes"] and not q["body"] and not q["shed"] for q in case["reqs"]):
                    fs.append("wrapper_handler_writes_nothing")
            return fs
        bd = case["window"] // case["buckets"]
        fs = ["buckets<=%d" % (10 * (1 + (case["buckets"] - 1) // 10)), "window_s=%d" % (case["window"] // SEC),
              "bucket_" + ("divides_1s" if SEC % bd == 0 else "gt_1s" if bd > SEC else "not_dividing_1s"),
              "mode=" + case["mode"], "via=" + case["via"], "threshold=%d" % case["threshold"],
              "ops<=%d" % (20 * (1 + len(case["ops"]) // 20))]
        if obs["nop"]:
            return fs + ["disabled"]
        w = self._walk(case, obs)
        nshed = sum(1 for x in w if x[1])
        fs.append("sheds=%s" % ("0" if nshed == 0 else "1-4" if nshed < 5 else "5+"))
        if any(h and not o for (h, _, _, o) in w):
            fs.append("cooling_off_allow")
        if any(s and not o for (_, s, _, o) in w):
            fs.append("shed_while_cooling_off")
        if any(n for (_, _, n, _) in w):
            fs.append("near_tie_or_tie")
        if any(h and not s for (h, s, _, _) in w):
            fs.append("hot_but_admitted")
        if obs.get("tries", 1) > 1:
            fs.append("rerun_cpu_gauge_moved")
        if any(o[0] != "allow" and not b["done"] for o, b in zip(case["ops"], obs["obs"])):
            fs.append("resolve_of_shed_request(noop)")
        ids = [o[1] for o, b in zip(case["ops"], obs["obs"]) if o[0] != "allow" and b["done"]]
        if len(ids) != len(set(ids)):
            fs.append("double_resolve(out of quantifier)")
        if any(b["fl"] == 0 for b in obs["obs"][1:]):
            fs.append("returns_to_idle")
        return fs

    # ---- shrinking: delete operations, renumber promise ids --------------------
    def _shrink_scenario(self, case):
        """multi / wrest / wrpc: delete operations (never a "new"), renumber the references"""
        ops = case["ops"]
        n = len(ops)
        ref = {"pass": 2, "fail": 2, "finish": 1}
        if case.get("kind") == "conc":
            ref = {"pass": 1, "fail": 1, "finish": 1, "decide": 1}
        res = []
        chunk = max(1, n // 2)
        while True:
            for i in range(0, n, chunk):
                keep = [j for j in range(n) if not (i <= j < i + chunk) or ops[j][0] == "new"]
                if len(keep) == n:
                    continue
                ks = set(keep)
                kept = [j for j in keep if ops[j][0] not in ref or ops[j][ref[ops[j][0]]] in ks]
                if case.get("kind") == "conc":
                    # a pass / fail whose decide went away goes too (its reference is two hops: decide -> enter)
                    k2 = set(kept)
                    kept = [j for j in kept if ops[j][0] not in ("pass", "fail") or ops[j][1] in k2]
                    # a finish needs the decide of its thread
                    dec = {ops[j][1] for j in kept if ops[j][0] == "decide"}
                    kept = [j for j in kept if ops[j][0] != "finish" or ops[j][1] in dec]
                    # hold ... release stay paired, with nothing but pass / fail in between
                    ok, held = True, False
                    for j in kept:
                        k = ops[j][0]
                        if k == "hold":
                            ok, held = ok and not held, True
                        elif k == "release":
                            ok, held = ok and held, False
                        elif held and k not in ("pass", "fail"):
                            ok = False
                    if not ok or held:
                        continue
                new = {j: k for k, j in enumerate(kept)}
                out = []
                for j in kept:
                    o = list(ops[j])
                    if o[0] in ref:
                        o[ref[o[0]]] = new[o[ref[o[0]]]]
                    out.append(o)
                if out and len(out) < n:
                    res.append(dict(case, ops=out))
            if chunk == 1:
                break
            chunk //= 2
        return res[:240]

    def shrink_candidates(self, case):
        """at most ~8000 operations per round (a 250-operation history has 240 candidates: minutes on a loaded machine)"""
        res, total = [], 0
        if os.environ.get("VERIF_C02_NOSHRINK"):      # development aid: report the failing case as it is
            return []
        for c in self._shrink_candidates(case):
            total += len(c.get("ops") or c.get("reqs") or c.get("keys") or [])
            if res and total > 8000 and len(res) >= 16:
                break
            res.append(c)
        return res

    def _shrink_candidates(self, case):
        kind = case.get("kind", "shed")
        if kind in ("multi", "wrest", "wrpc", "conc"):
            return self._shrink_scenario(case)
        if kind != "shed":
            fld = "keys" if kind == "group" else "reqs"
            xs = case[fld]
            res = []
            for i in range(len(xs)):
                if len(xs) > 1:
                    c = dict(case)
                    c[fld] = xs[:i] + xs[i + 1:]
                    res.append(c)
            if kind == "rest":
                for i, q in enumerate(xs):
                    if len(q["codes"]) > 1:
                        for j in range(len(q["codes"])):
                            c = dict(case)
                            c[fld] = xs[:i] + [dict(q, codes=q["codes"][:j] + q["codes"][j + 1:])] + xs[i + 1:]
                            res.append(c)
            return res[:200]
        ops = case.get("ops") or []
        n = len(ops)
        if n <= 1:
            return []
        res = []
        chunk = max(1, n // 2)
        while True:
            for i in range(0, n, chunk):
                keep = [j for j in range(n) if not (i <= j < i + chunk)]
                nops = self._renumber(ops, keep)
                if nops:
                    c = dict(case)
                    c["ops"] = nops
                    res.append(c)
            if chunk == 1:
                break
            chunk //= 2
        return res[:240]

    def _renumber(self, ops, keep):
        keepset = set(keep)
        kept = [j for j in keep if ops[j][0] == "allow" or ops[j][1] in keepset]
        newidx = {j: k for k, j in enumerate(kept)}
        out = []
        for j in kept:
            o = list(ops[j])
            if o[0] != "allow":
                o[1] = newidx[o[1]]
            out.append(o)
        return out

    # ---- known finding --------------------------------------------------------
    KNOWN_NAN = "nan-factor-threshold-eq-cpumax"

    def known(self, case, obs):
        """The known finding, and only it: cpuThreshold = cpuMax, some admitted Allow whose checker reading is at
        least cpuMax and whose factor reading is exactly cpuMax, the history satisfies every clause of the property
        once shed_when_saturated carries its excluding hypothesis (Check.prop_ok_excl, evaluated in Coq) - i.e. the
        only failing clause is shed_when_saturated at the NaN corner - AND the model, in which that corner is pinned
        (Model.overload_factor = None exactly there; Pinned.shed_when_saturated_refuted_at_threshold_cpuMax),
        reproduces the whole history (Check.agrees)."""
        if case.get("kind", "shed") != "shed" or case.get("threshold") != 1000 or obs.get("nop"):
            return None
        if not any(o[0] == "allow" and o[2] >= 1000 and o[3] == 1000 and not b["shed"]
                   for o, b in zip(case["ops"], obs["obs"])):
            return None
        term = self.coq_case(case, obs)
        if term not in EXCL_CACHE:      # normally filled by the bulk evaluation; this is the fall-back
            out = vlib.coq_eval_term(self.id, self.check_module or "C02.Check", "(prop_ok_excl (%s), agrees (%s))" % (term, term))
            m = vlib.PAIR_RE.search(out)
            EXCL_CACHE[term] = bool(m and m.group(1) == "true" and m.group(2) == "true")
        # known() is only consulted for histories whose prop_ok is false
        return self.KNOWN_NAN if EXCL_CACHE[term] else None

    def describe_failure(self, case, obs):
        if case.get("kind") == "conc":
            return ("overlapping Allow calls under a forced schedule (parked inside systemOverloadChecker / at the drop log "
                    "line): ordered by their decisions, a call was shed although fewer requests than 10% of the capacity "
                    "(or none at all) were let in and unresolved at that moment, or was let in although overloaded and "
                    "saturated - in-flight counted by the executor (promises handed out - promises resolved), not read from "
                    "the shedder")
        if case.get("kind") in ("wrest", "wrpc"):
            return ("wrapper in front of a real shedder, overlapping requests: a request was shed although not hot / not above "
                    "10% of capacity (what the shedder counts as in flight is not what is in flight: a promise was not resolved, "
                    "or resolved twice), or a let-in request's promise was not resolved exactly once when its handler ended "
                    "(Fail iff 503 / DeadlineExceeded), or a shed request ran its handler")
        if case.get("kind") == "multi":
            return ("several shedders in one process, the configuration calls (Disable / NewShedderGroup / GetShedder / "
                    "NewAdaptiveShedder) in the order given by the operations: one shedder violates the property on its own history "
                    "(state shared between instances, options lost on the way through ShedderGroup, load.Disable() not honoured by a "
                    "shedder BUILT afterwards - a group member is built by the first GetShedder of its key -, or honoured by one built "
                    "before)")
        if case.get("kind", "shed") in ("rest", "rpc"):
            return ("wrapper: a shed request ran the handler / did not get the overload answer, or a let-in request's promise "
                    "was not resolved exactly once (Fail iff 503 / DeadlineExceeded), or the handler's result was altered")
        if case.get("kind") == "group":
            return "ShedderGroup: same key did not give the same shedder, or different keys shared one"
        return ("on the implementation: an Allow was shed although not hot (CPU below the threshold and no shedding episode open: "
                "an episode starts with a shed request and ends at the first Allow under a cool CPU at least coolOffDuration after the "
                "last overloaded one) / not above 10% of capacity, or was admitted although "
                "overloaded with flying and avgFlying above capacity, or flying != admitted - resolved, or a disabled shedder shed")


PROPERTY = C02()
