"""C02 — adaptive load shedder."""
import os
import re
from fractions import Fraction

import vlib
from runner import Property, ExecError
from vlib import cz, clist, cbool

BASE = 10 ** 12            # virtual clock base (0 means "unset" for overloadTime)
SEC = 10 ** 9
MS = 10 ** 6
COOL = SEC
OVERLAY = {
    "core/load/verif_c02_test.go": os.path.join(vlib.HARNESS, "overlay/load/verif_c02_test.go"),
    "core/stat/verif_cpu.go": os.path.join(vlib.HARNESS, "overlay/stat/verif_cpu.go"),
    "core/timex/relativetime.go": os.path.join(vlib.HARNESS, "overlay/timex/relativetime.go"),
}
OVERLAY_REST = {"rest/handler/verif_c02_rest_test.go": os.path.join(vlib.HARNESS, "overlay/resthandler/verif_c02_rest_test.go")}
OVERLAY_RPC = {"zrpc/internal/serverinterceptors/verif_c02_rpc_test.go":
               os.path.join(vlib.HARNESS, "overlay/serverinterceptors/verif_c02_rpc_test.go")}
EXECUTORS = {   # kind -> (package, overlay, test)
    "shed": ("./core/load", OVERLAY, "^TestVerifC02$"),
    "group": ("./core/load", OVERLAY, "^TestVerifC02Group$"),
    "rest": ("./rest/handler", OVERLAY_REST, "^TestVerifC02Rest$"),
    "rpc": ("./zrpc/internal/serverinterceptors", OVERLAY_RPC, "^TestVerifC02Rpc$"),
}
REST_CODES = [200, 201, 204, 301, 400, 404, 429, 500, 502, 503, 503, 504]
RPC_OUTS = ["ok", "err", "deadline", "wrapped", "status_deadline", "panic"]
RPC_COQ = {"ok": "GOk", "err": "GErr", "deadline": "GDeadline", "wrapped": "GWrappedDeadline",
           "status_deadline": "GStatusDeadline", "panic": "GPanic"}
TWO30 = Fraction(2 ** 30)

# The runner evaluates cases in shards of 400 per coqc process; a C02 case costs ~50-100 ms
# (exact rationals, two windows, reference window), so use small shards to fill the cores.
_coq_eval_cases = vlib.coq_eval_cases


def _coq_eval_cases_small_shards(prop, check_module, terms, preamble="", shard=400, timeout=900):
    if prop == "C02":
        shard = max(4, min(40, (len(terms) + 2 * vlib.NCPU - 1) // (2 * vlib.NCPU)))
    return _coq_eval_cases(prop, check_module, terms, preamble=preamble, shard=shard, timeout=timeout)


vlib.coq_eval_cases = _coq_eval_cases_small_shards


def dyadic(m, e):
    return Fraction(m) * (Fraction(2) ** e)


class C02(Property):
    id = "C02"
    title = "Adaptive load shedder: sheds only when overloaded and over capacity"
    quick_cases = 360
    thorough_cases = 9000
    design_ref = "DESIGN.md §6/C02"
    level_text = ("Unbounded Rocq theorems over every configuration, every history of Allow/Pass/Fail with arbitrary clock "
                  "readings and every CPU trace: a shed implies (CPU reading >= threshold now, or an earlier shed and an "
                  "overloaded Allow less than coolOffDuration ago) and flying, avgFlying > 0.1 x capacity; overloaded with "
                  "flying and avgFlying above capacity implies shed; flying = admitted - resolved; idle and disabled shedders never shed "
                  "(shed-only-if, shed-when-saturated, idle and conservation are also proved for every interleaving of the "
                  "atomic steps of concurrent calls, on the possibly stale values each call read); capacity "
                  "= max(1, peak bucket pass count x min average latency x windowScale) over the buckets Reduce visits. "
                  "The model is tied to core/load by differential execution of generated histories in a white-box overlay "
                  "test with a virtual clock and an injected CPU gauge; constants are re-extracted from the source.")
    level_note = ("Trusted: Coq kernel + vm_compute; hand-written model (exact rationals for float64, near-tie decisions "
                  "skipped); correspondence on generated sequential histories only (the interleaving theorems rest on the "
                  "atomicity of sync/atomic, the spin lock and the window's RWMutex); stat.CpuUsage() is an input.")
    rule = ("histories: window 50ms..10s, 1..50 buckets (incl. bucket durations whose windowScale is a dyadic float), thresholds "
            "around 900 and corner values, 20..110 Allow/Pass/Fail ops with clock gaps around bucket / cool-off / window "
            "boundaries, CPU traces low/high/at-threshold/spiky, checker reading split from the factor reading in ~20%; "
            "non-trivial = at least one shed, one Allow admitted while hot (overloaded or cooling off) and one completed "
            "Pass; distinct = canonical JSON hash of the history")
    trusted_base = [
        "model theories/C02/Model.v is hand-written; tie = white-box overlay test harness/overlay/load/verif_c02_test.go on generated histories",
        "overlay core/timex/relativetime.go (virtual clock) replaces the 17-line real file; overlay core/stat/verif_cpu.go adds a setter for the CPU gauge",
        "float64 arithmetic is modelled by exact rationals; decisions with relative margin < 2^-30 are not compared",
        "Lib/RollingWindow.v is the shared hand-written window model (compared here through maxPass()/minRt() before every Allow)",
        "constant extractor harness/cmd/c02consts (go/types) is trusted to print the constants of adaptiveshedder.go",
    ]
    assumptions = ["stat.CpuUsage() may return any int64; the theorems quantify over both readings of every Allow",
                   "each atomic action of Allow/Pass/Fail (atomic add/load, spin-locked avgFlying access, RWMutex-protected window op) is one step",
                   "shed_when_saturated excludes cpuThreshold = cpuMax = CPU reading (0/0 = NaN in overloadFactor; documented precondition "
                   "threshold < cpuMax); prop_ok does NOT exclude it: such histories fail and are reported as KNOWN-FINDING "
                   "nan-factor-threshold-eq-cpumax iff they pass prop_ok_excl"]

    # ---- translators ---------------------------------------------------------
    def regen(self, ctx):
        import c02consts
        return c02consts.regen()

    # ---- cases -----------------------------------------------------------------
    def corpus(self):
        cs = []
        B = BASE
        # exact tie: window 3.2s/50 -> bucket 64ms, windowScale = 1/64; 8 passes of 8ms -> maxFlight = 1;
        # flying = 1, avgFlying > 1, cpu = threshold (factor 1): 1 > 1 is false -> admitted
        ops = [["allow", B, 0, 0] for _ in range(8)]
        ops += [["pass", i, B + 8 * MS] for i in range(8)]
        t = B + 70 * MS
        ops += [["allow", t, 0, 0] for _ in range(5)]
        ops += [["fail", 16 + i] for i in range(4)]
        ops += [["allow", t, 900, 900], ["allow", t, 900, 900], ["allow", t, 900, 900]]
        cs.append(self._case(3200 * MS, 50, 900, B, ops))
        # tie at the lower bound: capacity 10 (10 passes x 64ms / 64), cpu far above: factor 0.1 -> bound 1
        ops = [["allow", B, 0, 0] for _ in range(10)]
        ops += [["pass", i, B + 64 * MS - 1] for i in range(10)]
        t = B + 130 * MS
        ops += [["allow", t, 0, 0] for _ in range(6)]
        ops += [["fail", 20 + i] for i in range(5)]
        ops += [["allow", t, 1000, 1000], ["allow", t, 1000, 1000], ["allow", t, 1000, 1000]]
        cs.append(self._case(3200 * MS, 50, 900, B, ops))
        # cool-off boundary: shed at t, then cpu low at t+1s-1 (still hot), t+1s (cooled)
        pre = [["allow", B, 0, 0] for _ in range(6)] + [["fail", i] for i in range(3)]
        for d in (COOL - 1, COOL, COOL + 1):
            ops = pre + [["allow", B + 5, 950, 950], ["allow", B + 5 + d, 0, 0], ["allow", B + 5 + d, 0, 0]]
            cs.append(self._case(5 * SEC, 50, 900, B, ops))
        # known finding nan-factor-threshold-eq-cpumax, exhibited: threshold = cpuMax, capacity 1, flying 10,
        # avgFlying ~ 8.9, CPU reading exactly 1000 -> overloaded and saturated, yet admitted (NaN factor);
        # at 1001 the factor is -Inf -> clamped to 0.1 -> shed
        ops = [["allow", B, 0, 0] for _ in range(20)] + [["pass", i, B + 5 * MS] for i in range(10)]
        ops += [["allow", B + 150 * MS, 1000, 1000], ["allow", B + 150 * MS, 1001, 1001]]
        cs.append(self._case(5 * SEC, 50, 1000, B, ops))
        # NaN corner: threshold = cpuMax = reading
        ops = pre + [["allow", B + 5, 1000, 1000], ["allow", B + 6, 1001, 1001], ["allow", B + 7, 1000, 999]]
        cs.append(self._case(5 * SEC, 50, 1000, B, ops, mode="split"))
        # disabled, directly and through a group
        ops = [["allow", B, 1000, 1000] for _ in range(5)] + [["pass", 0, B + 1], ["fail", 1], ["allow", B + 2, 1000, 1000]]
        cs.append(self._case(5 * SEC, 50, 900, B, ops, enabled=False))
        cs.append(self._case(5 * SEC, 50, 900, B, ops, enabled=False, via="group"))
        # bucket boundary: passes land in bucket 0; read at the last instant of bucket 1 / first of bucket `size`
        for tt in (2 * 100 * MS - 1, 10 * 100 * MS - 1, 10 * 100 * MS, 11 * 100 * MS):
            ops = [["allow", B, 0, 0] for _ in range(12)] + [["pass", i, B + 99 * MS] for i in range(6)]
            ops += [["fail", 6], ["fail", 7], ["allow", B + tt, 990, 990], ["allow", B + tt, 990, 990]]
            cs.append(self._case(SEC, 10, 900, B, ops))
        # wrappers: every outcome class, shed and let in, with and without panic / body
        reqs = [{"shed": True, "codes": [200], "body": True, "panic": False}]
        for codes in ([], [200], [503], [500], [500, 503], [503, 200], [204, 503, 404]):
            for pn in (False, True):
                reqs.append({"shed": False, "codes": codes, "body": not pn, "panic": pn})
        cs.append({"kind": "rest", "reqs": reqs})
        cs.append({"kind": "rpc", "reqs": [{"shed": True, "out": "ok"}, {"shed": True, "out": "panic"}]
                   + [{"shed": False, "out": o} for o in RPC_OUTS]})
        cs.append({"kind": "group", "keys": [1, 2, 1, 3, 2, 1, 1, 30]})
        for c in cs:
            c["corpus"] = True
        for fn in sorted(os.listdir(os.path.join(vlib.ROOT, "corpus", "C02"))) if os.path.isdir(os.path.join(vlib.ROOT, "corpus", "C02")) else []:
            if fn.endswith(".json"):
                import json
                obj = json.load(open(os.path.join(vlib.ROOT, "corpus", "C02", fn)))
                cs.append(obj.get("case", obj))
        return cs

    def _case(self, window, buckets, th, t0, ops, enabled=True, via="direct", mode="real"):
        return {"window": window, "buckets": buckets, "threshold": th, "t0": t0, "enabled": enabled,
                "via": via, "mode": mode, "ops": ops}

    CONFIGS = [(5 * SEC, 50), (5 * SEC, 50), (SEC, 10), (SEC, 1), (2 * SEC, 2), (3 * SEC, 10), (10 * SEC, 50), (10 * SEC, 7),
               (3200 * MS, 50), (3200 * MS, 50), (1600 * MS, 25), (6400 * MS, 50), (50 * MS, 50), (500 * MS, 10), (64 * MS, 4),
               (7 * SEC, 33), (4 * SEC, 3)]

    def _gen_other(self, rng):
        r = rng.random()
        if r < 0.4:
            reqs = []
            for _ in range(rng.randint(3, 30)):
                codes = [rng.choice(REST_CODES) for _ in range(rng.choice([0, 1, 1, 1, 2, 3]))]
                reqs.append({"shed": rng.random() < 0.3, "codes": codes, "body": rng.random() < 0.5,
                             "panic": rng.random() < 0.15})
            return {"kind": "rest", "reqs": reqs}
        if r < 0.8:
            return {"kind": "rpc", "reqs": [{"shed": rng.random() < 0.3, "out": rng.choice(RPC_OUTS)}
                                            for _ in range(rng.randint(3, 30))]}
        nk = rng.randint(1, 6)
        return {"kind": "group", "keys": [rng.randrange(nk) + rng.choice([0, 0, 26]) for _ in range(rng.randint(2, 25))]}

    def gen(self, rng, n, tier):
        cases = []
        for _ in range(n):
            if rng.random() < 0.12:
                cases.append(self._gen_other(rng))
                continue
            if rng.random() < 0.8:
                window, buckets = rng.choice(self.CONFIGS)
            else:
                window, buckets = rng.randint(1, 10) * SEC, rng.randint(1, 50)
            bd = window // buckets
            th = rng.choice([900] * 8 + [500, 100, 990, 936, 0, 1000, 1100, 999])
            t0 = BASE + rng.choice([0, 1, rng.randrange(10 * SEC)])
            enabled = rng.random() > 0.04
            via = "group" if rng.random() < 0.15 else "direct"
            mode = "split" if rng.random() < 0.2 else "real"
            trace = rng.choice(["low", "high", "high", "at", "spiky", "spiky", "mixed", "mixed", "ramp"])
            double = rng.random() < 0.04
            nops = rng.randint(20, 110) if tier != "search" else rng.randint(10, 70)
            ops = []
            t = t0
            open_ids = []
            done_ids = []
            lat_style = rng.choice(["short", "bucket", "long", "mixed"])
            # fail-heavy family: in-flight builds up under an overloaded CPU and most promises are resolved with
            # Fail, so that avgFlying is driven by Fail (shed_when_saturated is judged with the recomputed average)
            fail_heavy = rng.random() < 0.25
            p_pass, p_fail = (0.62, 0.74) if not fail_heavy else (0.44, 0.78)
            if fail_heavy:
                trace = rng.choice(["high", "high", "at", "mixed"])
                if rng.random() < 0.6:
                    window, buckets = rng.choice([(SEC, 1), (2 * SEC, 2), (4 * SEC, 3), (10 * SEC, 7), (3 * SEC, 2)])
                    bd = window // buckets
                lat_style = rng.choice(["short", "short", "mixed"])
            step = 0
            while len(ops) < nops:
                r = rng.random()
                if r < 0.40:
                    for _ in range(rng.choice([1, 1, 2, 3, 5, 8, 12])):
                        c1 = self._cpu(rng, th, trace, step)
                        c2 = c1 if mode == "real" else self._cpu(rng, th, rng.choice(["low", "high", "at", "mixed"]), step)
                        open_ids.append(len(ops))
                        ops.append(["allow", t, c1, c2])
                        step += 1
                elif r < p_pass and open_ids:
                    for _ in range(rng.choice([1, 1, 2, 4, 8])):
                        if not open_ids:
                            break
                        i = open_ids.pop(rng.randrange(len(open_ids)))
                        done_ids.append(i)
                        ops.append(["pass", i, t])
                elif r < p_fail and open_ids:
                    for _ in range(rng.choice([1, 1, 2, 4])):
                        if not open_ids:
                            break
                        i = open_ids.pop(rng.randrange(len(open_ids)))
                        done_ids.append(i)
                        ops.append(["fail", i])
                elif r < p_fail + 0.02 and double and done_ids:
                    i = rng.choice(done_ids)
                    ops.append(rng.choice([["pass", i, t], ["fail", i]]))
                else:
                    t += self._gap(rng, bd, window, lat_style)
            cases.append(self._case(window, buckets, th, t0, ops[:nops], enabled, via, mode))
        return cases

    def _cpu(self, rng, th, trace, step):
        below = [th - 1, th - 50, th - 400, 0, th - 1]
        above = [th, th + 1, th + 50, th + (1000 - th) // 2, th + (1000 - th) * 3 // 4, 1000, 1050, 999]
        if trace == "low":
            v = rng.choice(below)
        elif trace == "high":
            v = rng.choice(above)
        elif trace == "at":
            v = rng.choice([th, th, th - 1, th + 1])
        elif trace == "spiky":
            v = rng.choice(above) if rng.random() < 0.15 else rng.choice(below)
        elif trace == "ramp":
            v = max(0, th - 200 + 7 * step)
        else:
            v = rng.choice(below + above)
        return max(0, v)

    def _gap(self, rng, bd, window, style):
        k = rng.choice([1, 1, 2, 3, 5])
        edge = [0, 1, bd - 1, bd, bd + 1, k * bd - 1, k * bd, k * bd + 1, COOL - 1, COOL, COOL + 1,
                window - bd, window - 1, window, window + 1, 2 * window + 3]
        if style == "short":
            pool = [rng.randrange(1, 3 * MS), rng.randrange(1, 40 * MS), rng.choice(edge), bd // 3 + 1]
        elif style == "bucket":
            pool = [rng.choice(edge), rng.choice(edge), rng.randrange(1, 2 * bd + 1), bd // 2 + 1]
        elif style == "long":
            pool = [rng.randrange(1, 900 * MS), rng.choice(edge), rng.randrange(1, window + 1), 100 * MS]
        else:
            pool = [rng.randrange(1, 3 * MS), rng.randrange(1, 300 * MS), rng.choice(edge), rng.randrange(1, 2 * bd + 1)]
        return max(0, rng.choice(pool))

    # ---- execution -----------------------------------------------------------
    def execute(self, cases, ctx):
        out = [None] * len(cases)
        for kind, (pkg, ov, test) in EXECUTORS.items():
            idx = [i for i, c in enumerate(cases) if c.get("kind", "shed") == kind]
            if not idx:
                continue
            sub = [dict(cases[i], id=j) for j, i in enumerate(idx)]
            rc, log_, res = vlib.go_test_overlay(pkg, ov, run=test, cases=sub, tag="c02" + kind, timeout=900)
            if rc != 0 or len(res) != len(sub):
                raise ExecError("c02 %s executor rc=%s (%d/%d results): %s" % (kind, rc, len(res), len(sub), log_[-3000:]))
            for i, r in zip(idx, res):
                if r.get("err"):
                    raise ExecError("c02 executor: case %s: %s" % (cases[i].get("id"), r["err"]))
                if kind == "shed":
                    out[i] = {"obs": r["obs"], "same": r["same"], "nop": r["nop"], "tries": r.get("tries", 1)}
                else:
                    out[i] = {"obs": r["obs"]}
        return out

    def prepare(self, ctx):
        # compile the overlay tests once (also proves they still build against the current tree)
        for kind, (pkg, ov, test) in EXECUTORS.items():
            if kind == "group":
                continue
            rc, out, res = vlib.go_test_overlay(pkg, ov, run=test, cases=[], tag="c02p", timeout=900)
            if rc != 0:
                return False, out
        return True, ""

    def extra(self, ctx):
        """thorough tier: free-running -race monitor of conservation / idle-never-sheds under real concurrency."""
        if ctx.tier != "thorough":
            return []
        rc, out, res = vlib.go_test_overlay("./core/load", OVERLAY, run="^TestVerifC02Race$", cases=[], tag="c02r",
                                            timeout=600, race=True, env={"VERIF_C02_RACE": "1"})
        ctx.checker_cmds.append("go test -race -run TestVerifC02Race ./core/load (overlay): 16 goroutines x 3000 Allow/Pass/Fail")
        if rc != 0 or not res:
            if "DATA RACE" in out:
                return [{"what": "data race in core/load under concurrent Allow/Pass/Fail", "replay": out[-3000:]}]
            raise ExecError("c02 race monitor rc=%s: %s" % (rc, out[-2000:]))
        r = res[0]
        ctx.notes.append("race monitor: %s" % r)
        fails = []
        if r["final"] != 0 or r["admitted"] != r["resolved"] or r["negative"] != 0:
            fails.append({"what": "flying != admitted - resolved under concurrency", "replay": r})
        if r["idleShed"] != 0:
            fails.append({"what": "idle shedder shed a request", "replay": r})
        return fails

    def coq_case(self, case, obs):
        kind = case.get("kind", "shed")
        if kind == "rest":
            items = []
            for q, o in zip(case["reqs"], obs["obs"]):
                rq = "WRest %s (mkRO %s %s)" % ("VShed" if q["shed"] else "VGrant", clist([cz(c) for c in q["codes"]]), cbool(q["panic"]))
                ob = "WO %s %s %s %s (VisStatus %s) %s" % (cz(o["runs"]), cz(o["allows"]), cz(o["passes"]), cz(o["fails"]), cz(o["code"]), cbool(o["panic"]))
                items.append("(%s, %s)" % (rq, ob))
            return "CWrap %s" % clist(items)
        if kind == "rpc":
            items = []
            for q, o in zip(case["reqs"], obs["obs"]):
                rq = "WRpc %s %s" % ("VShed" if q["shed"] else "VGrant", RPC_COQ[q["out"]])
                v = o["vis"]
                vis = "VisExhausted" if v == "exhausted" else ("(VisRpc %s)" % RPC_COQ[v] if v in RPC_COQ else "(VisStatus (-1))")
                if v in RPC_COQ and v != "panic" and not o["val"]:
                    vis = "(VisStatus (-2))"   # the handler's value was lost
                ob = "WO %s %s %s %s %s %s" % (cz(o["runs"]), cz(o["allows"]), cz(o["passes"]), cz(o["fails"]), vis, cbool(o["panic"]))
                items.append("(%s, %s)" % (rq, ob))
            return "CWrap %s" % clist(items)
        if kind == "group":
            return "CGroup %s %s" % (clist([cz(k) for k in case["keys"]]),
                                     clist(["(%s, %s)" % (cz(a), cz(b)) for a, b in obs["obs"]]))
        return "CShed (%s)" % self._coq_shed(case, obs)

    def _coq_shed(self, case, obs):
        items = []
        for o, b in zip(case["ops"], obs["obs"]):
            if o[0] == "allow":
                op = "OAllow %s %s %s" % (cz(o[1]), cz(o[2]), cz(o[3]))
                ob = "OA %s %s %s %s %s %s" % (cbool(b["shed"]), cz(b["fl"]), cz(b["mp"]), cz(b["rt"]), cz(b["am"]), cz(b["ae"]))
            elif o[0] == "pass":
                op = "OPass %s %s" % (cz(o[1]), cz(o[2]))
                ob = "OR %s %s %s %s" % (cbool(b["done"]), cz(b["fl"]), cz(b["am"]), cz(b["ae"]))
            else:
                op = "OFail %s" % cz(o[1])
                ob = "OR %s %s %s %s" % (cbool(b["done"]), cz(b["fl"]), cz(b["am"]), cz(b["ae"]))
            items.append("(%s, %s)" % (op, ob))
        cfg = "(mkCfg %s %s %s %s)" % (cz(case["window"]), cz(case["buckets"]), cz(case["threshold"]), cbool(case["enabled"]))
        return "mkCase %s %s %s %s %s" % (cfg, cz(case["t0"]), cbool(obs["same"]), cbool(obs["nop"]), clist(items))

    # ---- measurement -----------------------------------------------------------
    def _walk(self, case, obs):
        """per Allow: (hot, shed, near) from the observables (independent of Coq)."""
        th = case["threshold"]
        bd = case["window"] // case["buckets"]
        res = []
        fl, avg = 0, Fraction(0)
        over_t, dropped = None, False
        for o, b in zip(case["ops"], obs["obs"]):
            if o[0] == "allow":
                now, c1, c2 = o[1], o[2], o[3]
                over = c1 >= th
                if over:
                    over_t = now
                still = False
                if not over and dropped and over_t is not None:
                    if now - over_t < COOL:
                        still = True
                    else:
                        dropped = False
                hot = over or still
                near = False
                if hot and b["mp"] and th != 1000:
                    raw = Fraction(b["mp"] * b["rt"] * MS, bd)
                    f = min(Fraction(1), max(Fraction(1, 10), Fraction(1000 - c2, 1000 - th)))
                    m = max(raw, Fraction(1)) * f
                    for x in (Fraction(fl), avg):
                        if abs(m - x) * TWO30 <= max(abs(m), abs(x)):
                            near = True
                if b["shed"]:
                    dropped = True
                res.append((hot, b["shed"], near, over))
            fl = b["fl"]
            avg = dyadic(b["am"], b["ae"])
        return res

    def nontrivial(self, case, obs):
        kind = case.get("kind", "shed")
        if kind in ("rest", "rpc"):
            qs = case["reqs"]
            return any(q["shed"] for q in qs) and any(o["fails"] for o in obs["obs"]) and any(o["passes"] for o in obs["obs"])
        if kind == "group":
            return len(set(case["keys"])) > 1 and len(case["keys"]) > len(set(case["keys"]))
        if obs["nop"]:
            return False
        w = self._walk(case, obs)
        shed = any(s for (_, s, _, _) in w)
        hot_admit = any(h and not s for (h, s, _, _) in w)
        passed = any(o[0] == "pass" and b["done"] for o, b in zip(case["ops"], obs["obs"]))
        return shed and hot_admit and passed

    def features(self, case, obs):
        kind = case.get("kind", "shed")
        if kind != "shed":
            fs = ["kind=" + kind]
            if kind != "group":
                if any(o["panic"] for o in obs["obs"]):
                    fs.append("wrapper_handler_panics")
                if any(q["shed"] for q in case["reqs"]):
                    fs.append("wrapper_shed")
                if kind == "rest" and any(not q["codes"] and not q["body"] and not q["shed"] for q in case["reqs"]):
                    fs.append("wrapper_handler_writes_nothing")
            return fs
        fs = ["buckets<=%d" % (10 * (1 + (case["buckets"] - 1) // 10)), "window_s=%d" % (case["window"] // SEC),
              "mode=" + case["mode"], "via=" + case["via"], "threshold=%d" % case["threshold"],
              "ops<=%d" % (20 * (1 + len(case["ops"]) // 20))]
        if obs["nop"]:
            return fs + ["disabled"]
        w = self._walk(case, obs)
        nshed = sum(1 for x in w if x[1])
        fs.append("sheds=%s" % ("0" if nshed == 0 else "1-4" if nshed < 5 else "5+"))
        if any(h and not o for (h, _, _, o) in w):
            fs.append("cooling_off_allow")
        if any(s and not o for (_, s, _, o) in w):
            fs.append("shed_while_cooling_off")
        if any(n for (_, _, n, _) in w):
            fs.append("near_tie_or_tie")
        if any(h and not s for (h, s, _, _) in w):
            fs.append("hot_but_admitted")
        if obs.get("tries", 1) > 1:
            fs.append("rerun_cpu_gauge_moved")
        if any(o[0] != "allow" and not b["done"] for o, b in zip(case["ops"], obs["obs"])):
            fs.append("resolve_of_shed_request(noop)")
        ids = [o[1] for o, b in zip(case["ops"], obs["obs"]) if o[0] != "allow" and b["done"]]
        if len(ids) != len(set(ids)):
            fs.append("double_resolve(out of quantifier)")
        if any(b["fl"] == 0 for b in obs["obs"][1:]):
            fs.append("returns_to_idle")
        return fs

    # ---- shrinking: delete operations, renumber promise ids --------------------
    def shrink_candidates(self, case):
        kind = case.get("kind", "shed")
        if kind != "shed":
            fld = "keys" if kind == "group" else "reqs"
            xs = case[fld]
            res = []
            for i in range(len(xs)):
                if len(xs) > 1:
                    c = dict(case)
                    c[fld] = xs[:i] + xs[i + 1:]
                    res.append(c)
            if kind == "rest":
                for i, q in enumerate(xs):
                    if len(q["codes"]) > 1:
                        for j in range(len(q["codes"])):
                            c = dict(case)
                            c[fld] = xs[:i] + [dict(q, codes=q["codes"][:j] + q["codes"][j + 1:])] + xs[i + 1:]
                            res.append(c)
            return res[:200]
        ops = case.get("ops") or []
        n = len(ops)
        if n <= 1:
            return []
        res = []
        chunk = max(1, n // 2)
        while True:
            for i in range(0, n, chunk):
                keep = [j for j in range(n) if not (i <= j < i + chunk)]
                nops = self._renumber(ops, keep)
                if nops:
                    c = dict(case)
                    c["ops"] = nops
                    res.append(c)
            if chunk == 1:
                break
            chunk //= 2
        return res[:240]

    def _renumber(self, ops, keep):
        keepset = set(keep)
        kept = [j for j in keep if ops[j][0] == "allow" or ops[j][1] in keepset]
        newidx = {j: k for k, j in enumerate(kept)}
        out = []
        for j in kept:
            o = list(ops[j])
            if o[0] != "allow":
                o[1] = newidx[o[1]]
            out.append(o)
        return out

    # ---- known finding --------------------------------------------------------
    KNOWN_NAN = "nan-factor-threshold-eq-cpumax"

    def known(self, case, obs):
        """The known finding, and only it: cpuThreshold = cpuMax, some admitted Allow whose checker and factor
        readings are exactly cpuMax, and the history satisfies every clause of the property once
        shed_when_saturated carries its excluding hypothesis (Check.prop_ok_excl, evaluated in Coq) - i.e. the only
        failing clause is shed_when_saturated at the NaN corner."""
        if case.get("kind", "shed") != "shed" or case.get("threshold") != 1000 or obs.get("nop"):
            return None
        if not any(o[0] == "allow" and o[2] >= 1000 and o[3] == 1000 and not b["shed"]
                   for o, b in zip(case["ops"], obs["obs"])):
            return None
        key = vlib.canon_hash([{k: v for k, v in case.items() if k != "id"}, obs["obs"]])
        cache = self.__dict__.setdefault("_known_cache", {})
        if key not in cache:
            out = vlib.coq_eval_term(self.id, self.check_module or "C02.Check",
                                     "(prop_ok (%s), prop_ok_excl (%s))" % ((self.coq_case(case, obs),) * 2))
            cache[key] = bool(re.search(r"=\s*\(false,\s*true\)", out))
        return self.KNOWN_NAN if cache[key] else None

    def describe_failure(self, case, obs):
        if case.get("kind", "shed") in ("rest", "rpc"):
            return ("wrapper: a shed request ran the handler / did not get the overload answer, or a let-in request's promise "
                    "was not resolved exactly once (Fail iff 503 / DeadlineExceeded), or the handler's result was altered")
        if case.get("kind") == "group":
            return "ShedderGroup: same key did not give the same shedder, or different keys shared one"
        return ("on the implementation: an Allow was shed although not hot / not above 10% of capacity, or was admitted although "
                "overloaded with flying and avgFlying above capacity, or flying != admitted - resolved, or a disabled shedder shed")


PROPERTY = C02()
