"""C04 — timeout wrappers (REST TimeoutHandler, zRPC server/client interceptors, fx.DoWithTimeout)."""
import concurrent.futures
import copy
import os
import re

import vlib
from runner import Property, ExecError
from vlib import cz, clist, cbool, copt

HOUR = 3600 * 10**9
SHORT = 3 * 10**6          # the real timeout used for the 503 branch: 3 ms
CODES = [200, 201, 204, 301, 400, 404, 500, 502, 504]
BAD_CODES = [0, 99, 600, 1000]
OV = os.path.join(vlib.HARNESS, "overlay")


def _kind(mode):
    return {"none": None, "cancel": "KCancel", "race": "KCancel", "deadline": "KDeadline"}[mode]


class C04(Property):
    id = "C04"
    title = "Timeout control: deadlines only shrink, outcomes are all-or-nothing"
    quick_cases = 700
    thorough_cases = 9000
    design_ref = "DESIGN.md §6/C04"
    level_text = ("Unbounded Rocq theorems over an interleaving model (threads: handler script H, Done event D, the wrapper's "
                  "select S) of rest/handler.TimeoutHandler, zrpc UnaryTimeoutInterceptor, fx.DoWithTimeout and the client "
                  "TimeoutInterceptor: for every handler script and every schedule the client-visible response is the handler's "
                  "complete response, the 503/499 (DeadlineExceeded/Canceled) timeout response, or the re-raised panic; nothing "
                  "is written after the timeout; the timeout branch is enabled as soon as D fired, whatever H does; the derived "
                  "deadline is min(caller's, now+timeout); websocket/SSE requests bypass the wrapper. Tied to the code by "
                  "controller-forced schedules (D at every script position, via cancel, real 3 ms timeout, and a D/handler race).")
    level_note = ("Trusted: Coq kernel + vm_compute; hand-written LTS (each mutex-protected method / channel operation is one "
                  "atomic action; validated by a free-running -race monitor in the thorough tier); context.WithTimeout modelled "
                  "as min(parent, now+d); the executor linearises what it observed (S's position is inferred from write errors "
                  "and the response); Flusher/Hijacker/Pusher pass-throughs are outside the handler behaviours covered.")
    rule = ("REST: scripts of 0..7 actions (header set/add/del, WriteHeader incl. invalid codes, Write chunks, ctx check, panic), "
            "D = none | cancel | real timeout / parent deadline | race at EVERY script position, plus websocket/SSE/zero-timeout "
            "exemptions; zRPC server + fx: work scripts with D at every position; client interceptor and rest engine: timeout "
            "selection. Non-trivial = D fired strictly inside the script (not before the first or after the last action) and "
            "the script writes at least one body chunk or header, or (slot) D fired while the work was running; distinct = "
            "canonical JSON hash of the input")
    trusted_base = [
        "model theories/C04/Model.v is hand-written; tie = correspondence run (harness/cmd/c04 + overlay tests) on forced schedules",
        "atomicity of tw.mu-protected methods and channel operations (validated by the -race free-run, thorough tier)",
        "context.WithTimeout/WithCancel (stdlib) behave as min(parent, now+d) / sticky first error",
        "the REST real writer is a test double with net/http semantics (first WriteHeader/Write freezes status+headers)",
        "httpx error handler left at its default (no httpx.SetErrorHandler)",
    ]
    assumptions = ["handler does not use http.Flusher / Hijacker / Pusher",
                   "status codes written by generated handlers avoid 499/503 and 1xx"]

    # ------------------------------------------------------------------
    def prepare(self, ctx):
        ok, res = vlib.go_build("c04")
        self.bin = res if ok else None
        return ok, ("" if ok else res)

    # ------------------------------------------------------------------
    # generation

    def corpus(self):
        s1 = [["set", 1, 7], ["wh", 201], ["w", [200, 201]], ["set", 2, 9], ["w", [202]]]
        res = []
        for pos in range(0, 7):
            for mode in ("cancel", "deadline", "race"):
                res.append(self._rest(s1, [[1, [5]]], mode, pos))
        res.append(self._rest(s1, [[1, [5]]], "none", 0))
        res.append(self._rest(s1, [[1, [5]]], "cancel", 3, req="ws"))
        res.append(self._rest(s1 + [["chk"], ["w", [203]]], [], "cancel", 3, req="sse"))
        res.append(self._rest(s1, [], "cancel", 2, dur=0))
        res.append(self._rest([["w", [200]], ["panic", 4]], [], "none", 0))
        res.append(self._rest([["wh", 700]], [], "cancel", 0))
        res.append(self._rest([["wh", 200], ["wh", 99], ["w", []]], [[2, [1, 2]]], "none", 0))
        res.append(self._rest([["w", [200]], ["chk"], ["w", [201]], ["chk"], ["w", [202]]], [], "race", 3))
        res.append(self._rest([["w", [200]], ["chk"], ["w", [201]]], [], "deadline", 1, parent=SHORT, dur=HOUR))
        return res

    def _rest(self, script, h0, mode, pos, req="plain", dur=None, parent=None):
        if dur is None:
            dur = SHORT if mode == "deadline" else HOUR
        return {"kind": "rest", "req": req, "dur_ns": dur, "parent_ns": parent, "h0": h0,
                "script": script, "d": {"mode": mode, "pos": pos}}

    def _script(self, rng):
        n = rng.choice([0, 1, 2, 3, 3, 4, 4, 5, 6, 7])
        acts = []
        for _ in range(n):
            r = rng.random()
            if r < 0.16:
                acts.append(["set", rng.randint(1, 3), rng.randint(1, 9)])
            elif r < 0.26:
                acts.append(["add", rng.randint(1, 3), rng.randint(1, 9)])
            elif r < 0.32:
                acts.append(["del", rng.randint(1, 3)])
            elif r < 0.50:
                c = rng.choice(CODES) if rng.random() < 0.9 else rng.choice(BAD_CODES)
                acts.append(["wh", c])
            elif r < 0.82:
                k = rng.choice([0, 1, 1, 2, 3])
                acts.append(["w", [rng.randint(128, 255) for _ in range(k)]])
            elif r < 0.95:
                acts.append(["chk"])
            else:
                acts.append(["panic", rng.randint(1, 9)])
        return acts

    def _h0(self, rng):
        h0 = []
        for k in sorted(rng.sample([1, 2, 3, 4], rng.choice([0, 0, 1, 2]))):
            h0.append([k, [rng.randint(1, 9) for _ in range(rng.choice([1, 1, 2]))]])
        return h0

    def gen(self, rng, n, tier):
        cases = []
        n_rest = n if not self._slots_enabled() else (n * 6) // 10
        while len(cases) < n_rest:
            script = self._script(rng)
            h0 = self._h0(rng)
            steps = len(script) + 1
            par = rng.choice([None, None, HOUR // 2, 2 * HOUR])
            cases.append(self._rest(script, h0, "none", 0, parent=par))
            for pos in range(0, steps + 1):
                cases.append(self._rest(script, h0, "cancel", pos, parent=par))
            for pos in range(0, steps):
                if rng.random() < 0.5:
                    cases.append(self._rest(script, h0, "deadline", pos, parent=rng.choice([None, 2 * HOUR])))
                else:
                    cases.append(self._rest(script, h0, "deadline", pos, dur=HOUR, parent=SHORT))
                cases.append(self._rest(script, h0, "race", pos, parent=par))
            x = rng.random()
            pos = rng.randint(0, steps)
            if x < 0.25:
                cases.append(self._rest(script, h0, "cancel", pos, req="ws", parent=par))
            elif x < 0.5:
                cases.append(self._rest(script, h0, "cancel", pos, req="sse", parent=par))
            elif x < 0.65:
                cases.append(self._rest(script, h0, "cancel", pos, dur=rng.choice([0, -5]), parent=par))
        cases = cases[:max(n_rest, 1)]
        if self._slots_enabled():
            cases += self._gen_slots(rng, n - len(cases))
        return cases

    def _slots_enabled(self):
        return False

    def _gen_slots(self, rng, n):
        return []

    # ------------------------------------------------------------------
    # execution

    def execute(self, cases, ctx):
        groups = {}
        for i, c in enumerate(cases):
            groups.setdefault(c["kind"], []).append(i)
        obs = [None] * len(cases)

        def run(kind):
            idx = groups[kind]
            sub = []
            for j, i in enumerate(idx):
                c = dict(cases[i])
                c["id"] = j
                sub.append(c)
            res = self._exec_kind(kind, sub)
            if len(res) != len(sub):
                raise ExecError("c04 %s executor returned %d results for %d cases" % (kind, len(res), len(sub)))
            for j, i in enumerate(idx):
                r = res[j]
                if r.get("err"):
                    raise ExecError("c04 %s executor: case %s: %s" % (kind, cases[i].get("id"), r["err"]))
                r.pop("id", None)
                obs[i] = r

        with concurrent.futures.ThreadPoolExecutor(max_workers=4) as ex:
            for f in [ex.submit(run, k) for k in groups]:
                f.result()
        return obs

    def _exec_kind(self, kind, sub):
        if kind == "rest":
            rc, out, res = vlib.go_run(self.bin, sub, tag="c04", timeout=900)
            if rc != 0:
                raise ExecError("c04 executor rc=%s: %s" % (rc, out[-2000:]))
            return res
        raise ExecError("c04: unknown case kind %s" % kind)

    # ------------------------------------------------------------------
    # rendering

    def _act(self, a):
        t = a[0]
        if t == "set":
            return "ASet %s %s" % (cz(a[1]), cz(a[2]))
        if t == "add":
            return "AAdd %s %s" % (cz(a[1]), cz(a[2]))
        if t == "del":
            return "ADel %s" % cz(a[1])
        if t == "wh":
            return "AWriteHeader %s" % cz(a[1])
        if t == "w":
            return "AWrite %s" % clist([cz(b) for b in a[1]])
        if t == "chk":
            return "ACheckCtx"
        return "APanic %s" % cz(a[1])

    def _hdrs(self, h):
        items = []
        for kv in h:
            if isinstance(kv, dict):
                k, vs = kv["k"], kv["vs"]
            else:
                k, vs = kv
            items.append((k, vs))
        items.sort()
        return clist(["(%s, %s)" % (cz(k), clist([cz(v) for v in vs])) for k, vs in items])

    def _ev(self, e):
        return {"H": "EH", "Dc": "ED KCancel", "Dd": "ED KDeadline",
                "Sp": "ES BPanic", "Sd": "ES BDone", "St": "ES BTimeout"}[e]

    def _pval(self, kind, val):
        if kind == "user":
            return "(Some (PUser %s))" % cz(val)
        if kind == "badcode":
            return "(Some (PBadCode %s))" % cz(val)
        return "None"

    def _ares(self, o):
        t = o[0]
        if t == "none":
            return "RNone"
        if t == "wok":
            return "RWriteOk %s" % cz(o[1])
        if t == "wto":
            return "RWriteTimeout"
        if t == "ctx":
            return "RCtx %s" % cbool(o[1])
        if t == "panic":
            if o[1] == "user":
                return "RPanic (PUser %s)" % cz(o[2])
            if o[1] == "badcode":
                return "RPanic (PBadCode %s)" % cz(o[2])
            return "RPanic (PUser (-1))"
        return "RWriteOk (-1)"     # an unexpected write error: matches nothing in the model

    def _optz(self, v):
        return copt(None if v is None else cz(v))

    def coq_case(self, case, obs):
        k = case["kind"]
        if k == "rest":
            return self._coq_rest(case, obs)
        raise ExecError("unknown kind")

    def _coq_rest(self, c, o):
        rq = {"plain": "RqPlain", "ws": "RqWebsocket", "sse": "RqSSE"}[c["req"]]
        sout = {"wait": "SoWait", "ret": "SoRet"}.get(o["sout"])
        if sout is None:
            sout = "(SoPanic %s)" % self._pval(o["pkind"], o["pval"])
        fields = [
            self._hdrs(c["h0"]), clist([self._act(a) for a in c["script"]]), cz(c["dur_ns"]), rq,
            self._optz(c["parent_ns"]), copt(_kind(c["d"]["mode"])),
            cbool(o["wrapped"]), clist([self._ev(e) for e in o["sched"]]), clist([self._ares(x) for x in o["hobs"]]),
            sout, cz(o["status"]), self._hdrs(o["snap"]), self._hdrs(o["live"]), clist([cz(b) for b in o["body"]]),
            cz(o["extra"]), cz(o["late"]), cz(o["foreign"]),
            self._optz(o["dl_seen_ns"] if o["has_dl"] else None), cz(o["t1_ns"]), cz(o["ret_at_d"]),
        ]
        return "CRest (mkRest %s)" % " ".join(fields)

    # ------------------------------------------------------------------
    # evidence

    def nontrivial(self, case, obs):
        if case["kind"] == "rest":
            n = len(case["script"])
            writes = any(a[0] in ("w", "set", "add", "wh") for a in case["script"])
            return case["d"]["mode"] != "none" and 0 < case["d"]["pos"] <= n and writes and case["req"] == "plain"
        return True

    def features(self, case, obs):
        fs = ["kind=" + case["kind"]]
        if case["kind"] == "rest":
            fs.append("rest:mode=" + case["d"]["mode"])
            fs.append("rest:req=" + case["req"])
            fs.append("rest:len=%d" % len(case["script"]))
            fs.append("rest:sout=" + obs["sout"])
            if obs["wrapped"]:
                br = [e for e in obs["sched"] if e.startswith("S")]
                fs.append("rest:branch=" + (br[0] if br else "none"))
                s = obs["sched"]
                if "St" in s and "H" in s[s.index("St"):]:
                    fs.append("rest:handler_acts_after_timeout")
                if case["d"]["mode"] == "race" and "St" in s:
                    i, j = s.index("Dc"), s.index("St")
                    fs.append("rest:race_H_between_D_and_S" if "H" in s[i:j] else "rest:race_S_first")
                if case["d"]["mode"] == "race" and "Sd" in s:
                    fs.append("rest:race_both_ready_done_taken")
            if any(x[0] == "wto" for x in obs["hobs"]):
                fs.append("rest:late_write_refused")
            if any(a[0] == "chk" for a in case["script"]):
                fs.append("rest:has_ctx_check")
            if any(a[0] == "panic" for a in case["script"]):
                fs.append("rest:has_panic")
        return fs

    def shrink_candidates(self, case):
        res = []
        if case["kind"] == "rest":
            sc = case["script"]
            for j in range(len(sc)):
                c = copy.deepcopy(case)
                c["script"] = sc[:j] + sc[j + 1:]
                if c["d"]["pos"] > j:
                    c["d"]["pos"] -= 1
                res.append(c)
            for j in range(len(case["h0"])):
                c = copy.deepcopy(case)
                c["h0"] = case["h0"][:j] + case["h0"][j + 1:]
                res.append(c)
            for j, a in enumerate(sc):
                if a[0] == "w" and len(a[1]) > 1:
                    c = copy.deepcopy(case)
                    c["script"][j] = ["w", a[1][:1]]
                    res.append(c)
        return res

    def describe_failure(self, case, obs):
        if case["kind"] == "rest":
            return ("REST timeout handler: the response is not the handler's complete response, the 503/499 timeout "
                    "response or the re-raised panic; or something was written after the timeout / a late Write was not "
                    "refused; or the handler's deadline exceeds min(caller's, now+timeout); or ServeHTTP did not return "
                    "at the deadline")
        return "timeout wrapper: outcome is not all-or-nothing / deadline not shrunk / wrapper did not return at the deadline"


PROPERTY = C04()
